(* Model of the libdbus message READER: DBusTypeReader (dbus/dbus-marshal-recursive.c)
   with the demarshalling helpers it uses (dbus/dbus-marshal-basic.c), i.e. the
   code behind dbus_message_iter_init / get_arg_type / next / recurse / get_basic /
   get_signature / get_element_count / get_fixed_array (dbus/dbus-message.c).

   The reader is a cursor machine over two byte strings: the TYPE string (the
   message's signature, NUL terminated; after recursing into a variant it is the
   value string itself) and the VALUE string (the message body).  It trusts its
   input: no bounds are checked in C.  In the model every byte that is read is
   fetched through [get_byte] / [get_num] / [cstring], which return [R_FAULT] when
   the position is outside the string -- never a default value.  A C assertion
   (_dbus_assert / _dbus_assert_not_reached, compiled out in production builds,
   where the behaviour is then undefined) is [R_ASSERT].  Fuel exhaustion is
   [R_FUEL]; [R_GAP] is a model-level failure to rebuild a [val] (signature not
   in the grammar, dict entry without exactly two members).

   Model file: definitions only, no proofs (Proofs/ReaderProofs.v). *)
From DV Require Export Lib.Base Gen.Tables Spec.SigSpec Spec.Codec Wire.Body.
Local Open Scope N_scope.

Inductive rerr := R_FAULT | R_ASSERT | R_FUEL | R_GAP.
Definition rr (A : Type) : Type := (A + rerr)%type.

Definition T_INVALID : N := 0.      (* DBUS_TYPE_INVALID *)

Notation "'do' x <- e ;; k" := (match e with inl x => k | inr z => inr z end)
  (at level 200, x pattern, e at level 100, k at level 200, only parsing).

(* DBusTypeReaderClass: body_reader_class, struct_reader_class, dict_entry_reader_class,
   array_reader_class, variant_reader_class (the *_types_only classes iterate over a
   signature without values and are not part of the message iterator) *)
Inductive klass := K_BODY | K_STRUCT | K_DICT | K_ARRAY | K_VARIANT.

(* struct DBusTypeReader.  byte_order, type_str and value_str are the section variables
   below; [r_tval] says that type_str is the value string (set by variant_reader_recurse). *)
Record reader := mkR {
  r_klass : klass;
  r_finished : bool;      (* finished *)
  r_tval : bool;          (* type_str == value_str *)
  r_tpos : N;             (* type_pos *)
  r_vpos : N;             (* value_pos *)
  r_start : N;            (* u.array.start_pos *)
  r_lenoff : N            (* array_len_offset *)
}.

Definition set_vpos (r : reader) (p : N) : reader :=
  mkR (r_klass r) (r_finished r) (r_tval r) (r_tpos r) p (r_start r) (r_lenoff r).
Definition set_tpos (r : reader) (p : N) : reader :=
  mkR (r_klass r) (r_finished r) (r_tval r) p (r_vpos r) (r_start r) (r_lenoff r).
Definition set_finished (r : reader) : reader :=
  mkR (r_klass r) true (r_tval r) (r_tpos r) (r_vpos r) (r_start r) (r_lenoff r).

(* ---- raw access: the only places where bytes are fetched ---------------------- *)
Definition bytes_from (s : bytes) (i : N) : bytes := skipn (N.to_nat i) s.

(* _dbus_string_get_byte *)
Definition get_byte (s : bytes) (i : N) : rr N :=
  match bytes_from s i with b :: _ => inl b | [] => inr R_FAULT end.

(* a C string starting at a position: what the caller of get_basic sees through the returned char* *)
Fixpoint cstring (s : bytes) : rr bytes :=
  match s with
  | [] => inr R_FAULT
  | b :: r => if b =? 0 then inl [] else do x <- cstring r;; inl (b :: x)
  end.

(* map_type_char_to_type *)
Definition map_type_char (t : N) : rr N :=
  if t =? DBUS_STRUCT_BEGIN_CHAR then inl DBUS_TYPE_STRUCT
  else if t =? DBUS_DICT_ENTRY_BEGIN_CHAR then inl DBUS_TYPE_DICT_ENTRY
  else if (t =? DBUS_STRUCT_END_CHAR) || (t =? DBUS_DICT_ENTRY_END_CHAR) then inr R_ASSERT
  else inl t.

(* _dbus_first_type_in_signature *)
Definition first_type (s : bytes) (pos : N) : rr N :=
  do b <- get_byte s pos;; map_type_char b.

(* _dbus_type_get_alignment (generated table; 0 = "unknown typecode": assert_not_reached) *)
Definition type_align (t : N) : rr N :=
  let a := type_alignment t in if a =? 0 then inr R_ASSERT else inl a.

(* the arms of the switch in _dbus_marshal_read_basic / _dbus_marshal_skip_basic for the
   fixed-width types: width = alignment; 0 for everything else *)
Definition fixed_width (t : N) : N :=
  if t =? DBUS_TYPE_BYTE then 1
  else if (t =? DBUS_TYPE_INT16) || (t =? DBUS_TYPE_UINT16) then 2
  else if (t =? DBUS_TYPE_INT32) || (t =? DBUS_TYPE_UINT32) || (t =? DBUS_TYPE_BOOLEAN) || (t =? DBUS_TYPE_UNIX_FD) then 4
  else if (t =? DBUS_TYPE_INT64) || (t =? DBUS_TYPE_UINT64) || (t =? DBUS_TYPE_DOUBLE) then 8
  else 0.

(* _dbus_type_signature_next (skip_one_complete_type): the loops that look for the matching
   close bracket count only the bracket kind they started with *)
Fixpoint sig_scan (o c : N) (depth : nat) (s : bytes) : rr N :=      (* bytes consumed, the closing one included *)
  match s with
  | [] => inr R_FAULT
  | b :: r =>
      if b =? 0 then inr R_ASSERT                     (* _dbus_assert: the byte under p is not DBUS_TYPE_INVALID *)
      else if b =? o then do n <- sig_scan o c (S depth) r;; inl (n + 1)
      else if b =? c then
        match depth with
        | O => inr R_ASSERT
        | S O => inl 1
        | S d' => do n <- sig_scan o c d' r;; inl (n + 1)
        end
      else do n <- sig_scan o c depth r;; inl (n + 1)
  end.

Fixpoint sig_skip (s : bytes) : rr N :=               (* length of the complete type at the head of s *)
  match s with
  | [] => inr R_FAULT
  | b :: r =>
      if b =? DBUS_TYPE_ARRAY then do n <- sig_skip r;; inl (n + 1)        (* while the byte under p is DBUS_TYPE_ARRAY: ++p *)
      else if (b =? DBUS_STRUCT_END_CHAR) || (b =? DBUS_DICT_ENTRY_END_CHAR) then inr R_ASSERT
      else if b =? DBUS_STRUCT_BEGIN_CHAR then do n <- sig_scan DBUS_STRUCT_BEGIN_CHAR DBUS_STRUCT_END_CHAR 1 r;; inl (n + 1)
      else if b =? DBUS_DICT_ENTRY_BEGIN_CHAR then do n <- sig_scan DBUS_DICT_ENTRY_BEGIN_CHAR DBUS_DICT_ENTRY_END_CHAR 1 r;; inl (n + 1)
      else inl 1
  end.

Definition sig_next (s : bytes) (tpos : N) : rr N :=
  do n <- sig_skip (bytes_from s tpos);; inl (tpos + n).

Section Reader.
  Variable le : bool.          (* byte_order == DBUS_LITTLE_ENDIAN *)
  Variable sigz : bytes.       (* the signature, with its terminating NUL *)
  Variable data : bytes.       (* value_str: the message body *)

  (* the C code dereferences (str_data + pos) as a dbus_uintNN_t and byte-swaps it when needed *)
  Definition get_num (pos sz : N) : rr N :=
    match take sz (bytes_from data pos) with
    | Some (b, _) => inl (num_of le b)
    | None => inr R_FAULT
    end.

  Definition tstr (r : reader) : bytes := if r_tval r then data else sigz.

  (* _dbus_type_reader_init: reader_init + body_reader_class *)
  Definition reader_init (type_pos value_pos : N) : reader :=
    mkR K_BODY false false type_pos value_pos 0 0.

  (* _dbus_marshal_read_uint32: aligns, then reads *)
  Definition read_uint32 (pos : N) : rr (N * N) :=        (* value, new_pos *)
    let p := align_up pos 4 in
    do v <- get_num p 4;; inl (v, p + 4).

  (* array_reader_get_array_len with ARRAY_READER_LEN_POS *)
  Definition array_len (r : reader) : rr N :=
    if r_start r <? r_lenoff r + 4 then inr R_FAULT            (* len_pos would be negative *)
    else
      let len_pos := r_start r - r_lenoff r - 4 in
      if negb (align_up len_pos 4 =? len_pos) then inr R_ASSERT
      else do l <- get_num len_pos 4;;
           if negb (r_start r - len_pos - 4 <? 8) then inr R_ASSERT else inl l.

  (* array_reader_check_finished *)
  Definition check_finished (r : reader) : rr bool :=
    do l <- array_len r;;
    let end_pos := r_start r + l in
    if negb (r_vpos r <=? end_pos) then inr R_ASSERT
    else if negb (r_start r <=? r_vpos r) then inr R_ASSERT
    else inl (r_vpos r =? end_pos).

  (* _dbus_type_reader_get_current_type *)
  Definition current_type (r : reader) : rr N :=
    if r_finished r then inl T_INVALID
    else
      do fin <- (match r_klass r with K_ARRAY => check_finished r | _ => inl false end);;
      if fin then inl T_INVALID
      else first_type (tstr r) (r_tpos r).

  (* _dbus_type_reader_get_element_type *)
  Definition element_type (r : reader) : rr N := first_type (tstr r) (r_tpos r + 1).

  (* _dbus_type_reader_recurse with base_reader_recurse / struct_or_dict_entry_reader_recurse /
     array_reader_recurse / variant_reader_recurse *)
  Definition recurse (r : reader) : rr reader :=
    do t <- first_type (tstr r) (r_tpos r);;
    if t =? DBUS_TYPE_STRUCT then
      inl (mkR K_STRUCT false (r_tval r) (r_tpos r + 1) (align_up (r_vpos r) 8) 0 0)
    else if t =? DBUS_TYPE_DICT_ENTRY then
      inl (mkR K_DICT false (r_tval r) (r_tpos r + 1) (align_up (r_vpos r) 8) 0 0)
    else if t =? DBUS_TYPE_ARRAY then
      let tp := r_tpos r + 1 in
      let len_pos := align_up (r_vpos r) 4 in
      let vp := len_pos + 4 in
      do et <- first_type (tstr r) tp;;
      do al <- type_align et;;
      let start := align_up vp al in
      if negb (start - (len_pos + 4) <? 8) then inr R_ASSERT
      else inl (mkR K_ARRAY false (r_tval r) tp start start (start - (len_pos + 4)))
    else if t =? DBUS_TYPE_VARIANT then
      do sig_len <- get_byte data (r_vpos r);;
      let tp := r_vpos r + 1 in
      let vp := tp + sig_len + 1 in
      do ct <- first_type data tp;;
      do al <- type_align ct;;
      inl (mkR K_VARIANT false true tp (align_up vp al) 0 0)
    else inr R_ASSERT.                       (* _dbus_assert_not_reached ("don't yet handle recursing into this type") *)

  (* _dbus_marshal_read_basic, as seen by the caller: the number for fixed-width types, the C string
     the returned pointer points to for string-like types *)
  Definition marshal_read_basic (pos t : N) : rr val :=
    let w := fixed_width t in
    if negb (w =? 0) then
      do n <- get_num (align_up pos w) w;; inl (VNum t n)
    else if (t =? DBUS_TYPE_STRING) || (t =? DBUS_TYPE_OBJECT_PATH) then
      do lp <- read_uint32 pos;;
      let '(_, p) := lp in
      do s <- cstring (bytes_from data p);; inl (VStr t s)
    else if t =? DBUS_TYPE_SIGNATURE then
      do _len <- get_byte data pos;;
      do s <- cstring (bytes_from data (pos + 1));; inl (VStr t s)
    else inr R_ASSERT.                       (* "not a basic type" *)

  (* _dbus_type_reader_read_basic *)
  Definition read_basic (r : reader) : rr val :=
    do t <- current_type r;; marshal_read_basic (r_vpos r) t.

  (* _dbus_marshal_skip_basic *)
  Definition skip_basic (t pos : N) : rr N :=
    let w := fixed_width t in
    if negb (w =? 0) then inl (align_up pos w + w)
    else if (t =? DBUS_TYPE_STRING) || (t =? DBUS_TYPE_OBJECT_PATH) then
      do lp <- read_uint32 pos;;
      let '(len, p) := lp in inl (p + len + 1)
    else if t =? DBUS_TYPE_SIGNATURE then
      do len <- get_byte data pos;; inl (pos + len + 2)
    else inr R_ASSERT.

  (* _dbus_marshal_skip_array *)
  Definition skip_array (et pos : N) : rr N :=
    let i := align_up pos 4 in
    do lp <- read_uint32 i;;
    let '(len, i1) := lp in
    do al <- type_align et;;
    inl (align_up i1 al + len).

  Definition is_sdv (t : N) : bool :=
    (t =? DBUS_TYPE_DICT_ENTRY) || (t =? DBUS_TYPE_STRUCT) || (t =? DBUS_TYPE_VARIANT).

  (* base_reader_next; [drain] is "recurse was done; while (_dbus_type_reader_next (&sub)) ;" *)
  Definition base_next (drain : reader -> rr reader) (r : reader) (t : N) : rr reader :=
    if is_sdv t then
      do sub <- recurse r;;
      do sub' <- drain sub;;
      let r1 := set_vpos r (r_vpos sub') in
      if t =? DBUS_TYPE_VARIANT then inl (set_tpos r1 (r_tpos r + 1))
      else inl (set_tpos r1 (r_tpos sub'))
    else if t =? DBUS_TYPE_ARRAY then
      do et <- first_type (tstr r) (r_tpos r + 1);;
      do p <- skip_array et (r_vpos r);;
      do tp <- sig_next (tstr r) (r_tpos r);;
      inl (set_tpos (set_vpos r p) tp)
    else
      do p <- skip_basic t (r_vpos r);;
      inl (set_tpos (set_vpos r p) (r_tpos r + 1)).

  (* struct_reader_next / dict_entry_reader_next *)
  Definition closing_next (closer : N) (drain : reader -> rr reader) (r : reader) (t : N) : rr reader :=
    do r1 <- base_next drain r t;;
    do b <- get_byte (tstr r1) (r_tpos r1);;
    if b =? closer then inl (set_finished (set_tpos r1 (r_tpos r1 + 1))) else inl r1.

  (* array_reader_next *)
  Definition array_next (drain : reader -> rr reader) (r : reader) (t : N) : rr reader :=
    do l <- array_len r;;
    let end_pos := r_start r + l in
    if negb (r_vpos r <? end_pos) then inr R_ASSERT
    else if negb (r_start r <=? r_vpos r) then inr R_ASSERT
    else
      do et <- first_type (tstr r) (r_tpos r);;
      do r1 <- (if is_sdv et then
                  do sub <- recurse r;;
                  do sub' <- drain sub;;
                  inl (set_vpos r (r_vpos sub'))
                else if et =? DBUS_TYPE_ARRAY then
                  do et2 <- first_type (tstr r) (r_tpos r + 1);;
                  do p <- skip_array et2 (r_vpos r);;
                  inl (set_vpos r p)
                else
                  do p <- skip_basic t (r_vpos r);;
                  inl (set_vpos r p));;
      if negb (r_vpos r1 <=? end_pos) then inr R_ASSERT
      else if r_vpos r1 =? end_pos then
        do tp <- sig_next (tstr r1) (r_tpos r1);; inl (set_tpos r1 tp)
      else inl r1.

  (* bound on the number of values on one level: every value occupies at least one byte *)
  Definition loop_fuel : nat := S (length data).

  (* _dbus_type_reader_next: the new state and the returned boolean.  [d] bounds the nesting of
     recursive skips (base_reader_next -> _dbus_type_reader_recurse -> _dbus_type_reader_next). *)
  Fixpoint rnext (d : nat) (r : reader) {struct d} : rr (reader * bool) :=
    match d with
    | O => inr R_FUEL
    | S d' =>
        do t <- current_type r;;
        if t =? T_INVALID then inl (r, false)
        else
          let drain :=
            (fix drain (n : nat) (s : reader) {struct n} : rr reader :=
               match n with
               | O => inr R_FUEL
               | S n' =>
                   do sm <- rnext d' s;;
                   let '(s', more) := sm in
                   if more then drain n' s' else inl s'
               end) loop_fuel in
          do r' <- (match r_klass r with
                    | K_BODY | K_VARIANT => base_next drain r t
                    | K_STRUCT => closing_next DBUS_STRUCT_END_CHAR drain r t
                    | K_DICT => closing_next DBUS_DICT_ENTRY_END_CHAR drain r t
                    | K_ARRAY => array_next drain r t
                    end);;
          do t' <- current_type r';;
          inl (r', negb (t' =? T_INVALID))
    end.

  (* _dbus_type_reader_get_signature + the copy made by dbus_message_iter_get_signature *)
  Definition get_signature (r : reader) : rr bytes :=
    do n <- sig_skip (bytes_from (tstr r) (r_tpos r));;
    match take n (bytes_from (tstr r) (r_tpos r)) with
    | Some (s, _) => inl s
    | None => inr R_FAULT
    end.

  (* the signature as a type of the specification's grammar *)
  Definition single_ty (s : bytes) : rr ty :=
    match parse_sig s with Some [t] => inl t | _ => inr R_GAP end.

  (* one value, the way dump_iter (harness/c/wire_h.c) reads it: basic values through get_basic,
     containers by recursing; [sub] reads all values of a sub-iterator *)
  Definition read_value (sub : reader -> rr (list val)) (r : reader) (t : N) : rr val :=
    if t =? DBUS_TYPE_ARRAY then
      do s <- recurse r;;
      do sg <- get_signature r;;
      do aty <- single_ty sg;;
      match aty with
      | TArray et => do xs <- sub s;; inl (VArr et xs)
      | _ => inr R_GAP
      end
    else if t =? DBUS_TYPE_STRUCT then
      do s <- recurse r;; do xs <- sub s;; inl (VStruct xs)
    else if t =? DBUS_TYPE_DICT_ENTRY then
      do s <- recurse r;; do xs <- sub s;;
      match xs with [k; x] => inl (VDictE k x) | _ => inr R_GAP end
    else if t =? DBUS_TYPE_VARIANT then
      do s <- recurse r;;
      do sg <- get_signature s;;
      do ct <- single_ty sg;;
      do xs <- sub s;;
      match xs with [x] => inl (VVar ct x) | _ => inr R_GAP end
    else read_basic r.

  (* dump_iter: while ((t = get_arg_type (it)) != INVALID) { read the value; next (it); } *)
  Fixpoint dump (d : nat) (r : reader) {struct d} : rr (list val) :=
    match d with
    | O => inr R_FUEL
    | S d' =>
        (fix loop (n : nat) (r : reader) {struct n} : rr (list val) :=
           match n with
           | O => inr R_FUEL
           | S n' =>
               do t <- current_type r;;
               if t =? T_INVALID then inl []
               else
                 do v <- read_value (dump d') r t;;
                 do rm <- rnext d r;;
                 do rest <- loop n' (fst rm);;
                 inl (v :: rest)
           end) loop_fuel r
    end.

  (* dbus_message_iter_get_element_count: O(1) for arrays of fixed-size elements, a walk otherwise *)
  Definition element_count (d : nat) (r : reader) : rr N :=
    do t <- current_type r;;
    if negb (t =? DBUS_TYPE_ARRAY) then inr R_ASSERT        (* _dbus_return_val_if_fail *)
    else
      do et <- element_type r;;
      do arr <- recurse r;;
      if type_fixed et then
        do al <- type_align et;;
        do total <- array_len arr;;
        inl (total / al)
      else
        (fix count (n : nat) (s : reader) (acc : N) {struct n} : rr N :=
           match n with
           | O => inr R_FUEL
           | S n' =>
               do t <- current_type s;;
               if t =? T_INVALID then inl acc
               else do sm <- rnext d s;; count n' (fst sm) (acc + 1)
           end) loop_fuel arr 0.

  (* _dbus_type_reader_read_fixed_multi (dbus_message_iter_get_fixed_array): the block of element
     bytes from the current position to the end of the array, in place and unswapped, with the
     number of elements; [r] is the reader INSIDE the array *)
  Definition read_fixed_multi (r : reader) : rr (bytes * N) :=
    match r_klass r with
    | K_ARRAY =>
        do et <- first_type (tstr r) (r_tpos r);;
        if et =? T_INVALID then inr R_ASSERT
        else if negb (type_fixed et) then inr R_ASSERT
        else
          do al <- type_align et;;
          if negb (r_start r <=? r_vpos r) then inr R_ASSERT
          else
            do total <- array_len r;;
            let end_pos := r_start r + total in
            if end_pos <? r_vpos r then inr R_ASSERT
            else
              let remaining := end_pos - r_vpos r in
              if negb (remaining <=? total) then inr R_ASSERT
              else if negb (remaining mod al =? 0) then inr R_ASSERT
              else if remaining =? 0 then inl ([], 0)
              else match take remaining (bytes_from data (r_vpos r)) with
                   | Some (b, _) => inl (b, remaining / al)
                   | None => inr R_FAULT
                   end
    | _ => inr R_ASSERT
    end.
End Reader.

(* nesting fuel: every level of nesting costs at least one byte of signature or of body *)
Definition depth_fuel (sg body : bytes) : nat := S (length sg + length body).

(* dbus_message_iter_init followed by dump_iter over the whole body *)
Definition read_all (le : bool) (sg body : bytes) : rr (list val) :=
  dump le (sg ++ [0]) body (depth_fuel sg body) (reader_init 0 0).

(* get_element_count of the first argument of a body *)
Definition first_element_count (le : bool) (sg body : bytes) : rr N :=
  element_count le (sg ++ [0]) body (depth_fuel sg body) (reader_init 0 0).

(* recurse into the first argument (an array of fixed-size elements) and get_fixed_array *)
Definition first_fixed_array (le : bool) (sg body : bytes) : rr (bytes * N) :=
  do s <- recurse (sg ++ [0]) body (reader_init 0 0);;
  read_fixed_multi le (sg ++ [0]) body s.
