(* Incoming flow control of a libdbus connection (C11 flow leg, C13 "capacity freed becomes usable again").
   Model only, no proofs (Proofs/FlowProofs.v).  Written after the C control flow:

     counter, counter_new, set_notify      struct DBusCounter, _dbus_counter_new, _dbus_counter_set_notify   dbus/dbus-resources.c
     crossed                               the open-coded "crossed the guard value" test of _dbus_counter_adjust_size /
                                           _dbus_counter_adjust_unix_fd (dbus-resources.c:188-193, 257-262)
     adjust_size, adjust_fd                _dbus_counter_adjust_size, _dbus_counter_adjust_unix_fd
     do_notify                             _dbus_counter_notify (returns whether the notify function is called)
     add_counter_link                      _dbus_message_add_counter_link   (dbus/dbus-message.c:315: both adjusts, NO notify)
     free_counter_adjust                   first half of free_counter / _dbus_message_remove_counter (dbus-message.c:619, 387):
                                           the two negative adjusts; the second half is _dbus_counter_notify = event Notify
     below_limits, check_read_watch        check_read_watch, authenticated branch (dbus/dbus-transport-socket.c:194-197, 228-230)
     may_queue_more                        first test of _dbus_transport_get_dispatch_status (dbus/dbus-transport.c:1123-1125)
     transport_init                        _dbus_transport_init_base (dbus-transport.c:188-201) + the check_read_watch that
                                           follows authentication
     step (Arrive ..)                      one iteration of the loop of _dbus_transport_queue_messages (dbus-transport.c:1170-1201):
                                           dispatch-status test, _dbus_message_add_counter, live_messages_changed called DIRECTLY
     step (Release k)                      dbus_message_unref -> dbus_message_cache_or_finalize -> free_counter, up to (excluding)
                                           its call of _dbus_counter_notify
     step Notify                           _dbus_counter_notify -> live_messages_notify (dbus-transport.c:61) -> check_read_watch
     step (SetLimits ..)                   _dbus_transport_set_max_received_size + _dbus_transport_set_max_received_unix_fds
                                           (dbus-transport.c:1269, 1292): _dbus_counter_set_notify, which clears notify_pending,
                                           then live_messages_changed = check_read_watch (since /repo d42cc8a; before that
                                           commit there was NO check_read_watch: machine parameter recheck = false)
     unref k                               the whole of free_counter in one thread: Release k, then Notify

   Counter values are C `long`; they are modelled as Z (no wrap-around: a connection's live bytes are bounded by the
   limit plus one message of at most 2^27 bytes).  The crossing test is a parameter of the machine so that the seeded
   variant (/verif/seeded/C11_4: `<=` for `<`) can be stated next to the faithful one; so is `recheck` (does the limit
   setter re-evaluate the read watch: true = the code as it is, false = the code before d42cc8a). *)
From Coq Require Import ZArith NArith List Bool.
Import ListNotations.
Local Open Scope Z_scope.

(* ---- DBusCounter ------------------------------------------------------------------------------ *)
Record counter := mkCounter {
  c_size : Z;            (* size_value *)
  c_fd : Z;              (* unix_fd_value *)
  c_size_guard : Z;      (* notify_size_guard_value *)
  c_fd_guard : Z;        (* notify_unix_fd_guard_value *)
  c_has_fn : bool;       (* notify_function != NULL *)
  c_pending : bool       (* notify_pending *)
}.

(* dbus_new0: everything zero, no notify function *)
Definition counter_new : counter := mkCounter 0 0 0 0 false false.

(* _dbus_counter_set_notify: installs guards and function, CLEARS notify_pending *)
Definition set_notify (c : counter) (size_guard fd_guard : Z) (has_fn : bool) : counter :=
  mkCounter (c_size c) (c_fd c) size_guard fd_guard has_fn false.

(* (old < guard && new >= guard) || (old >= guard && new < guard) *)
Definition crossed (old new guard : Z) : bool :=
  ((old <? guard) && (guard <=? new)) || ((guard <=? old) && (new <? guard)).

(* the seeded variant: (old <= guard) != (new <= guard) *)
Definition crossed_seeded (old new guard : Z) : bool :=
  negb (Bool.eqb (old <=? guard) (new <=? guard)).

Section WithCross.
Variable cross : Z -> Z -> Z -> bool.
Variable recheck : bool.

Definition adjust_size (c : counter) (delta : Z) : counter :=
  let old := c_size c in
  let new := old + delta in
  mkCounter new (c_fd c) (c_size_guard c) (c_fd_guard c) (c_has_fn c)
            (if c_has_fn c && cross old new (c_size_guard c) then true else c_pending c).

Definition adjust_fd (c : counter) (delta : Z) : counter :=
  let old := c_fd c in
  let new := old + delta in
  mkCounter (c_size c) new (c_size_guard c) (c_fd_guard c) (c_has_fn c)
            (if c_has_fn c && cross old new (c_fd_guard c) then true else c_pending c).

(* _dbus_counter_notify: (counter afterwards, is the notify function called) *)
Definition do_notify (c : counter) : counter * bool :=
  if c_pending c
  then (mkCounter (c_size c) (c_fd c) (c_size_guard c) (c_fd_guard c) (c_has_fn c) false, c_has_fn c)
  else (c, false).

(* ---- messages and the transport --------------------------------------------------------------- *)
Record msg := mkMsg {
  m_size : N;    (* size_counter_delta = header length + body length *)
  m_fds : N      (* unix_fd_counter_delta = n_unix_fds *)
}.

Definition add_counter_link (c : counter) (m : msg) : counter :=
  adjust_fd (adjust_size c (Z.of_N (m_size m))) (Z.of_N (m_fds m)).

Definition free_counter_adjust (c : counter) (m : msg) : counter :=
  adjust_fd (adjust_size c (- Z.of_N (m_size m))) (- Z.of_N (m_fds m)).

Record transport := mkT {
  t_counter : counter;     (* live_messages *)
  t_max_size : Z;          (* max_live_messages_size *)
  t_max_fds : Z;           (* max_live_messages_unix_fds *)
  t_live : list msg;       (* the messages charged to live_messages, oldest first *)
  t_watch : bool           (* dbus_watch_get_enabled (read_watch) *)
}.

(* need_read_watch of check_read_watch, authenticated and connected *)
Definition below_limits (t : transport) : bool :=
  (c_size (t_counter t) <? t_max_size t) && (c_fd (t_counter t) <? t_max_fds t).

Definition read_watch_enabled (t : transport) : bool := t_watch t.

(* negation of the test that makes _dbus_transport_get_dispatch_status answer COMPLETE *)
Definition may_queue_more (t : transport) : bool :=
  negb ((t_max_size t <=? c_size (t_counter t)) || (t_max_fds t <=? c_fd (t_counter t))).

Definition check_read_watch (t : transport) : transport :=
  mkT (t_counter t) (t_max_size t) (t_max_fds t) (t_live t) (below_limits t).

Definition transport_init (max_size max_fds : Z) : transport :=
  check_read_watch (mkT (set_notify counter_new max_size max_fds true) max_size max_fds [] false).

Inductive event :=
| Arrive (size nfds : N)
| Release (k : nat)
| Notify
| SetLimits (max_size max_fds : Z).

Fixpoint remove_nth {A} (k : nat) (l : list A) : list A :=
  match l, k with
  | [], _ => []
  | _ :: r, O => r
  | x :: r, S k' => x :: remove_nth k' r
  end.

(* None = the event is impossible (no k-th live message) *)
Definition step (t : transport) (e : event) : option transport :=
  match e with
  | Arrive size nfds =>
      if may_queue_more t
      then let m := mkMsg size nfds in
           Some (check_read_watch (mkT (add_counter_link (t_counter t) m) (t_max_size t) (t_max_fds t)
                                       (t_live t ++ [m]) (t_watch t)))
      else Some t            (* DBUS_DISPATCH_COMPLETE: the message stays in the loader / the socket *)
  | Release k =>
      match nth_error (t_live t) k with
      | None => None
      | Some m => Some (mkT (free_counter_adjust (t_counter t) m) (t_max_size t) (t_max_fds t)
                            (remove_nth k (t_live t)) (t_watch t))
      end
  | Notify =>
      let (c, called) := do_notify (t_counter t) in
      let t' := mkT c (t_max_size t) (t_max_fds t) (t_live t) (t_watch t) in
      Some (if called then check_read_watch t' else t')
  | SetLimits ms mf =>
      let t' := mkT (set_notify (t_counter t) ms mf true) ms mf (t_live t) (t_watch t) in
      Some (if recheck then check_read_watch t' else t')
  end.

Fixpoint run (t : transport) (evs : list event) : option transport :=
  match evs with
  | [] => Some t
  | e :: r => match step t e with None => None | Some t' => run t' r end
  end.

(* the states after each event, for the line driver (stops at the first impossible event) *)
Fixpoint trace (t : transport) (evs : list event) : list (option transport) :=
  match evs with
  | [] => []
  | e :: r => match step t e with
              | None => [None]
              | Some t' => Some t' :: trace t' r
              end
  end.

End WithCross.

(* the faithful machine, the seeded one (crossing test), and the one before d42cc8a (limit setters without check_read_watch) *)
Definition fstep := step crossed true.
Definition frun := run crossed true.
Definition ftrace := trace crossed true.
Definition srun := run crossed_seeded true.
Definition strace := trace crossed_seeded true.
Definition prun := run crossed false.

(* dbus_message_unref of the last reference, in one thread: free_counter = adjusts, then _dbus_counter_notify *)
Definition unref (k : nat) : list event := [Release k; Notify].

Definition is_set_limits (e : event) : bool :=
  match e with SetLimits _ _ => true | _ => false end.
