(* Model of validate_body_helper / _dbus_validate_body_with_reason
   (dbus/dbus-marshal-validate.c).  A cursor carries the absolute position (for
   alignment), the number of bytes left before [end] and the bytes themselves;
   taking a byte that is not there is an explicit [Fault] (a read outside the
   buffer), distinct from every DBusValidity code.  The order of checks and the
   reason codes follow the C text. *)
From DV Require Export Lib.Base Gen.Tables Wire.Names Wire.Sig Wire.Utf8 Spec.SigSpec.
From Coq Require Import ZArith.
Local Open Scope N_scope.

Record cursor := mkCur { cpos : N; crem : N; cdat : bytes }.   (* invariant: crem = length cdat *)

Definition cur_of (pos : N) (d : bytes) : cursor := mkCur pos (nlen d) d.

Definition V_FAULT : Z := (-100)%Z.          (* model-level: read outside the buffer *)
Definition V_OUT_OF_FUEL : Z := (-101)%Z.    (* model-level: recursion fuel exhausted *)
Definition V_MODEL_GAP : Z := (-102)%Z.      (* validated signature that the grammar parser rejects *)

Definition res := (cursor + Z)%type.

Definition align_up (p a : N) : N := if a =? 0 then p else ((p + a - 1) / a) * a.

(* take one byte: Fault when none is left *)
Definition take1 (c : cursor) : option (N * cursor) :=
  match cdat c with
  | [] => None
  | b :: r => Some (b, mkCur (cpos c + 1) (crem c - 1) r)
  end.

(* skip n bytes without looking at them (pointer arithmetic only); caller checks bounds *)
Definition advance (c : cursor) (n : N) : cursor :=
  mkCur (cpos c + n) (crem c - n) (skipn (N.to_nat n) (cdat c)).

(* while (p != a) { if (p[0] != 0) return PADDING_NOT_NUL; ++p; } *)
Fixpoint pad_loop (n : nat) (c : cursor) : res :=
  match n with
  | O => inl c
  | S n' =>
      match take1 c with
      | None => inr V_FAULT
      | Some (b, c') => if b =? 0 then pad_loop n' c' else inr V_INVALID_ALIGNMENT_PADDING_NOT_NUL
      end
  end.

Definition pad_to (c : cursor) (a : N) : res := pad_loop (N.to_nat (a - cpos c)) c.

Definition peek4 (c : cursor) : option (N * N * N * N) :=
  match cdat c with
  | b0 :: b1 :: b2 :: b3 :: _ => Some (b0, b1, b2, b3)
  | _ => None
  end.

Definition unpack32 (le : bool) (q : N * N * N * N) : N :=
  let '(b0, b1, b2, b3) := q in
  if le then b0 + 256 * (b1 + 256 * (b2 + 256 * b3))
  else b3 + 256 * (b2 + 256 * (b1 + 256 * b0)).

Definition ty_alignment (t : ty) : N :=
  match t with
  | TBasic c => type_alignment c
  | TVariant => 1
  | TArray _ => 4
  | TStruct _ => 8
  | TDict _ _ => 8
  end.

Definition ty_is_fixed (t : ty) : bool :=
  match t with TBasic c => type_fixed c | _ => false end.

Definition T_BOOLEAN := DBUS_TYPE_BOOLEAN.

(* bool-array fast path: while (p < array_end) { v = unpack(p); ...; p += 4 } *)
Fixpoint bool_array_loop (fuel : nat) (le : bool) (c : cursor) (array_end : N) : res :=
  match fuel with
  | O => inr V_OUT_OF_FUEL
  | S f =>
      if cpos c <? array_end then
        match peek4 c with
        | None => inr V_FAULT
        | Some q =>
            let v := unpack32 le q in
            if (v =? 0) || (v =? 1) then bool_array_loop f le (advance c 4) array_end
            else inr V_INVALID_BOOLEAN_NOT_ZERO_OR_ONE
        end
      else inl c
  end.

Definition maxdepth : N := DBUS_MAXIMUM_TYPE_RECURSION_DEPTH * 2.

(* length-prefixed header shared by STRING / OBJECT_PATH / ARRAY:
   align to 4, need 4 bytes, padding NUL, read the length *)
Definition read_len32 (le : bool) (c : cursor) : (N * cursor) + Z :=
  let a := align_up (cpos c) 4 in
  if cpos c + crem c <? a + 4 then inr V_INVALID_NOT_ENOUGH_DATA
  else match pad_to c a with
       | inr e => inr e
       | inl c1 =>
           match peek4 c1 with
           | None => inr V_FAULT
           | Some q => inl (unpack32 le q, advance c1 4)
           end
       end.

Section Validate.
  Variable le : bool.

  (* [vb d t depth c]: one value of type t (one iteration of the while loop body) *)
  Fixpoint vb (d : nat) (t : ty) (depth : N) (c : cursor) {struct d} : res :=
    match d with
    | O => inr V_OUT_OF_FUEL
    | S d' =>
        (* Guarantee that p has one byte to look at *)
        if crem c =? 0 then inr V_INVALID_NOT_ENOUGH_DATA else
        let seq :=
          (fix seq (ts : list ty) (depth : N) (c : cursor) {struct ts} : res :=
             match ts with
             | [] => inl c
             | t :: r => match vb d' t depth c with
                         | inr e => inr e
                         | inl c' => seq r depth c'
                         end
             end) in
        match t with
        | TBasic code =>
            if code =? DBUS_TYPE_BYTE then inl (advance c 1)
            else if type_fixed code then
              let al := type_alignment code in
              let a := align_up (cpos c) al in
              if cpos c + crem c <=? a then inr V_INVALID_NOT_ENOUGH_DATA
              else match pad_to c a with
                   | inr e => inr e
                   | inl c1 =>
                       let post (c1 : cursor) : res :=
                         (* p += alignment; if (p > end) NOT_ENOUGH_DATA *)
                         if crem c1 <? al then inr V_INVALID_NOT_ENOUGH_DATA else inl (advance c1 al) in
                       if code =? DBUS_TYPE_BOOLEAN then
                         if crem c1 <? 4 then inr V_INVALID_NOT_ENOUGH_DATA
                         else match peek4 c1 with
                              | None => inr V_FAULT
                              | Some q => let v := unpack32 le q in
                                          if (v =? 0) || (v =? 1) then post c1 else inr V_INVALID_BOOLEAN_NOT_ZERO_OR_ONE
                              end
                       else post c1
                   end
            else if (code =? DBUS_TYPE_STRING) || (code =? DBUS_TYPE_OBJECT_PATH) then
              match read_len32 le c with
              | inr e => inr e
              | inl (len, c2) =>
                  if crem c2 <? len then inr V_INVALID_LENGTH_OUT_OF_BOUNDS
                  else
                    let s := firstn (N.to_nat len) (cdat c2) in
                    let ok := if code =? DBUS_TYPE_OBJECT_PATH then
                                if validate_path s then None else Some V_INVALID_BAD_PATH
                              else match validate_utf8 s with
                                   | Some true => None
                                   | Some false => Some V_INVALID_BAD_UTF8_IN_STRING
                                   | None => Some V_OUT_OF_FUEL
                                   end in
                    match ok with
                    | Some e => inr e
                    | None =>
                        let c3 := advance c2 len in
                        if crem c3 =? 0 then inr V_INVALID_NOT_ENOUGH_DATA
                        else match take1 c3 with
                             | None => inr V_FAULT
                             | Some (b, c4) => if b =? 0 then inl c4 else inr V_INVALID_STRING_MISSING_NUL
                             end
                    end
              end
            else if code =? DBUS_TYPE_SIGNATURE then
              match take1 c with
              | None => inr V_FAULT
              | Some (len, c1) =>
                  if crem c1 <? len + 1 then inr V_INVALID_SIGNATURE_LENGTH_OUT_OF_BOUNDS
                  else
                    let s := firstn (N.to_nat len) (cdat c1) in
                    let v := validate_signature_reason s in
                    if negb (Z.eqb v V_VALID) then inr v
                    else match take1 (advance c1 len) with
                         | None => inr V_FAULT
                         | Some (b, c2) => if b =? 0 then inl c2 else inr V_INVALID_SIGNATURE_MISSING_NUL
                         end
              end
            else inr V_MODEL_GAP
        | TArray et =>
            match read_len32 le c with
            | inr e => inr e
            | inl (len, c2) =>
                let al := ty_alignment et in
                let a := align_up (cpos c2) al in
                if cpos c2 + crem c2 <? a then inr V_INVALID_NOT_ENOUGH_DATA
                else match pad_to c2 a with
                     | inr e => inr e
                     | inl c3 =>
                         if crem c3 <? len then inr V_INVALID_LENGTH_OUT_OF_BOUNDS
                         else if len =? 0 then inl c3
                         else if DBUS_MAXIMUM_ARRAY_LENGTH <? len then inr V_INVALID_ARRAY_LENGTH_EXCEEDS_MAXIMUM
                         else
                           let array_end := cpos c3 + len in
                           let r : res :=
                             if ty_is_fixed et then
                               (* length of an array of fixed-size elements must be a multiple of the element size *)
                               if negb (len mod al =? 0) then inr V_INVALID_ARRAY_LENGTH_INCORRECT else
                               match et with
                               | TBasic code =>
                                   if code =? DBUS_TYPE_BOOLEAN then bool_array_loop (S (N.to_nat len)) le c3 array_end
                                   else inl (advance c3 len)
                               | _ => inl (advance c3 len)
                               end
                             else
                               (fix elems (n : nat) (c : cursor) {struct n} : res :=
                                  match n with
                                  | O => inr V_OUT_OF_FUEL
                                  | S n' =>
                                      if cpos c <? array_end then
                                        (* recursive validate_body_helper call: depth check at its entry *)
                                        if maxdepth <? depth + 1 then inr V_INVALID_NESTED_TOO_DEEPLY
                                        else match vb d' et (depth + 1) c with
                                             | inr e => inr e
                                             | inl c' => elems n' c'
                                             end
                                      else inl c
                                  end) (S (N.to_nat len)) c3 in
                           match r with
                           | inr e => inr e
                           | inl c4 => if cpos c4 =? array_end then inl c4 else inr V_INVALID_ARRAY_LENGTH_INCORRECT
                           end
                     end
            end
        | TVariant =>
            match take1 c with
            | None => inr V_FAULT
            | Some (len, c1) =>
                if crem c1 <? len + 1 then inr V_INVALID_VARIANT_SIGNATURE_LENGTH_OUT_OF_BOUNDS
                else
                  let s := firstn (N.to_nat len) (cdat c1) in
                  if negb (Z.eqb (validate_signature_reason s) V_VALID) then inr V_INVALID_VARIANT_SIGNATURE_BAD
                  else match take1 (advance c1 len) with
                       | None => inr V_FAULT
                       | Some (b, c2) =>
                           if negb (b =? 0) then inr V_INVALID_VARIANT_SIGNATURE_MISSING_NUL
                           else match parse_sig s with
                                | None => inr V_MODEL_GAP
                                | Some [] => inr V_INVALID_VARIANT_SIGNATURE_EMPTY
                                | Some (ct :: more) =>
                                    let a := align_up (cpos c2) (ty_alignment ct) in
                                    if cpos c2 + crem c2 <? a then inr V_INVALID_NOT_ENOUGH_DATA
                                    else match pad_to c2 a with
                                         | inr e => inr e
                                         | inl c3 =>
                                             if maxdepth <? depth + 1 then inr V_INVALID_NESTED_TOO_DEEPLY
                                             else match vb d' ct (depth + 1) c3 with
                                                  | inr e => inr e
                                                  | inl c4 =>
                                                      match more with
                                                      | [] => inl c4
                                                      | _ => inr V_INVALID_VARIANT_SIGNATURE_SPECIFIES_MULTIPLE_VALUES
                                                      end
                                                  end
                                         end
                                end
                       end
            end
        | TStruct ts =>
            let a := align_up (cpos c) 8 in
            if cpos c + crem c <? a then inr V_INVALID_NOT_ENOUGH_DATA
            else match pad_to c a with
                 | inr e => inr e
                 | inl c1 => if maxdepth <? depth + 1 then inr V_INVALID_NESTED_TOO_DEEPLY else seq ts (depth + 1) c1
                 end
        | TDict k v =>
            let a := align_up (cpos c) 8 in
            if cpos c + crem c <? a then inr V_INVALID_NOT_ENOUGH_DATA
            else match pad_to c a with
                 | inr e => inr e
                 | inl c1 => if maxdepth <? depth + 1 then inr V_INVALID_NESTED_TOO_DEEPLY else seq [TBasic k; v] (depth + 1) c1
                 end
        end
    end.

  Definition DEPTH_FUEL : nat := 80.

  Fixpoint vb_seq (ts : list ty) (depth : N) (c : cursor) : res :=
    match ts with
    | [] => inl c
    | t :: r => match vb DEPTH_FUEL t depth c with
                | inr e => inr e
                | inl c' => vb_seq r depth c'
                end
    end.
End Validate.

(* _dbus_validate_body_with_reason with bytes_remaining = NULL (exact length) *)
Definition validate_body (le : bool) (ts : list ty) (body : bytes) : Z :=
  match vb_seq le ts 0 (cur_of 0 body) with
  | inr e => e
  | inl c => if 0 <? crem c then V_INVALID_TOO_MUCH_DATA else V_VALID
  end.

(* ... with bytes_remaining != NULL: returns the cursor after the values *)
Definition validate_body_prefix (le : bool) (ts : list ty) (data : bytes) : res :=
  vb_seq le ts 0 (cur_of 0 data).
