(* Models of the scanners in dbus/dbus-marshal-validate.c:
     _dbus_validate_path / _interface / _member / _error_name / _bus_name(_full)
   written after the C control flow ("validate the next character and skip
   two"), with the character classes and length limits taken from the
   GENERATED tables.  Model only: no proofs here, so it still runs when a proof
   breaks. *)
From DV Require Export Lib.Base Gen.Tables.
Local Open Scope N_scope.

Definition valid_initial_name_character := tbl tbl_valid_initial_name_character.
Definition valid_name_character := tbl tbl_valid_name_character.
Definition valid_initial_bus_name_character := tbl tbl_valid_initial_bus_name_character.
Definition valid_bus_name_character := tbl tbl_valid_bus_name_character.

Definition DOT : N := 46.
Definition SLASH : N := 47.
Definition COLON : N := 58.

(* --- _dbus_validate_path ------------------------------------------------ *)
(* [since] = s - last_slash at the top of the loop body; [len] is the argument. *)
Fixpoint path_loop (s : bytes) (since : N) (len : N) : bool :=
  match s with
  | [] => negb ((since <? 2) && (1 <? len))   (* trailing slash only for "/" *)
  | c :: rest =>
      if c =? SLASH then
        if since <? 2 then false else path_loop rest 1 len
      else if valid_name_character c then path_loop rest (since + 1) len
      else false
  end.

Definition validate_path (s : bytes) : bool :=
  match s with
  | [] => false
  | c :: rest => if c =? SLASH then path_loop rest 1 (nlen s) else false
  end.

(* --- generic dotted-name loop (interface, well-known bus name) ----------- *)
Section Dotted.
  Variable initial_ok : N -> bool.
  Variable char_ok : N -> bool.

  Fixpoint dotted_loop (s : bytes) (seen_dot : bool) : bool :=
    match s with
    | [] => seen_dot
    | c :: rest =>
        if c =? DOT then
          match rest with
          | [] => false
          | d :: rest' => if initial_ok d then dotted_loop rest' true else false
          end
        else if char_ok c then dotted_loop rest seen_dot
        else false
    end.
End Dotted.

Definition validate_interface (s : bytes) : bool :=
  if DBUS_MAXIMUM_NAME_LENGTH <? nlen s then false else
  match s with
  | [] => false
  | c :: rest =>
      if c =? DOT then false
      else if negb (valid_initial_name_character c) then false
      else dotted_loop valid_initial_name_character valid_name_character rest false
  end.

Definition validate_error_name := validate_interface.

Definition validate_member (s : bytes) : bool :=
  if DBUS_MAXIMUM_NAME_LENGTH <? nlen s then false else
  match s with
  | [] => false
  | c :: rest =>
      if negb (valid_initial_name_character c) then false
      else forallb valid_name_character rest
  end.

(* unique-name branch of _dbus_validate_bus_name_full: the loop after ':' *)
Definition unique_loop (s : bytes) : bool :=
  dotted_loop valid_bus_name_character valid_bus_name_character s true.

Definition validate_bus_name_full (s : bytes) (is_namespace : bool) : bool :=
  if DBUS_MAXIMUM_NAME_LENGTH <? nlen s then false else
  match s with
  | [] => false
  | c :: rest =>
      if c =? COLON then unique_loop rest
      else if c =? DOT then false
      else if negb (valid_initial_bus_name_character c) then false
      else dotted_loop valid_initial_bus_name_character valid_bus_name_character rest is_namespace
  end.

Definition validate_bus_name (s : bytes) := validate_bus_name_full s false.
Definition validate_bus_namespace (s : bytes) := validate_bus_name_full s true.
