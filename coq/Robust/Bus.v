(* C10 — model of the bus's reaction to what its system calls return on client
   sockets: accept() gave a new connection, read() gave bytes, read() gave EOF,
   time passed.  It composes the message loader (Wire/Message.v) with

     - the per-connection phases of the socket transport
       (dbus/dbus-transport-socket.c: exchange_credentials / do_authentication /
       do_reading; dbus/dbus-transport.c: _dbus_transport_get_dispatch_status,
       _dbus_transport_queue_messages: corruption => _dbus_transport_disconnect);
     - the bus's connection table (bus/connection.c: bus_connections_setup_connection,
       bus_connections_expire_incomplete, bus_connection_complete,
       bus_connection_disconnected) and the accept gate
       (bus/bus.c: bus_context_check_all_watches);
     - an ABSTRACT handshake automaton and an ABSTRACT bus core ([ops]): what the
       bus does with a handshake line or with a loaded message is a parameter.
       Robust/Mini.v instantiates it (C08's SASL server model, and the first-level
       control flow of bus_dispatch).

   The unit of interleaving is one system-call result; all messages completed by
   one read are dispatched before the next event (that is what _dbus_loop_dispatch
   does: `while (dbus_connection_dispatch (c) == DATA_REMAINS);` per connection).
   Every schedule of the real main loop is a sequence of such events, with the
   chunks being whatever read() returned. *)
From DV Require Export Wire.Message.
Local Open Scope N_scope.

(* result of giving bytes to the handshake automaton (_dbus_auth_do_work as seen by
   do_authentication): keep waiting / disconnect / authenticated with the bytes that
   followed BEGIN (_dbus_auth_get_unused_bytes) *)
Inductive averdict := AWait | AFail | ADone (unused : bytes).

(* what bus_dispatch did to the SENDING connection, besides producing output *)
Inductive verdict :=
| VNone
| VComplete     (* bus_connection_complete: Hello accepted, the connection is now "active" *)
| VClose.       (* dbus_connection_close (connection) *)

Record ops (A S O : Type) : Type := mkOps {
  o_auth_init : A;                                                       (* _dbus_auth_server_new *)
  o_auth_feed : A -> bytes -> A * bytes * averdict;                      (* bytes read -> (state, bytes written back, verdict) *)
  o_dispatch : S -> N -> bool -> message -> S * list (N * O) * verdict;  (* bus_dispatch (sender, sender active?, message) *)
  o_disconnect : S -> N -> bool -> S * list (N * O);                     (* bus_connection_disconnected (connection, was active?) *)
  o_tick : S -> N -> S * list (N * O)                                    (* d ms have passed: the core's own timers (activation outcomes) *)
}.
Arguments o_auth_init {A S O}.
Arguments o_auth_feed {A S O}.
Arguments o_dispatch {A S O}.
Arguments o_disconnect {A S O}.
Arguments o_tick {A S O}.

Inductive phase (A : Type) :=
| PCred                 (* the credentials byte has not been read (exchange_credentials) *)
| PAuth (a : A)         (* handshake in progress (do_authentication) *)
| PMsg.                 (* authenticated: bytes go to the message loader (do_reading) *)
Arguments PCred {A}.
Arguments PAuth {A}.
Arguments PMsg {A}.

Record conn (A : Type) := mkConn {
  c_id : N;
  c_since : N;            (* BusConnectionData.connection_tv_sec/usec, in ms *)
  c_phase : phase A;
  c_loader : loader;      (* DBusTransport.loader (its queue is emptied by every step) *)
  c_active : bool         (* moved from BusConnections.incomplete to .completed *)
}.
Arguments mkConn {A}.
Arguments c_id {A}.
Arguments c_since {A}.
Arguments c_phase {A}.
Arguments c_loader {A}.
Arguments c_active {A}.

Record cfg := mkCfg {
  max_incomplete : N;     (* <limit name="max_incomplete_connections"> *)
  auth_timeout : N;       (* <limit name="auth_timeout">, ms *)
  max_message_size : N    (* <limit name="max_message_size">: dbus_connection_set_max_message_size *)
}.

(* [s_conns] is in accept order.  Its inactive members, in that order, are the C list
   BusConnections.incomplete (append on accept, unlink on completion/disconnect). *)
Record state (A S : Type) := mkSt {
  s_now : N;
  s_conns : list (conn A);
  s_core : S
}.
Arguments mkSt {A S}.
Arguments s_now {A S}.
Arguments s_conns {A S}.
Arguments s_core {A S}.

Inductive event :=
| EAccept (c : N)               (* accept() on the listening socket returned connection c *)
| ERead (c : N) (d : bytes) (wok : bool)
                                (* read() on c returned d; [wok]: a write() to c attempted while this
                                   event is handled succeeds (false = EPIPE: the peer is already gone) *)
| EEof (c : N)                  (* read() on c returned 0 / an error: do_io_error *)
| ETick (d : N).                (* d ms pass; the expiry timer and the core's timers run *)

Inductive out (O : Type) :=
| OAuth (c : N) (reply : bytes)   (* handshake bytes written to c *)
| OCore (o : N * O)               (* output of the bus core: (recipient, what) *)
| OGone (c : N)                   (* the bus dropped c and closed its socket *)
| ORefused (c : N).               (* the event was not enabled: listening watch disabled, or id in use *)
Arguments OAuth {O}.
Arguments OCore {O}.
Arguments OGone {O}.
Arguments ORefused {O}.

Section Bus.
  Context {A S O : Type}.
  Variable P : ops A S O.
  Variable cf : cfg.

  Definition find_conn (l : list (conn A)) (c : N) : option (conn A) := find (fun x => c_id x =? c) l.
  Definition remove_conn (l : list (conn A)) (c : N) : list (conn A) := filter (fun x => negb (c_id x =? c)) l.
  Fixpoint update_conn (l : list (conn A)) (x : conn A) : list (conn A) :=
    match l with
    | [] => []
    | y :: r => if c_id y =? c_id x then x :: r else y :: update_conn r x
    end.

  Definition incomplete (l : list (conn A)) : list (conn A) := filter (fun x => negb (c_active x)) l.
  Definition n_incomplete (st : state A S) : N := nlen (incomplete (s_conns st)).

  (* bus_context_check_all_watches: the listening sockets are watched iff this holds *)
  Definition accept_enabled (st : state A S) : bool := n_incomplete st <? max_incomplete cf.

  (* the loader of a fresh connection, with the configured maximum message size *)
  Definition loader_for : loader := mkLoader [] false V_VALID [] 0 (max_message_size cf).

  (* bus_connection_disconnected (dispatch of the Local.Disconnected message) *)
  Definition drop (st : state A S) (x : conn A) : state A S * list (out O) :=
    let '(k, o) := o_disconnect P (s_core st) (c_id x) (c_active x) in
    (mkSt (s_now st) (remove_conn (s_conns st) (c_id x)) k, map OCore o ++ [OGone (c_id x)]).

  (* dbus_connection_dispatch until the incoming queue is empty.  A message that makes
     the bus close the sender does not stop the loop: the messages already queued
     are still dispatched (n_incoming > 0 => DBUS_DISPATCH_DATA_REMAINS). *)
  Fixpoint dispatch_all (k : S) (c : N) (active : bool) (ms : list message) : S * list (N * O) * bool * bool :=
    match ms with
    | [] => (k, [], active, false)
    | m :: r =>
        let '(k1, o1, v) := o_dispatch P k c active m in
        let active1 := match v with VComplete => true | _ => active end in
        let '(k2, o2, active2, close2) := dispatch_all k1 c active1 r in
        (k2, o1 ++ o2, active2, match v with VClose => true | _ => close2 end)
    end.

  (* do_reading + _dbus_transport_queue_messages + dispatch, for an authenticated connection *)
  Definition msg_part (st : state A S) (x : conn A) (d : bytes) : state A S * list (out O) :=
    let l1 := feed (c_loader x) d 0 in
    let '(k, o, active, close) := dispatch_all (s_core st) (c_id x) (c_active x) (l_msgs l1) in
    let l2 := mkLoader (l_buf l1) (l_corrupted l1) (l_reason l1) [] (l_fds l1) (l_max l1) in
    let x' := mkConn (c_id x) (c_since x) PMsg l2 active in
    let st' := mkSt (s_now st) (update_conn (s_conns st) x') k in
    if l_corrupted l1 || close
    then let '(st'', o') := drop st' x' in (st'', map OCore o ++ o')
    else (st', map OCore o).

  (* do_authentication: read_data_into_auth, _dbus_auth_do_work, write_data_from_auth
     (a failed write is do_io_error: the connection is dropped before anything else happens) *)
  Definition auth_part (st : state A S) (x : conn A) (a : A) (d : bytes) (wok : bool) : state A S * list (out O) :=
    let '(a', reply, v) := o_auth_feed P a d in
    let ro := match reply with [] => [] | _ => [OAuth (c_id x) reply] end in
    if negb wok && negb (match reply with [] => true | _ => false end) then drop st x else
    match v with
    | AWait =>
        (mkSt (s_now st) (update_conn (s_conns st) (mkConn (c_id x) (c_since x) (PAuth a') (c_loader x) (c_active x))) (s_core st), ro)
    | AFail => let '(st', o) := drop st x in (st', ro ++ o)
    | ADone unused =>
        (* recover_unused_bytes, then the loader and the dispatcher run as after a read *)
        let '(st', o) := msg_part st (mkConn (c_id x) (c_since x) PMsg (c_loader x) (c_active x)) unused in
        (st', ro ++ o)
    end.

  Definition read (st : state A S) (c : N) (d : bytes) (wok : bool) : state A S * list (out O) :=
    match find_conn (s_conns st) c with
    | None => (st, [])
    | Some x =>
        match c_phase x with
        | PCred =>
            (* _dbus_read_credentials_socket reads exactly one byte, which must be NUL *)
            match d with
            | [] => (st, [])
            | b :: rest => if b =? 0 then auth_part st x (o_auth_init P) rest wok
                           else drop st x
            end
        | PAuth a => auth_part st x a d wok
        | PMsg => msg_part st x d
        end
    end.

  (* bus_connections_expire_incomplete: walk the incomplete list oldest first, close
     what has been there for auth_timeout or longer, stop at the first younger one *)
  Fixpoint expire_list (now : N) (l : list (conn A)) (k : S) : list (conn A) * S * list (out O) :=
    match l with
    | [] => ([], k, [])
    | x :: r =>
        if c_active x then
          let '(kept, k', o) := expire_list now r k in (x :: kept, k', o)
        else if auth_timeout cf <=? now - c_since x then
          let '(k1, o1) := o_disconnect P k (c_id x) false in
          let '(kept, k2, o2) := expire_list now r k1 in
          (kept, k2, map OCore o1 ++ OGone (c_id x) :: o2)
        else (x :: r, k, [])
    end.

  Definition expire (st : state A S) : state A S * list (out O) :=
    let '(kept, k, o) := expire_list (s_now st) (s_conns st) (s_core st) in
    (mkSt (s_now st) kept k, o).

  (* new_connection_callback -> bus_connections_setup_connection *)
  Definition accept (st : state A S) (c : N) : state A S * list (out O) :=
    if negb (accept_enabled st) then (st, [ORefused c])
    else match find_conn (s_conns st) c with
         | Some _ => (st, [ORefused c])
         | None =>
             expire (mkSt (s_now st) (s_conns st ++ [mkConn c (s_now st) PCred loader_for false]) (s_core st))
         end.

  Definition step (st : state A S) (e : event) : state A S * list (out O) :=
    match e with
    | EAccept c => accept st c
    | ERead c d wok => read st c d wok
    | EEof c => match find_conn (s_conns st) c with
                | None => (st, [])
                | Some x => drop st x
                end
    | ETick d =>
        let '(st1, o1) := expire (mkSt (s_now st + d) (s_conns st) (s_core st)) in
        let '(k, o2) := o_tick P (s_core st1) d in
        (mkSt (s_now st1) (s_conns st1) k, o1 ++ map OCore o2)
    end.

  Fixpoint run (st : state A S) (h : list event) : state A S * list (out O) :=
    match h with
    | [] => (st, [])
    | e :: r => let '(st1, o1) := step st e in
                let '(st2, o2) := run st1 r in
                (st2, o1 ++ o2)
    end.

  (* the same, keeping the outputs of each event apart (for the correspondence run) *)
  Fixpoint run_steps (st : state A S) (h : list event) : state A S * list (list (out O)) :=
    match h with
    | [] => (st, [])
    | e :: r => let '(st1, o1) := step st e in
                let '(st2, o2) := run_steps st1 r in
                (st2, o1 :: o2)
    end.
End Bus.

Definition init {A S : Type} (k : S) : state A S := mkSt 0 [] k.
