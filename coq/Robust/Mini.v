(* C10 — the concrete instance of Robust/Bus.v that is extracted and run against
   the daemon.

   Handshake: the SASL server model of package auth (C08), driven the way
   do_authentication (dbus/dbus-transport-socket.c) drives DBusAuth: bytes read are
   appended and _dbus_auth_do_work runs; what is in the outgoing buffer is written
   (assumed to fit the socket buffer) and _dbus_auth_bytes_sent + do_work run again.

   Core: the first level of bus_dispatch (bus/dispatch.c) as far as it decides
   (a) whether the message is shown to monitors (bus_transaction_capture),
   (b) whether the sender becomes active (Hello accepted by bus_driver_handle_hello),
   (c) whether the sender is closed (inactive connection talking to someone else
       than the driver).
   Routing, replies and errors are other packages' business (C03-C09); here the
   output is what a monitor is shown OF THE SENDER'S OWN MESSAGE, plus the
   NameOwnerChanged that announces the sender's arrival / departure. *)
From DV Require Import Lib.Base Gen.Tables Wire.Message Auth.Types Gen.AuthTables Auth.Server Robust.Bus Robust.Env.
Local Open Scope N_scope.

(* ---- header accessors (dbus_message_get_type / _destination / ...) ---------- *)
Definition msg_le (m : message) : bool := byte_at (m_header m) 0 =? DBUS_LITTLE_ENDIAN.
Definition msg_type (m : message) : N := byte_at (m_header m) 1.
Definition str_field (m : message) (code : N) : option bytes :=
  match field_value code (m_fields m) with
  | Some f => Some (str_payload (msg_le m) (f_val f))
  | None => None
  end.
Definition msg_signature (m : message) : bytes :=
  match field_value DBUS_HEADER_FIELD_SIGNATURE (m_fields m) with
  | Some f => sig_payload (f_val f)
  | None => []
  end.
Definition msg_raw (m : message) : bytes := m_header m ++ m_body m.

Definition S_Hello : bytes := [72; 101; 108; 108; 111].

Definition opt_is (o : option bytes) (s : bytes) : bool :=
  match o with Some x => bytes_eqb x s | None => false end.
Definition opt_is_or_none (o : option bytes) (s : bytes) : bool :=
  match o with Some x => bytes_eqb x s | None => true end.

(* dbus_message_is_method_call (message, DBUS_INTERFACE_DBUS, "Hello") *)
Definition is_hello (m : message) : bool :=
  (msg_type m =? DBUS_MESSAGE_TYPE_METHOD_CALL)
  && opt_is (str_field m DBUS_HEADER_FIELD_MEMBER) S_Hello
  && opt_is_or_none (str_field m DBUS_HEADER_FIELD_INTERFACE) DBUS_INTERFACE_DBUS_str.

Inductive mout :=
| Seen (from : N) (raw : bytes)    (* bus_transaction_capture: the sender's message as sent *)
| Hi (c : N)                       (* NameOwnerChanged ("" -> c's unique name) *)
| Bye (c : N).                     (* NameOwnerChanged (c's unique name -> "") *)

Definition MON : N := 0.            (* recipient "every monitor" *)

(* bus_dispatch *)
Definition mini_dispatch (k : unit) (c : N) (active : bool) (m : message) : unit * list (N * mout) * verdict :=
  let seen := (MON, Seen c (msg_raw m)) in
  match str_field m DBUS_HEADER_FIELD_DESTINATION with
  | None =>
      if msg_type m =? DBUS_MESSAGE_TYPE_SIGNAL
      then (k, [seen], if active then VNone else VClose)
      else (k, [], VNone)                      (* DBUS_HANDLER_RESULT_NOT_YET_HANDLED: libdbus answers, no capture *)
  | Some d =>
      if bytes_eqb d DBUS_SERVICE_DBUS_str then
        if active then (k, [seen], VNone)       (* the driver answers (a second Hello gets an error) *)
        else if is_hello m then
          (* bus_context_check_security_policy lets it through; bus_driver_handle_message:
             Hello is found at any path, in_args "" must equal the signature *)
          if bytes_eqb (msg_signature m) [] then (k, [seen; (MON, Hi c)], VComplete)
          else (k, [seen], VNone)               (* InvalidArgs *)
        else (k, [seen], VNone)                 (* AccessDenied: "other than Hello without being registered" *)
      else if active then (k, [seen], VNone)    (* routed (or an error is returned): not modelled here *)
      else (k, [seen], VClose)                  (* "clients must talk to bus driver first" *)
  end.

(* bus_connection_disconnected *)
Definition mini_disconnect (k : unit) (c : N) (active : bool) : unit * list (N * mout) :=
  (k, if active then [(MON, Bye c)] else []).

(* ---- handshake ---------------------------------------------------------------- *)
Definition S_EXTERNAL : bytes := [69; 88; 84; 69; 82; 78; 65; 76].

(* the daemon of the correspondence run: <auth>EXTERNAL</auth>, runs as [uid], every
   client is a local process of the same uid; GUID left empty (the check strips it) *)
Definition mini_env (uid : N) : env :=
  mkEnv (mkCreds (Some uid) (Some 1) None) (Some [S_EXTERNAL]) [] true true uid
        (fun _ => None) default_context false (fun _ => None) (fun _ => []) (fun _ => None).

Definition mini_auth_feed (uid : N) (a : auth) (d : bytes) : auth * bytes * averdict :=
  match Server.step (mini_env uid) a (Server.Feed d) with
  | None => (a, [], AFail)
  | Some a1 =>
      let reply := a_outgoing a1 in
      match Server.step (mini_env uid) a1 (Server.Sent (nlen reply)) with
      | None => (a1, reply, AFail)
      | Some a2 =>
          (a2, reply,
           match work_result a2 with
           | W_Authenticated => ADone (a_incoming a2)
           | W_NeedDisconnect | W_Aborted => AFail
           | W_WaitingForInput | W_HaveBytesToSend => AWait
           end)
      end
  end.

Definition mini_ops (uid : N) : ops auth unit mout :=
  mkOps auth unit mout auth_init (mini_auth_feed uid) mini_dispatch mini_disconnect.

Definition mini_init : state auth unit := init tt.

(* what the OCaml driver calls: per-event outputs of a history *)
Definition mini_run (uid : N) (cf : cfg) (h : list Bus.event) : list (list (out mout)) :=
  snd (run_steps (mini_ops uid) cf mini_init h).

(* the same through the environment of Robust/Env.v (client-side script in, scheduled
   bus-side events with their outputs out) *)
Definition mini_env_run (uid : N) (cf : cfg) (h : list cevent) : list (list (Bus.event * list (out mout))) :=
  snd (env_run (mini_ops uid) cf (mkE mini_init []) h).
