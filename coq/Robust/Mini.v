(* C10 — the concrete instance of Robust/Bus.v that is extracted and run against
   the daemon.

   Handshake: the SASL server model of package auth (C08), driven the way
   do_authentication (dbus/dbus-transport-socket.c) drives DBusAuth: bytes read are
   appended and _dbus_auth_do_work runs; what is in the outgoing buffer is written
   (assumed to fit the socket buffer) and _dbus_auth_bytes_sent + do_work run again.

   Core: the first level of bus_dispatch (bus/dispatch.c) as far as it decides
   (a) whether the message is shown to monitors (bus_transaction_capture),
   (b) whether the sender becomes active (Hello accepted by bus_driver_handle_hello),
   (c) whether the sender is closed (inactive connection talking to someone else
       than the driver).
   Routing, replies and errors are other packages' business (C03-C09); here the
   output is what a monitor is shown OF THE SENDER'S OWN MESSAGE, plus the
   NameOwnerChanged that announces the sender's arrival / departure. *)
From DV Require Import Lib.Base Gen.Tables Wire.Message Auth.Types Gen.AuthTables Auth.Server Robust.Bus Robust.Env.
Local Open Scope N_scope.

(* ---- header accessors (dbus_message_get_type / _destination / ...) ---------- *)
Definition msg_le (m : message) : bool := byte_at (m_header m) 0 =? DBUS_LITTLE_ENDIAN.
Definition msg_type (m : message) : N := byte_at (m_header m) 1.
Definition str_field (m : message) (code : N) : option bytes :=
  match field_value code (m_fields m) with
  | Some f => Some (str_payload (msg_le m) (f_val f))
  | None => None
  end.
Definition msg_signature (m : message) : bytes :=
  match field_value DBUS_HEADER_FIELD_SIGNATURE (m_fields m) with
  | Some f => sig_payload (f_val f)
  | None => []
  end.
Definition msg_raw (m : message) : bytes := m_header m ++ m_body m.

Definition S_Hello : bytes := [72; 101; 108; 108; 111].

Definition opt_is (o : option bytes) (s : bytes) : bool :=
  match o with Some x => bytes_eqb x s | None => false end.
Definition opt_is_or_none (o : option bytes) (s : bytes) : bool :=
  match o with Some x => bytes_eqb x s | None => true end.

(* dbus_message_is_method_call (message, DBUS_INTERFACE_DBUS, "Hello") *)
Definition is_hello (m : message) : bool :=
  (msg_type m =? DBUS_MESSAGE_TYPE_METHOD_CALL)
  && opt_is (str_field m DBUS_HEADER_FIELD_MEMBER) S_Hello
  && opt_is_or_none (str_field m DBUS_HEADER_FIELD_INTERFACE) DBUS_INTERFACE_DBUS_str.

Definition msg_flags (m : message) : N := byte_at (m_header m) 2.
Definition msg_serial (m : message) : N := u32_at (msg_le m) (m_header m) 8.
Definition msg_reply_serial (m : message) : option N :=
  match field_value DBUS_HEADER_FIELD_REPLY_SERIAL (m_fields m) with
  | Some f => Some (u32_at (msg_le m) (f_val f) 0)
  | None => None
  end.

Definition S_RequestName : bytes := [82; 101; 113; 117; 101; 115; 116; 78; 97; 109; 101].
Definition S_BecomeMonitor : bytes := [66; 101; 99; 111; 109; 101; 77; 111; 110; 105; 116; 111; 114].
Definition S_Monitoring : bytes :=        (* org.freedesktop.DBus.Monitoring *)
  DBUS_INTERFACE_DBUS_str ++ [46; 77; 111; 110; 105; 116; 111; 114; 105; 110; 103].
Definition S_su : bytes := [115; 117].
Definition S_asu : bytes := [97; 115; 117].
Definition S_unique_prefix : bytes := [58; 49; 46].     (* ":1." *)

Inductive mout :=
| Seen (from : N) (raw : bytes)          (* bus_transaction_capture: the sender's message as sent *)
| Hi (c : N)                             (* NameOwnerChanged ("" -> c's unique name) *)
| Bye (c : N)                            (* NameOwnerChanged (c's unique name -> "") *)
| Noc (name : bytes) (old new : N)       (* NameOwnerChanged of a well-known name; 0 = nobody *)
| NoReply (to : N) (serial : N).         (* error NoReply sent to the caller of a pending call whose callee went away *)

Definition MON : N := 0.            (* recipient "every monitor"; connection ids of the run start at 1 *)

(* state of the core: what bus_connection_disconnected / free_connection_data have to clean up.
   - uniq: the number in the unique name ":1.<n>" of every registered connection (next_major/minor counter of bus/driver.c);
   - names: owner queues of well-known names (first = primary owner), acq: BusConnectionData.services_owned
     (every queue entry, in the order it was made);
   - pend: BusConnections.pending_replies as (caller, callee, serial);
   - mons: BusConnections.monitors *)
Record mstate := mkM {
  m_next : N;
  m_uniq : list (N * N);
  m_names : list (bytes * list N);
  m_acq : list (N * bytes);
  m_pend : list (N * N * N);
  m_mons : list N
}.

Definition mem (c : N) (l : list N) : bool := existsb (N.eqb c) l.
Definition unique_name (n : N) : bytes := S_unique_prefix ++ dec_of_N n.

(* bus_registry_lookup + primary owner; a unique name resolves to its registered, non-monitor connection *)
Definition resolve (k : mstate) (d : bytes) : option N :=
  match find (fun p => bytes_eqb d (unique_name (snd p))) (m_uniq k) with
  | Some (c, _) => if mem c (m_mons k) then None else Some c
  | None =>
      match find (fun p => bytes_eqb d (fst p)) (m_names k) with
      | Some (_, c :: _) => Some c
      | _ => None
      end
  end.

Definition canonical (m : message) : bool := opt_is (str_field m DBUS_HEADER_FIELD_PATH) DBUS_PATH_DBUS_str.

(* RequestName (s name, u flags) at the canonical path *)
Definition is_request_name (m : message) : bool :=
  (msg_type m =? DBUS_MESSAGE_TYPE_METHOD_CALL) && canonical m
  && opt_is (str_field m DBUS_HEADER_FIELD_MEMBER) S_RequestName
  && opt_is_or_none (str_field m DBUS_HEADER_FIELD_INTERFACE) DBUS_INTERFACE_DBUS_str
  && bytes_eqb (msg_signature m) S_su.
Definition rn_name (m : message) : bytes := str_payload (msg_le m) (m_body m).
Definition rn_flags (m : message) : N :=
  u32_at (msg_le m) (m_body m) (N.to_nat (align_up (4 + u32_at (msg_le m) (m_body m) 0 + 1) 4)).

(* BecomeMonitor ([], 0) at the canonical path (caller is privileged: same uid as the bus) *)
Definition is_become_monitor (m : message) : bool :=
  (msg_type m =? DBUS_MESSAGE_TYPE_METHOD_CALL) && canonical m
  && opt_is (str_field m DBUS_HEADER_FIELD_MEMBER) S_BecomeMonitor
  && opt_is_or_none (str_field m DBUS_HEADER_FIELD_INTERFACE) S_Monitoring
  && bytes_eqb (msg_signature m) S_asu
  && bytes_eqb (m_body m) [0; 0; 0; 0; 0; 0; 0; 0].

(* bus_registry_acquire_service, restricted to flags 0 / DO_NOT_QUEUE on names nobody may replace
   (ALLOW_REPLACEMENT / REPLACE_EXISTING are C04's subject and are not generated here) *)
Fixpoint acquire (names : list (bytes * list N)) (name : bytes) (c : N) (dnq : bool) : list (bytes * list N) * bool * bool :=
  (* (new table, c joined a queue, c became primary owner) *)
  match names with
  | [] => ([(name, [c])], true, true)
  | (n, q) :: r =>
      if bytes_eqb n name then
        match q with
        | [] => ((n, [c]) :: r, true, true)
        | _ => if mem c q || dnq then ((n, q) :: r, false, false) else ((n, q ++ [c]) :: r, true, false)
        end
      else let '(r', j, o) := acquire r name c dnq in ((n, q) :: r', j, o)
  end.

(* bus_service_remove_owner for every entry of services_owned, last first *)
Fixpoint release_names (names : list (bytes * list N)) (c : N) (owned_rev : list bytes) : list (bytes * list N) * list (N * mout) :=
  match owned_rev with
  | [] => (names, [])
  | name :: r =>
      let step :=
        (fix go (l : list (bytes * list N)) : list (bytes * list N) * list (N * mout) :=
           match l with
           | [] => ([], [])
           | (n, q) :: t =>
               if bytes_eqb n name then
                 match q with
                 | h :: q' =>
                     if h =? c then
                       match q' with
                       | [] => (t, [(MON, Noc n c 0)])                  (* the name disappears *)
                       | h' :: _ => ((n, q') :: t, [(MON, Noc n c h')])  (* the next in the queue takes over *)
                       end
                     else ((n, filter (fun x => negb (x =? c)) q) :: t, [])   (* a waiting entry is dropped silently *)
                 | [] => ((n, q) :: t, [])
                 end
               else let '(t', o) := go t in ((n, q) :: t', o)
           end) in
      let '(names1, o1) := step names in
      let '(names2, o2) := release_names names1 c r in
      (names2, o1 ++ o2)
  end.

Definition owned_rev (k : mstate) (c : N) : list bytes := rev (map snd (filter (fun p => fst p =? c) (m_acq k))).
Definition forget_conn (k : mstate) (c : N) (names : list (bytes * list N)) (mons : list N) : mstate :=
  mkM (m_next k) (filter (fun p => negb (fst p =? c)) (m_uniq k)) names (filter (fun p => negb (fst p =? c)) (m_acq k))
      (m_pend k) mons.

(* bus_connections_check_reply: the first entry (callee = sender, caller = recipient, serial) goes *)
Fixpoint check_reply (l : list (N * N * N)) (callee caller serial : N) : list (N * N * N) :=
  match l with
  | [] => []
  | (a, b, s) :: r => if (a =? caller) && (b =? callee) && (s =? serial) then r else (a, b, s) :: check_reply r callee caller serial
  end.
(* bus_connections_expect_reply: refused if the same triple is already there, else prepended *)
Definition expect_reply (l : list (N * N * N)) (caller callee serial : N) : list (N * N * N) :=
  if existsb (fun p => match p with (a, b, s) => (a =? caller) && (b =? callee) && (s =? serial) end) l then l
  else (caller, callee, serial) :: l.
Definition set_pend (k : mstate) (p : list (N * N * N)) : mstate := mkM (m_next k) (m_uniq k) (m_names k) (m_acq k) p (m_mons k).

(* bus_connection_drop_pending_replies (run by free_connection_data after a disconnect, and by bus_connection_be_monitor):
   entries whose CALLER is c are dropped (that includes calls c made to itself); the callers of the
   remaining entries whose CALLEE is c get a NoReply error *)
Definition drop_pending (l : list (N * N * N)) (c : N) : list (N * N * N) * list (N * mout) :=
  let kept := filter (fun p => match p with (a, b, _) => negb (a =? c) && negb (b =? c) end) l in
  let errs := flat_map (fun p => match p with (a, b, s) => if negb (a =? c) && (b =? c) then [(MON, NoReply a s)] else [] end) l in
  (kept, errs).

(* bus_dispatch *)
Definition mini_dispatch (k : mstate) (c : N) (active : bool) (m : message) : mstate * list (N * mout) * verdict :=
  let seen := (MON, Seen c (msg_raw m)) in
  if mem c (m_mons k) then (k, [], VClose)       (* "Monitors aren't meant to send messages to us": closed, not captured *)
  else
  match str_field m DBUS_HEADER_FIELD_DESTINATION with
  | None =>
      if msg_type m =? DBUS_MESSAGE_TYPE_SIGNAL
      then (k, [seen], if active then VNone else VClose)
      else (k, [], VNone)                      (* DBUS_HANDLER_RESULT_NOT_YET_HANDLED: libdbus answers, no capture *)
  | Some d =>
      if bytes_eqb d DBUS_SERVICE_DBUS_str then
        if active then
          if is_request_name m then
            let '(names, joined, owner) := acquire (m_names k) (rn_name m) c (negb (N.land (rn_flags m) DBUS_NAME_FLAG_DO_NOT_QUEUE =? 0)) in
            (mkM (m_next k) (m_uniq k) names (if joined then m_acq k ++ [(c, rn_name m)] else m_acq k) (m_pend k) (m_mons k),
             seen :: (if owner then [(MON, Noc (rn_name m) 0 c)] else []), VNone)
          else if is_become_monitor m then
            (* bus_connection_be_monitor: every name goes, first acquired first (the unique name is the first) *)
            let '(names, o) := release_names (m_names k) c (rev (owned_rev k c)) in
            (* "it isn't allowed to reply, and it is no longer relevant whether it receives replies" *)
            let '(pend, errs) := drop_pending (m_pend k) c in
            (set_pend (forget_conn k c names (c :: m_mons k)) pend, seen :: (MON, Bye c) :: o ++ errs, VNone)
          else (k, [seen], VNone)               (* the driver answers (a second Hello gets an error) *)
        else if is_hello m then
          (* bus_context_check_security_policy lets it through; bus_driver_handle_message:
             Hello is found at any path, in_args "" must equal the signature *)
          if bytes_eqb (msg_signature m) []
          then (mkM (m_next k + 1) (m_uniq k ++ [(c, m_next k)]) (m_names k) (m_acq k) (m_pend k) (m_mons k), [seen; (MON, Hi c)], VComplete)
          else (k, [seen], VNone)               (* InvalidArgs *)
        else (k, [seen], VNone)                 (* AccessDenied: "other than Hello without being registered" *)
      else if active then
        (* routed: only the pending-reply bookkeeping of bus_context_check_security_policy is modelled
           (allow-all policy): a REPLY_SERIAL consumes the matching entry, a method call that expects a reply adds one *)
        match resolve k d with
        | None => (k, [seen], VNone)            (* NameHasNoOwner / ServiceUnknown goes back to the sender *)
        | Some r =>
            let p1 := match msg_reply_serial m with
                      | Some rs => check_reply (m_pend k) c r rs
                      | None => m_pend k
                      end in
            let p2 := if (msg_type m =? DBUS_MESSAGE_TYPE_METHOD_CALL) && (N.land (msg_flags m) DBUS_HEADER_FLAG_NO_REPLY_EXPECTED =? 0)
                      then expect_reply p1 c r (msg_serial m) else p1 in
            (set_pend k p2, [seen], VNone)
        end
      else (k, [seen], VClose)                  (* "clients must talk to bus driver first" *)
  end.

(* bus_connection_disconnected, then free_connection_data *)
Definition mini_disconnect (k : mstate) (c : N) (active : bool) : mstate * list (N * mout) :=
  let is_mon := mem c (m_mons k) in
  let '(names, o) := if active && negb is_mon then release_names (m_names k) c (owned_rev k c) else (m_names k, []) in
  let '(pend, errs) := drop_pending (m_pend k) c in
  (set_pend (forget_conn k c names (filter (fun x => negb (x =? c)) (m_mons k))) pend,
   o ++ (if active && negb is_mon then [(MON, Bye c)] else []) ++ errs).

(* ---- handshake ---------------------------------------------------------------- *)
Definition S_EXTERNAL : bytes := [69; 88; 84; 69; 82; 78; 65; 76].

(* the daemon of the correspondence run: <auth>EXTERNAL</auth>, runs as [uid], every
   client is a local process of the same uid; GUID left empty (the check strips it) *)
Definition mini_env (uid : N) : env :=
  mkEnv (mkCreds (Some uid) (Some 1) None) (Some [S_EXTERNAL]) [] true true uid
        (fun _ => None) default_context false (fun _ => None) (fun _ => []) (fun _ => None).

Definition mini_auth_feed (uid : N) (a : auth) (d : bytes) : auth * bytes * averdict :=
  match Server.step (mini_env uid) a (Server.Feed d) with
  | None => (a, [], AFail)
  | Some a1 =>
      let reply := a_outgoing a1 in
      match Server.step (mini_env uid) a1 (Server.Sent (nlen reply)) with
      | None => (a1, reply, AFail)
      | Some a2 =>
          (a2, reply,
           match work_result a2 with
           | W_Authenticated => ADone (a_incoming a2)
           | W_NeedDisconnect | W_Aborted => AFail
           | W_WaitingForInput | W_HaveBytesToSend => AWait
           end)
      end
  end.

Definition mini_ops (uid : N) : ops auth mstate mout :=
  mkOps auth mstate mout auth_init (mini_auth_feed uid) mini_dispatch mini_disconnect.

(* [base]: the number the bus will put into the next unique name (4 on a fresh daemon of the
   correspondence run: the monitor, the pair and the observer come first) *)
Definition mini_core0 (base : N) : mstate := mkM base [] [] [] [] [].
Definition mini_init_at (base : N) : state auth mstate := init (mini_core0 base).
Definition mini_init : state auth mstate := mini_init_at 4.

(* what the OCaml driver calls: per-event outputs of a history *)
Definition mini_run (uid : N) (cf : cfg) (h : list Bus.event) : list (list (out mout)) :=
  snd (run_steps (mini_ops uid) cf mini_init h).

(* the same through the environment of Robust/Env.v (client-side script in, scheduled
   bus-side events with their outputs out) *)
Definition mini_env_run (uid : N) (cf : cfg) (h : list cevent) : list (list (Bus.event * list (out mout))) :=
  snd (env_run (mini_ops uid) cf (mkE mini_init []) h).
