(* C10 — the concrete instance of Robust/Bus.v that is extracted and run against
   the daemon.

   Handshake: the SASL server model of package auth (C08), driven the way
   do_authentication (dbus/dbus-transport-socket.c) drives DBusAuth: bytes read are
   appended and _dbus_auth_do_work runs; what is in the outgoing buffer is written
   (assumed to fit the socket buffer) and _dbus_auth_bytes_sent + do_work run again.

   Core: the first level of bus_dispatch (bus/dispatch.c) as far as it decides
   (a) whether the message is shown to monitors (bus_transaction_capture),
   (b) whether the sender becomes active (Hello accepted by bus_driver_handle_hello),
   (c) whether the sender is closed (inactive connection talking to someone else
       than the driver).
   Routing, replies and errors are other packages' business (C03-C09); here the
   output is what a monitor is shown OF THE SENDER'S OWN MESSAGE, plus the
   NameOwnerChanged that announces the sender's arrival / departure. *)
From DV Require Import Lib.Base Gen.Tables Wire.Message Auth.Types Gen.AuthTables Auth.Server Robust.Bus Robust.Env.
Local Open Scope N_scope.

(* ---- header accessors (dbus_message_get_type / _destination / ...) ---------- *)
Definition msg_le (m : message) : bool := byte_at (m_header m) 0 =? DBUS_LITTLE_ENDIAN.
Definition msg_type (m : message) : N := byte_at (m_header m) 1.
Definition str_field (m : message) (code : N) : option bytes :=
  match field_value code (m_fields m) with
  | Some f => Some (str_payload (msg_le m) (f_val f))
  | None => None
  end.
Definition msg_signature (m : message) : bytes :=
  match field_value DBUS_HEADER_FIELD_SIGNATURE (m_fields m) with
  | Some f => sig_payload (f_val f)
  | None => []
  end.
Definition msg_raw (m : message) : bytes := m_header m ++ m_body m.

Definition S_Hello : bytes := [72; 101; 108; 108; 111].

Definition opt_is (o : option bytes) (s : bytes) : bool :=
  match o with Some x => bytes_eqb x s | None => false end.
Definition opt_is_or_none (o : option bytes) (s : bytes) : bool :=
  match o with Some x => bytes_eqb x s | None => true end.

(* dbus_message_is_method_call (message, DBUS_INTERFACE_DBUS, "Hello") *)
Definition is_hello (m : message) : bool :=
  (msg_type m =? DBUS_MESSAGE_TYPE_METHOD_CALL)
  && opt_is (str_field m DBUS_HEADER_FIELD_MEMBER) S_Hello
  && opt_is_or_none (str_field m DBUS_HEADER_FIELD_INTERFACE) DBUS_INTERFACE_DBUS_str.

Definition msg_flags (m : message) : N := byte_at (m_header m) 2.
Definition msg_serial (m : message) : N := u32_at (msg_le m) (m_header m) 8.
Definition msg_reply_serial (m : message) : option N :=
  match field_value DBUS_HEADER_FIELD_REPLY_SERIAL (m_fields m) with
  | Some f => Some (u32_at (msg_le m) (f_val f) 0)
  | None => None
  end.

Definition S_RequestName : bytes := [82; 101; 113; 117; 101; 115; 116; 78; 97; 109; 101].
Definition S_BecomeMonitor : bytes := [66; 101; 99; 111; 109; 101; 77; 111; 110; 105; 116; 111; 114].
Definition S_Monitoring : bytes :=        (* org.freedesktop.DBus.Monitoring *)
  DBUS_INTERFACE_DBUS_str ++ [46; 77; 111; 110; 105; 116; 111; 114; 105; 110; 103].
Definition S_Peer : bytes := DBUS_INTERFACE_DBUS_str ++ [46; 80; 101; 101; 114].     (* org.freedesktop.DBus.Peer *)
Definition S_su : bytes := [115; 117].
Definition S_asu : bytes := [97; 115; 117].
Definition S_unique_prefix : bytes := [58; 49; 46].     (* ":1." *)

Inductive mout :=
| Seen (from : N) (raw : bytes)          (* bus_transaction_capture: the sender's message as sent *)
| Hi (c : N)                             (* NameOwnerChanged ("" -> c's unique name) *)
| Bye (c : N)                            (* NameOwnerChanged (c's unique name -> "") *)
| Noc (name : bytes) (old new : N)       (* NameOwnerChanged of a well-known name; 0 = nobody *)
| NoReply (to : N) (serial : N)          (* error NoReply sent to the caller of a pending call whose callee went away *)
| Refused (c : N) (serial : N)           (* error LimitsExceeded in reply to c's call with that serial *)
| ActFail (c : N) (serial : N)           (* the activation c's message with that serial waited for has failed: error reply *)
| ActOk (c : N) (serial : N)             (* StartServiceByName answered DBUS_START_REPLY_SUCCESS *)
| Self (c : N) (serial : N).             (* answered by c's own DBusConnection inside the bus (built-in Peer handler, or the
                                            UnknownMethod/UnknownObject fallback of dbus_connection_dispatch): reply or error on c's socket,
                                            whatever NO_REPLY_EXPECTED says; the bus's dispatcher, monitors included, never sees the message *)

Definition MON : N := 0.            (* recipient "every monitor"; connection ids of the run start at 1 *)

(* state of the core: every table of the bus that can mention a connection, i.e. what
   bus_connection_disconnected (bus/connection.c) has to clean up.
   - uniq: the number in the unique name ":1.<n>" of every registered, non-monitor connection
     (next_major/minor counter of bus/driver.c);
   - names: owner queues of well-known names (first = primary owner); acq: BusConnectionData.services_owned
     (one record per queue entry, in the order it was made);
   - rules: the matchmaker's rules as (owner, rule text), oldest first (BusConnectionData.n_match_rules is their count per owner);
   - pend: BusConnections.pending_replies as (caller, callee, serial);
   - mons: BusConnections.monitors;
   - completed: BusConnections.completed; all connections of the run have the bus's uid, so
     [base_users + length completed] is both n_completed and the per-uid count of adjust_connections_for_uid;
   - the three limits are constants of a run: <limit name="max_connections_per_user">,
     <limit name="max_match_rules_per_connection">, and the number of registered connections that are
     not part of the history (the monitor, the pair and the observer of the correspondence run: 4) *)
Record mstate := mkM {
  m_next : N;
  m_uniq : list (N * N);
  m_names : list (bytes * list N);
  m_acq : list (N * bytes);
  m_rules : list (N * bytes);
  m_pend : list (N * N * N);
  m_mons : list N;
  m_completed : list N;
  m_maxuser : N;
  m_maxrules : N;
  m_baseusers : N;
  m_clock : N;                                         (* ms since the start of the history *)
  m_acts : list (bytes * N * list (N * N * N))         (* BusActivation.pending_activations: (name, time at which it fails unless the name
                                                          is acquired before, entries (requester, serial, kind)), kind 0 = StartServiceByName,
                                                          1 = auto-started message that expects no reply, 2 = auto-started call that does *)
}.

Definition mem (c : N) (l : list N) : bool := existsb (N.eqb c) l.
Definition unique_name (n : N) : bytes := S_unique_prefix ++ dec_of_N n.
Definition not_c (c : N) (x : N) : bool := negb (x =? c).

Definition set_names (k : mstate) names acq := mkM (m_next k) (m_uniq k) names acq (m_rules k) (m_pend k) (m_mons k) (m_completed k) (m_maxuser k) (m_maxrules k) (m_baseusers k) (m_clock k) (m_acts k).
Definition set_rules (k : mstate) rules := mkM (m_next k) (m_uniq k) (m_names k) (m_acq k) rules (m_pend k) (m_mons k) (m_completed k) (m_maxuser k) (m_maxrules k) (m_baseusers k) (m_clock k) (m_acts k).
Definition set_pend (k : mstate) pend := mkM (m_next k) (m_uniq k) (m_names k) (m_acq k) (m_rules k) pend (m_mons k) (m_completed k) (m_maxuser k) (m_maxrules k) (m_baseusers k) (m_clock k) (m_acts k).
Definition set_mons (k : mstate) mons := mkM (m_next k) (m_uniq k) (m_names k) (m_acq k) (m_rules k) (m_pend k) mons (m_completed k) (m_maxuser k) (m_maxrules k) (m_baseusers k) (m_clock k) (m_acts k).
Definition set_uniq (k : mstate) next uniq := mkM next uniq (m_names k) (m_acq k) (m_rules k) (m_pend k) (m_mons k) (m_completed k) (m_maxuser k) (m_maxrules k) (m_baseusers k) (m_clock k) (m_acts k).
Definition set_completed (k : mstate) l := mkM (m_next k) (m_uniq k) (m_names k) (m_acq k) (m_rules k) (m_pend k) (m_mons k) l (m_maxuser k) (m_maxrules k) (m_baseusers k) (m_clock k) (m_acts k).

(* n_completed = get_connections_for_uid (the uid of the run) *)
Definition set_acts (k : mstate) clock acts := mkM (m_next k) (m_uniq k) (m_names k) (m_acq k) (m_rules k) (m_pend k) (m_mons k) (m_completed k) (m_maxuser k) (m_maxrules k) (m_baseusers k) clock acts.

(* the activatable services of the correspondence run's configuration (<servicedir> with two .service files, see
   harness/py/robust_run.py): name -> ms after which the activation fails unless somebody acquires the name first
   (c10.act.fail: Exec exits 1 after 300 ms; c10.act.hang: Exec never claims the name, <limit name="service_start_timeout"> 900) *)
Definition S_act_fail : bytes := [99; 49; 48; 46; 97; 99; 116; 46; 102; 97; 105; 108].
Definition S_act_hang : bytes := [99; 49; 48; 46; 97; 99; 116; 46; 104; 97; 110; 103].
Definition services : list (bytes * N) := [(S_act_fail, 300); (S_act_hang, 900)].
Definition service_delay (name : bytes) : option N :=
  match find (fun p => bytes_eqb name (fst p)) services with Some (_, d) => Some d | None => None end.

(* bus_activation_activate_service: join the pending activation of that name, or start one *)
Fixpoint add_waiter (acts : list (bytes * N * list (N * N * N))) (name : bytes) (fail_at : N) (e : N * N * N) : list (bytes * N * list (N * N * N)) :=
  match acts with
  | [] => [(name, fail_at, [e])]
  | (n, f, es) :: r => if bytes_eqb name n then (n, f, es ++ [e]) :: r else (n, f, es) :: add_waiter r name fail_at e
  end.
Definition connected (k : mstate) (c : N) : bool := mem c (m_completed k).     (* dbus_connection_get_is_connected (entry->connection) *)

(* try_send_activation_failure: an error reply for every entry whose requester is STILL CONNECTED; the others are skipped *)
Definition fail_outputs (k : mstate) (es : list (N * N * N)) : list (N * mout) :=
  flat_map (fun e => match e with (c, s, _) => if connected k c then [(MON, ActFail c s)] else [] end) es.
(* bus_activation_service_created + bus_activation_send_pending_auto_activation_messages, same guard *)
Definition ok_outputs (k : mstate) (es : list (N * N * N)) : list (N * mout) :=
  flat_map (fun e => match e with (c, s, kind) => if connected k c && (kind =? 0) then [(MON, ActOk c s)] else [] end) es.

Definition n_users (k : mstate) : N := m_baseusers k + nlen (m_completed k).
Definition n_rules (k : mstate) (c : N) : N := nlen (filter (fun p => fst p =? c) (m_rules k)).

(* bus_registry_lookup + primary owner; a unique name resolves to its registered, non-monitor connection *)
Definition queue_of (names : list (bytes * list N)) (name : bytes) : list N :=
  match find (fun p => bytes_eqb name (fst p)) names with Some (_, q) => q | None => [] end.
Definition resolve (k : mstate) (d : bytes) : option N :=
  match find (fun p => bytes_eqb d (unique_name (snd p))) (m_uniq k) with
  | Some (c, _) => Some c
  | None => match queue_of (m_names k) d with c :: _ => Some c | [] => None end
  end.

Definition canonical (m : message) : bool := opt_is (str_field m DBUS_HEADER_FIELD_PATH) DBUS_PATH_DBUS_str.
Definition driver_call (m : message) (member iface sig : bytes) : bool :=
  (msg_type m =? DBUS_MESSAGE_TYPE_METHOD_CALL) && canonical m
  && opt_is (str_field m DBUS_HEADER_FIELD_MEMBER) member
  && opt_is_or_none (str_field m DBUS_HEADER_FIELD_INTERFACE) iface
  && bytes_eqb (msg_signature m) sig.

(* RequestName (s name, u flags), AddMatch (s rule), BecomeMonitor ([], 0) at the canonical path *)
Definition S_AddMatch : bytes := [65; 100; 100; 77; 97; 116; 99; 104].
Definition S_s : bytes := [115].
Definition S_StartServiceByName : bytes := [83; 116; 97; 114; 116; 83; 101; 114; 118; 105; 99; 101; 66; 121; 78; 97; 109; 101].
Definition is_start_service (m : message) : bool := driver_call m S_StartServiceByName DBUS_INTERFACE_DBUS_str S_su.
Definition is_request_name (m : message) : bool := driver_call m S_RequestName DBUS_INTERFACE_DBUS_str S_su.
Definition is_add_match (m : message) : bool := driver_call m S_AddMatch DBUS_INTERFACE_DBUS_str S_s.
Definition is_become_monitor (m : message) : bool :=
  driver_call m S_BecomeMonitor S_Monitoring S_asu && bytes_eqb (m_body m) [0; 0; 0; 0; 0; 0; 0; 0].
Definition arg_string (m : message) : bytes := str_payload (msg_le m) (m_body m).
Definition rn_flags (m : message) : N :=
  u32_at (msg_le m) (m_body m) (N.to_nat (align_up (4 + u32_at (msg_le m) (m_body m) 0 + 1) 4)).

(* bus_registry_acquire_service, restricted to flags 0 / DO_NOT_QUEUE on names nobody may replace
   (ALLOW_REPLACEMENT / REPLACE_EXISTING are C04's subject and are not generated here).
   Result: (new table, c joined a queue, c became primary owner) *)
Fixpoint acquire (names : list (bytes * list N)) (name : bytes) (c : N) (dnq : bool) : list (bytes * list N) * bool * bool :=
  match names with
  | [] => ([(name, [c])], true, true)
  | (n, q) :: r =>
      if bytes_eqb name n then
        match q with
        | [] => ((n, [c]) :: r, true, true)
        | _ => if mem c q || dnq then ((n, q) :: r, false, false) else ((n, q ++ [c]) :: r, true, false)
        end
      else let '(r', j, o) := acquire r name c dnq in ((n, q) :: r', j, o)
  end.

(* bus_service_remove_owner (service, connection): the connection's entry leaves the queue; if it was the
   primary owner the next one takes over (NameOwnerChanged old -> new), or the name disappears (old -> "") *)
Fixpoint release_one (names : list (bytes * list N)) (c : N) (name : bytes) : list (bytes * list N) * list (N * mout) :=
  match names with
  | [] => ([], [])
  | (n, q) :: t =>
      if bytes_eqb name n then
        ((n, filter (not_c c) q) :: t,
         match q with
         | h :: _ => if h =? c then [(MON, Noc n c (match filter (not_c c) q with h' :: _ => h' | [] => 0 end))] else []
         | [] => []
         end)
      else let '(t', o) := release_one t c name in ((n, q) :: t', o)
  end.

Fixpoint release_names (names : list (bytes * list N)) (c : N) (owned : list bytes) : list (bytes * list N) * list (N * mout) :=
  match owned with
  | [] => (names, [])
  | name :: r =>
      let '(names1, o1) := release_one names c name in
      let '(names2, o2) := release_names names1 c r in
      (names2, o1 ++ o2)
  end.

Definition owned (k : mstate) (c : N) : list bytes := map snd (filter (fun p => fst p =? c) (m_acq k)).

(* bus_connections_check_reply: the first entry (callee = sender, caller = recipient, serial) goes *)
Fixpoint check_reply (l : list (N * N * N)) (callee caller serial : N) : list (N * N * N) :=
  match l with
  | [] => []
  | (a, b, s) :: r => if (a =? caller) && (b =? callee) && (s =? serial) then r else (a, b, s) :: check_reply r callee caller serial
  end.
(* bus_connections_expect_reply: refused if the same triple is already there, else prepended *)
Definition expect_reply (l : list (N * N * N)) (caller callee serial : N) : list (N * N * N) :=
  if existsb (fun p => match p with (a, b, s) => (a =? caller) && (b =? callee) && (s =? serial) end) l then l
  else (caller, callee, serial) :: l.

(* bus_connection_drop_pending_replies (last thing bus_connection_disconnected does; also run by
   bus_connection_be_monitor): entries whose CALLER is c are dropped — that includes calls c made to itself —;
   the callers of the remaining entries whose CALLEE is c get a NoReply error *)
Definition drop_pending (l : list (N * N * N)) (c : N) : list (N * N * N) * list (N * mout) :=
  let kept := filter (fun p => match p with (a, b, _) => negb (a =? c) && negb (b =? c) end) l in
  let errs := flat_map (fun p => match p with (a, b, s) => if negb (a =? c) && (b =? c) then [(MON, NoReply a s)] else [] end) l in
  (kept, errs).

(* ---- the teardown steps, in the order of bus_connection_disconnected --------------------------- *)
(* 1. bus_matchmaker_disconnected: the connection's match rules go *)
Definition td_rules (k : mstate) (c : N) : mstate := set_rules k (filter (fun p => not_c c (fst p)) (m_rules k)).
(* 2. while ((service = _dbus_list_get_last (&d->services_owned))) bus_service_remove_owner: every queue entry
      goes, last made first; the unique name is the first entry of services_owned, hence the last to go *)
Definition td_names (k : mstate) (c : N) (order : list bytes) (registered : bool) : mstate * list (N * mout) :=
  let '(names, o) := release_names (m_names k) c order in
  (set_uniq (set_names k names (filter (fun p => not_c c (fst p)) (m_acq k))) (m_next k) (filter (fun p => not_c c (fst p)) (m_uniq k)),
   o ++ (if registered then [(MON, Bye c)] else [])).
(* 3. link_in_monitors *)
Definition td_monitor (k : mstate) (c : N) : mstate := set_mons k (filter (not_c c) (m_mons k)).
(* 4. link_in_connection_list: completed list, n_completed, adjust_connections_for_uid (-1) *)
Definition td_lists (k : mstate) (c : N) : mstate := set_completed k (filter (not_c c) (m_completed k)).
(* 5. bus_connection_drop_pending_replies *)
Definition td_pending (k : mstate) (c : N) : mstate * list (N * mout) :=
  let '(pend, errs) := drop_pending (m_pend k) c in (set_pend k pend, errs).

(* bus_connection_disconnected *)
Definition mini_disconnect (k : mstate) (c : N) (active : bool) : mstate * list (N * mout) :=
  let registered := mem c (map fst (m_uniq k)) in        (* still has its unique name: active and not a monitor *)
  let k1 := td_rules k c in
  let '(k2, o2) := td_names k1 c (rev (owned k1 c)) registered in
  let k3 := td_monitor k2 c in
  let k4 := td_lists k3 c in
  let '(k5, o5) := td_pending k4 c in
  (k5, o2 ++ o5).

(* bus_dispatch *)
Definition mini_dispatch (k : mstate) (c : N) (active : bool) (m : message) : mstate * list (N * mout) * verdict :=
  let seen := (MON, Seen c (msg_raw m)) in
  (* dbus_connection_dispatch runs _dbus_connection_peer_filter_unlocked_no_update BEFORE the bus's filter: a message of ANY type
     with interface org.freedesktop.DBus.Peer and no DESTINATION (route_peer_messages is on) is answered by the connection
     itself — Ping / GetMachineId return, everything else UnknownMethod — and goes no further *)
  if match str_field m DBUS_HEADER_FIELD_DESTINATION with None => opt_is (str_field m DBUS_HEADER_FIELD_INTERFACE) S_Peer | Some _ => false end
  then (k, [(MON, Self c (msg_serial m))], VNone)
  else
  if mem c (m_mons k) then (k, [], VClose)       (* "Monitors aren't meant to send messages to us": closed, not captured *)
  else
  match str_field m DBUS_HEADER_FIELD_DESTINATION with
  | None =>
      if msg_type m =? DBUS_MESSAGE_TYPE_SIGNAL
      then (k, [seen], if active then VNone else VClose)
      else if msg_type m =? DBUS_MESSAGE_TYPE_METHOD_CALL
      then (k, [(MON, Self c (msg_serial m))], VNone)   (* DBUS_HANDLER_RESULT_NOT_YET_HANDLED: dbus_connection_dispatch's fallback error reply, no capture *)
      else (k, [], VNone)                      (* NOT_YET_HANDLED and not a call: dropped silently *)
  | Some d =>
      if bytes_eqb d DBUS_SERVICE_DBUS_str then
        if active then
          if is_request_name m then
            let '(names, joined, owner) := acquire (m_names k) (arg_string m) c (negb (N.land (rn_flags m) DBUS_NAME_FLAG_DO_NOT_QUEUE =? 0)) in
            let k1 := set_names k names (if joined then m_acq k ++ [(c, arg_string m)] else m_acq k) in
            if owner then
              (* the name appears: a pending activation of it has succeeded *)
              match find (fun a => bytes_eqb (arg_string m) (fst (fst a))) (m_acts k) with
              | Some (_, _, es) =>
                  let pend := fold_left (fun p e => match e with (w, sr, kind) => if connected k w && (kind =? 2) then expect_reply p w c sr else p end) es (m_pend k) in
                  (set_acts (set_pend k1 pend) (m_clock k) (filter (fun a => negb (bytes_eqb (arg_string m) (fst (fst a)))) (m_acts k)),
                   seen :: (MON, Noc (arg_string m) 0 c) :: ok_outputs k es, VNone)
              | None => (k1, [seen; (MON, Noc (arg_string m) 0 c)], VNone)
              end
            else (k1, [seen], VNone)
          else if is_start_service m then
            (* bus_driver_handle_activate_service -> bus_activation_activate_service *)
            match queue_of (m_names k) (arg_string m), service_delay (arg_string m) with
            | [], Some dl => (set_acts k (m_clock k) (add_waiter (m_acts k) (arg_string m) (m_clock k + dl) (c, msg_serial m, 0)), [seen], VNone)
            | _, _ => (k, [seen], VNone)           (* already running, or ServiceUnknown *)
            end
          else if is_add_match m then
            (* bus_driver_handle_add_match: the limit is tested before the rule is parsed; rules of the run parse *)
            if m_maxrules k <=? n_rules k c then (k, [seen; (MON, Refused c (msg_serial m))], VNone)
            else (set_rules k (m_rules k ++ [(c, arg_string m)]), [seen], VNone)
          else if is_become_monitor m then
            (* bus_connection_be_monitor: every name goes, first acquired first (the unique name is the first);
               its match rules go; it joins the monitors; "it isn't allowed to reply, and it is no longer relevant
               whether it receives replies".  It stays in the completed list and in the per-uid count. *)
            let '(k2, o2) := td_names k c (owned k c) false in
            let k3 := td_rules k2 c in
            let '(k5, o5) := td_pending (set_mons k3 (c :: m_mons k3)) c in
            (k5, seen :: (MON, Bye c) :: o2 ++ o5, VNone)
          else (k, [seen], VNone)               (* the driver answers (a second Hello gets an error) *)
        else if is_hello m then
          (* bus_context_check_security_policy lets it through; bus_driver_handle_message:
             Hello is found at any path, in_args "" must equal the signature; bus_driver_handle_hello:
             bus_connections_check_limits (max_connections_per_user) before anything is changed *)
          if negb (bytes_eqb (msg_signature m) []) then (k, [seen], VNone)               (* InvalidArgs *)
          else if m_maxuser k <=? n_users k then (k, [seen; (MON, Refused c (msg_serial m))], VNone)   (* LimitsExceeded: stays incomplete *)
          else (set_completed (set_uniq k (m_next k + 1) (m_uniq k ++ [(c, m_next k)])) (m_completed k ++ [c]), [seen; (MON, Hi c)], VComplete)
        else (k, [seen], VNone)                 (* AccessDenied: "other than Hello without being registered" *)
      else if active then
        (* routed: only the pending-reply bookkeeping of bus_context_check_security_policy is modelled
           (allow-all policy): a REPLY_SERIAL consumes the matching entry, a method call that expects a reply adds one *)
        match resolve k d with
        | None =>
            (* nobody owns it: unless NO_AUTO_START is set the bus tries to activate it; without a service file that fails at once *)
            match (N.land (msg_flags m) DBUS_HEADER_FLAG_NO_AUTO_START =? 0), service_delay d with
            | true, Some dl =>
                let kind := if (msg_type m =? DBUS_MESSAGE_TYPE_METHOD_CALL) && (N.land (msg_flags m) DBUS_HEADER_FLAG_NO_REPLY_EXPECTED =? 0) then 2 else 1 in
                (set_acts k (m_clock k) (add_waiter (m_acts k) d (m_clock k + dl) (c, msg_serial m, kind)), [seen], VNone)
            | _, _ => (k, [seen], VNone)        (* NameHasNoOwner / ServiceUnknown goes back to the sender *)
            end
        | Some r =>
            let p1 := match msg_reply_serial m with
                      | Some rs => check_reply (m_pend k) c r rs
                      | None => m_pend k
                      end in
            let p2 := if (msg_type m =? DBUS_MESSAGE_TYPE_METHOD_CALL) && (N.land (msg_flags m) DBUS_HEADER_FLAG_NO_REPLY_EXPECTED =? 0)
                      then expect_reply p1 c r (msg_serial m) else p1 in
            (set_pend k p2, [seen], VNone)
        end
      else (k, [seen], VClose)                  (* "clients must talk to bus driver first" *)
  end.

(* the core's timers: pending_activation_timed_out / the babysitter reporting that the child has exited
   (pending_activation_failed -> try_send_activation_failure): every activation whose time has come fails *)
Definition mini_tick (k : mstate) (d : N) : mstate * list (N * mout) :=
  let now := m_clock k + d in
  let due := filter (fun a => snd (fst a) <=? now) (m_acts k) in
  (set_acts k now (filter (fun a => negb (snd (fst a) <=? now)) (m_acts k)),
   flat_map (fun a => fail_outputs k (snd a)) due).

(* ---- handshake ---------------------------------------------------------------- *)
Definition S_EXTERNAL : bytes := [69; 88; 84; 69; 82; 78; 65; 76].

(* the daemon of the correspondence run: <auth>EXTERNAL</auth>, runs as [uid], every
   client is a local process of the same uid; GUID left empty (the check strips it) *)
Definition mini_env (uid : N) : env :=
  mkEnv (mkCreds (Some uid) (Some 1) None) (Some [S_EXTERNAL]) [] true true uid
        (fun _ => None) default_context false (fun _ => None) (fun _ _ => []) (fun _ => None).

Definition mini_auth_feed (uid : N) (a : auth) (d : bytes) : auth * bytes * averdict :=
  match Server.step (mini_env uid) a (Server.Feed d) with
  | None => (a, [], AFail)
  | Some a1 =>
      let reply := a_outgoing a1 in
      match Server.step (mini_env uid) a1 (Server.Sent (nlen reply)) with
      | None => (a1, reply, AFail)
      | Some a2 =>
          (a2, reply,
           match work_result a2 with
           | W_Authenticated => ADone (a_incoming a2)
           | W_NeedDisconnect | W_Aborted => AFail
           | W_WaitingForInput | W_HaveBytesToSend => AWait
           end)
      end
  end.

Definition mini_ops (uid : N) : ops auth mstate mout :=
  mkOps auth mstate mout auth_init (mini_auth_feed uid) mini_dispatch mini_disconnect mini_tick.

(* [base]: the number the bus will put into the next unique name (4 on a fresh daemon of the
   correspondence run: the monitor, the pair and the observer come first) *)
(* limits of the correspondence run's configurations are passed in; 4 registered connections are not part of the history *)
Definition mini_core (base maxuser maxrules : N) : mstate := mkM base [] [] [] [] [] [] [] maxuser maxrules 4 0 [].
Definition mini_core0 (base : N) : mstate := mini_core base 256 512.
Definition mini_init_at (base : N) : state auth mstate := init (mini_core0 base).
Definition mini_init : state auth mstate := mini_init_at 4.

(* what the OCaml driver calls: per-event outputs of a history *)
Definition mini_run (uid : N) (cf : cfg) (h : list Bus.event) : list (list (out mout)) :=
  snd (run_steps (mini_ops uid) cf mini_init h).

(* the same through the environment of Robust/Env.v (client-side script in, scheduled
   bus-side events with their outputs out) *)
Definition mini_env_run (uid : N) (cf : cfg) (h : list cevent) : list (list (Bus.event * list (out mout))) :=
  snd (env_run (mini_ops uid) cf (mkE mini_init []) h).

(* with the two limits of the core given (the driver's `script2` command) *)
Definition mini_env_run_lim (uid : N) (cf : cfg) (maxuser maxrules : N) (h : list cevent) : list (list (Bus.event * list (out mout))) :=
  snd (env_run (mini_ops uid) cf (mkE (init (mini_core 4 maxuser maxrules)) []) h).
