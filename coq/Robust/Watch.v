(* C10 ("... makes the bus ... spin") — the part of the main loop that decides whether a file
   descriptor can wake the loop up: refresh_watches_for_fd (dbus/dbus-mainloop.c), the pollable set
   (dbus-pollable-set-epoll.c / -poll.c) and the per-fd part of _dbus_loop_iterate.

   A wake-up that no watch consumes is a spin: poll()/epoll_wait() report ERR and HUP level-triggered for
   every registered descriptor, whatever its mask, so a descriptor nobody watches must not be registered. *)
From DV Require Import Lib.Base.
Local Open Scope N_scope.

(* DBusWatchFlags *)
Definition W_READABLE : N := 1.
Definition W_WRITABLE : N := 2.
Definition W_ERROR : N := 4.
Definition W_HANGUP : N := 8.

Record watch := mkWatch { w_enabled : bool; w_oom : bool; w_flags : N }.   (* flags: READABLE / WRITABLE the watch asks for *)

Definition active (w : watch) : bool := w_enabled w && negb (w_oom w).

(* what the loop asks of the pollable set for one descriptor *)
Inductive pollop := PEnable (flags : N) | PDisable.

(* refresh_watches_for_fd: OR of the flags of the watches that are enabled (and not waiting out an OOM);
   "interested" = there is at least one such watch *)
Fixpoint refresh_flags (ws : list watch) : bool * N :=
  match ws with
  | [] => (false, 0)
  | w :: r => let '(i, f) := refresh_flags r in
              if active w then (true, N.lor (w_flags w) f) else (i, f)
  end.
Definition refresh (ws : list watch) : pollop :=
  let '(interested, flags) := refresh_flags ws in
  if interested then PEnable flags else PDisable.

(* the entry of the descriptor in the (epoll) pollable set.  socket_set_epoll_disable does NOT remove the
   descriptor (EPOLL_CTL_DEL might not be undoable under memory pressure) and does not set an empty
   level-triggered mask either ("events always trigger on EPOLLERR and EPOLLHUP ... we'll busy-loop on an
   unhandled error or hangup"): it re-arms it EDGE-triggered with no events, so that an error / hang-up is
   reported once and then never again until a watch is enabled *)
Inductive entry := ELevel (mask : N) | EEdge | ENone.     (* ENone: no watch at all on the descriptor, it is not in the set *)
Definition apply_op (op : pollop) : entry := match op with PEnable f => ELevel f | PDisable => EEdge end.

(* what _dbus_pollable_set_poll reports for the descriptor in the [first] / a later iteration after the
   kernel's condition has become [ready] (and stays so: nobody consumes it) *)
Definition reported (e : entry) (ready : N) (first : bool) : N :=
  match e with
  | ELevel mask => N.land ready (N.lor mask (N.lor W_ERROR W_HANGUP))
  | EEdge => if first then N.land ready (N.lor W_ERROR W_HANGUP) else 0
  | ENone => 0
  end.

(* _dbus_loop_iterate for one ready descriptor: every enabled watch is handed the condition;
   dbus_watch_handle -> _dbus_watch_sanitize_condition drops READABLE / WRITABLE the watch did not ask
   for and does nothing if nothing is left.  Result: how many handlers ran. *)
Definition sanitize (w : watch) (cond : N) : N :=
  N.land cond (N.lor (w_flags w) (N.lor W_ERROR W_HANGUP)).
Definition handled (ws : list watch) (cond : N) : N :=
  nlen (filter (fun w => w_enabled w && negb (sanitize w cond =? 0)) ws).

(* one pass: does the descriptor wake the loop, and how many handlers consume the wake-up *)
Definition iterate_with (e : entry) (ws : list watch) (ready : N) (first : bool) : bool * N :=
  let cond := reported e ready first in
  if cond =? 0 then (false, 0) else (true, handled ws cond).
Definition entry_of (ws : list watch) : entry := match ws with [] => ENone | _ => apply_op (refresh ws) end.
Definition iterate (ws : list watch) (ready : N) (first : bool) : bool * N :=
  iterate_with (entry_of ws) ws ready first.

(* the variant that registers an empty level-triggered mask instead (what the comment in
   socket_set_epoll_disable warns against) *)
Definition iterate_naive (ws : list watch) (ready : N) (first : bool) : bool * N :=
  iterate_with (ELevel (snd (refresh_flags ws))) ws ready first.

(* the transport's rule for its read watch (check_read_watch, dbus-transport-socket.c): wanted while the
   connection is up and the bytes of undelivered messages are below max_live_messages_size; a
   disconnected transport has freed its watches altogether (free_watches) *)
Definition read_watch_wanted (disconnected : bool) (live max_live : N) : bool :=
  negb disconnected && (live <? max_live).
