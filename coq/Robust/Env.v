(* C10 — the environment used by the correspondence run: what clients do
   (connect / write / close / wait) turned into the bus-side events of
   Robust/Bus.v under the schedule the real main loop follows when every client
   action is fully processed before the next one happens:

     - a connection waits in the kernel's listen backlog (with whatever its client
       already wrote, and possibly already closed) until the listening watch is
       enabled; then accept(), the reads and the EOF happen in that order; if the
       client has closed already, a handshake reply cannot be written (EPIPE);
     - a write to an accepted connection is read at once, in the pieces the transport
       takes between two dispatches: the credentials byte on its own
       (_dbus_read_credentials_socket), 2048 bytes during the handshake
       (read_data_into_auth), up to 4096 bytes afterwards (do_reading loops "until
       total > max_bytes_read_per_iteration").

   The theorems of Props/C10.v are about ALL bus-side histories; this file only
   picks the histories that the daemon is made to follow in the correspondence run
   and returns them, so that a run of the environment is by construction a run of
   the bus model ([env_run_is_run] in Proofs/RobustProofs.v). *)
From DV Require Import Lib.Base Wire.Message Robust.Bus Gen.RobustTables.
Local Open Scope N_scope.

Inductive cevent :=
| CConnect (c : N)
| CWrite (c : N) (d : bytes)
| CClose (c : N)
| CSleep (d : N).

Record pending := mkPend { p_id : N; p_data : list bytes; p_closed : bool }.

(* bytes taken from a socket before the next dispatch:
   - handshake: read_data_into_auth reads max_bytes_read_per_iteration (2048) bytes and
     _dbus_auth_do_work runs after every read;
   - messages: do_reading reads 2048 bytes at a time "until total > 2048", i.e. up to 4096
     bytes per main-loop iteration, and the dispatch comes at the end of the iteration *)
(* READ_AUTH and READ_MSG come from Gen/RobustTables.v (lifted from dbus-transport-socket.c on every run) *)

Section Env.
  Context {A S O : Type}.
  Variable P : ops A S O.
  Variable cf : cfg.

  Record estate := mkE { e_bus : state A S; e_backlog : list pending }.

  (* how much of what is waiting in the socket the next event takes, given the phase *)
  Definition take_size (x : conn A) : nat :=
    match c_phase x with PCred => 1%nat | PAuth _ => READ_AUTH | PMsg => READ_MSG end.

  (* one write, read piece by piece; the piece size follows the phase at that moment; what is
     left when the connection has been dropped is never read *)
  Fixpoint do_write (fuel : nat) (st : state A S) (c : N) (d : bytes) (wok : bool) : state A S * list (event * list (out O)) :=
    match fuel with
    | Datatypes.O => (st, [])
    | Datatypes.S f =>
        match d, find_conn (s_conns st) c with
        | [], _ => (st, [])
        | _, None => (st, [])
        | _, Some x =>
            let n := take_size x in
            let e := ERead c (firstn n d) wok in
            let '(st1, o1) := step P cf st e in
            let '(st2, o2) := do_write f st1 c (skipn n d) wok in
            (st2, (e, o1) :: o2)
        end
    end.

  Fixpoint do_writes (st : state A S) (c : N) (ds : list bytes) (wok : bool) : state A S * list (event * list (out O)) :=
    match ds with
    | [] => (st, [])
    | d :: r =>
        let '(st1, o1) := do_write (length d) st c d wok in
        let '(st2, o2) := do_writes st1 c r wok in
        (st2, o1 ++ o2)
    end.

  (* accept from the backlog while the listening watch is enabled *)
  Fixpoint drain (bl : list pending) (st : state A S) : state A S * list pending * list (event * list (out O)) :=
    match bl with
    | [] => (st, [], [])
    | p :: r =>
        if accept_enabled cf st then
          let '(st1, o1) := step P cf st (EAccept (p_id p)) in
          let '(st2, o2) := do_writes st1 (p_id p) (p_data p) (negb (p_closed p)) in
          let '(st3, o3) := if p_closed p then step P cf st2 (EEof (p_id p)) else (st2, []) in
          let '(st4, bl4, o4) := drain r st3 in
          (st4, bl4, (EAccept (p_id p), o1) :: o2 ++ (if p_closed p then [(EEof (p_id p), o3)] else []) ++ o4)
        else (st, bl, [])
    end.

  Definition in_backlog (bl : list pending) (c : N) : bool := existsb (fun p => p_id p =? c) bl.
  Definition backlog_write (bl : list pending) (c : N) (d : bytes) : list pending :=
    map (fun p => if (p_id p =? c) && negb (p_closed p) then mkPend (p_id p) (p_data p ++ [d]) false else p) bl.
  Definition backlog_close (bl : list pending) (c : N) : list pending :=
    map (fun p => if p_id p =? c then mkPend (p_id p) (p_data p) true else p) bl.

  Definition env_step (es : estate) (e : cevent) : estate * list (event * list (out O)) :=
    let st := e_bus es in
    let '(st1, bl1, o1) :=
      match e with
      | CConnect c => (st, e_backlog es ++ [mkPend c [] false], [])
      | CWrite c d =>
          if in_backlog (e_backlog es) c then (st, backlog_write (e_backlog es) c d, [])
          else let '(st', o) := do_writes st c [d] true in (st', e_backlog es, o)
      | CClose c =>
          if in_backlog (e_backlog es) c then (st, backlog_close (e_backlog es) c, [])
          else let '(st', o) := step P cf st (EEof c) in (st', e_backlog es, [(EEof c, o)])
      | CSleep d => let '(st', o) := step P cf st (ETick d) in (st', e_backlog es, [(ETick d, o)])
      end in
    let '(st2, bl2, o2) := drain bl1 st1 in
    (mkE st2 bl2, o1 ++ o2).

  Fixpoint env_run (es : estate) (h : list cevent) : estate * list (list (event * list (out O))) :=
    match h with
    | [] => (es, [])
    | e :: r => let '(es1, o1) := env_step es e in
                let '(es2, o2) := env_run es1 r in
                (es2, o1 :: o2)
    end.
End Env.
Arguments mkE {A S}.
Arguments e_bus {A S}.
Arguments e_backlog {A S}.
