(* Model of the enforcement points of the configured resource limits of the
   bus daemon, written after the C control flow of

     bus/connection.c  bus_connections_setup_connection (n_incomplete += 1),
                       bus_connection_complete (n_incomplete -= 1, n_completed += 1,
                       adjust_connections_for_uid +1), bus_connections_check_limits,
                       bus_connection_disconnected (rules, names, counters, pending
                       replies), bus_connections_expect_reply / _check_reply,
                       bus_connection_drop_pending_replies, bus_pending_reply_expired,
                       adjust_connections_for_uid / get_connections_for_uid
     bus/bus.c         bus_context_check_all_watches (the listening sockets are
                       taken out of the main loop while n_incomplete >= the limit),
                       bus_context_add_incoming_connection
                       (dbus_connection_set_max_message_size),
                       bus_context_check_security_policy (reply expectation is
                       recorded as its last step)
     bus/driver.c      bus_driver_handle_hello (already active, then the limits,
                       then completion), bus_driver_handle_add_match (limit first,
                       then the rule text), bus_driver_handle_remove_match
     bus/signals.c     bus_matchmaker_add_rule / _remove_rule_by_value /
                       _disconnected with bus_connection_add/remove_match_rule
                       (n_match_rules)
     bus/dispatch.c    bus_dispatch (a sender that is not registered yet and talks
                       to anybody but the driver is disconnected; unknown
                       destination; delivery)
     dbus/dbus-message.c _dbus_message_loader_set_max_message_size (clamp) and the
                       loader's size test (Wire.Message.have_message, the C01/C11 model)

   Name ownership (RequestName / ReleaseName / the names part of Hello and of a
   disconnection, with bus_registry_acquire_service's per-connection limit) is
   the C04 model Registry.step, run on the connection table and service table
   kept here.

   The limits are a parameter of [lstep], not part of the state.  Model only
   (no proofs here).  Out of model: OOM paths, activation, policy (permissive
   configuration), max_incoming_bytes / max_outgoing_bytes (flow control),
   file descriptors, timing (a reply timeout is an event), the transient state
   between a callee's disconnection and the zero-interval expiry of the calls
   it had not answered (folded into the disconnection step).

   Authentication is an event of its own ([Auth]) because the configured limit
   on "incomplete" connections is about connections that have not said Hello,
   authenticated or not.  Events other than Auth / Disconnect by a connection
   that has not authenticated cannot be put on a socket; only Hello is guarded
   here ([OFault]), the theorems hold for the other (inexpressible) histories too.
   A method call may carry a REPLY_SERIAL header field; the bus then treats it
   as an answer as well (bus_connections_check_reply) before it treats it as a
   call. *)
From DV Require Export Lib.Base Gen.Tables Registry.RegTypes Registry.Registry.
From DV Require Wire.Message.
Local Open Scope N_scope.

(* BusLimits (bus/bus.h), the fields the property is about.  Field names as in
   the configuration file (<limit name="...">). *)
Record limits := mkLimits {
  max_completed_connections : N;
  max_connections_per_user : N;
  max_incomplete_connections : N;
  max_names_per_connection : N;
  max_match_rules_per_connection : N;
  max_replies_per_connection : N;
  max_message_size : N
}.

(* BusConnectionData, the part that is not in Registry.conn: credentials, the
   n_match_rules counter, and whether the authentication conversation has ended
   (DBusTransport.authenticated; nothing in the bus reads it for the limits) *)
Record cdata := mkCd { d_id : N; d_uid : N; d_nrules : N; d_auth : bool;
                       d_maxmsg : N   (* the connection's loader->max_message_size, set once when it is accepted *) }.

(* BusPendingReply *)
Record pend := mkPend { p_get : N; p_send : N; p_serial : N }.

Record state := mkState {
  s_conns : list conn;              (* connections->completed and ->incomplete (c_active tells which), with services_owned *)
  s_services : list (key * queue);  (* registry *)
  s_next : N;                       (* next connection id *)
  s_cdata : list cdata;             (* same connections, same order as s_conns *)
  s_rules : list (N * N);           (* matchmaker: (owning connection, rule) *)
  s_pending : list pend;            (* connections->pending_replies, first link first *)
  s_ncomplete : N;                  (* connections->n_completed *)
  s_nincomplete : N;                (* connections->n_incomplete *)
  s_byuser : list (N * N);          (* connections->completed_by_user: uid -> count *)
  s_watches : bool                  (* context->watches_enabled: the listening sockets are in the main loop *)
}.

Definition linit : state := mkState [] [] 0 [] [] [] 0 0 [] true.

Inductive lerr :=
| LLimitsExceeded | LFailed | LAccessDenied | LInvalidArgs
| LMatchRuleInvalid | LMatchRuleNotFound | LServiceUnknown.

(* what a connection receives *)
Inductive omsg :=
| OAccepted                       (* the server accepted the socket (authentication can proceed) *)
| OAuthOk                         (* authentication succeeded *)
| ONotAccepted                    (* nobody accept()s: the socket stays in the listen backlog *)
| OReg (m : msg)                  (* Hello / RequestName / ReleaseName replies, NameAcquired, NameLost, NameOwnerChanged *)
| OAck                            (* empty method return *)
| OErr (e : lerr)                 (* error reply to the message of this event *)
| ONoReply (serial : N)           (* error NoReply for the call with that serial *)
| OCall (from serial : N)         (* method call passed on *)
| OReply (from serial : N)        (* method return passed on *)
| OSignal (from tag : N)          (* signal passed on *)
| OClosed                         (* the bus closed this connection *)
| OAbort                          (* _dbus_assert in the C code fails: the daemon aborts (checked builds) *)
| OFault.                         (* ill-formed event / assertion path of the C code *)

Definition lout := (N * omsg)%type.

Inductive levent :=
| Connect (uid : N)                              (* a client with these credentials connects *)
| Auth (c : N)                                   (* AUTH EXTERNAL ... BEGIN *)
| Hello (c : N)
| Disconnect (c : N)                             (* the client closes its socket *)
| RequestName (c : N) (name : bytes) (flags : N)
| ReleaseName (c : N) (name : bytes)
| AddMatch (c : N) (rule : option N)             (* None: text that bus_match_rule_parse rejects *)
| RemoveMatch (c : N) (rule : option N)
| Call (c d serial : N) (noreply : bool) (rserial : N)
                                                 (* method call from c to the unique name of d; rserial <> 0: it carries
                                                    a REPLY_SERIAL header field (nothing forbids that) *)
| Reply (d c serial : N)                         (* method return from d to the unique name of c with that REPLY_SERIAL *)
| ReplyTimeout (c serial : N)                    (* the expiry timer fires for c's oldest outstanding call with that serial *)
| Emit (c tag : N)                               (* broadcast signal that rule [tag] (and no other) selects *)
| Message (c : N) (hdr : bytes).                 (* a message to the driver whose first 16 bytes are hdr *)

(* ---- registry view -------------------------------------------------------- *)
Definition reg (L : limits) (s : state) : bus :=
  mkBus (s_conns s) (s_services s) (s_next s) (max_names_per_connection L).

Definition conv_err (e : err) : lerr :=
  match e with
  | EInvalidArgs => LInvalidArgs | EAccessDenied => LAccessDenied
  | ELimitsExceeded => LLimitsExceeded | EFailed => LFailed
  end.

Definition conv (o : RegTypes.out) : lout :=
  match snd o with
  | MError e => (fst o, OErr (conv_err e))
  | MAck => (fst o, OAck)
  | MFault => (fst o, OFault)
  | m => (fst o, OReg m)
  end.

Definition is_fault (o : RegTypes.out) : bool := match snd o with MFault => true | _ => false end.

(* ---- per-connection data -------------------------------------------------- *)
Fixpoint find_cd (ds : list cdata) (c : N) : option cdata :=
  match ds with
  | [] => None
  | d :: r => if d_id d =? c then Some d else find_cd r c
  end.

Fixpoint del_cd (ds : list cdata) (c : N) : list cdata :=
  match ds with
  | [] => []
  | d :: r => if d_id d =? c then r else d :: del_cd r c
  end.

Fixpoint upd_cd (ds : list cdata) (c : N) (f : cdata -> cdata) : list cdata :=
  match ds with
  | [] => []
  | d :: r => if d_id d =? c then f d :: r else d :: upd_cd r c f
  end.

(* get_connections_for_uid / adjust_connections_for_uid: the entry is removed when the count reaches 0 *)
Fixpoint get_uid (t : list (N * N)) (u : N) : N :=
  match t with
  | [] => 0
  | (u', n) :: r => if u' =? u then n else get_uid r u
  end.

Definition set_uid (t : list (N * N)) (u n : N) : list (N * N) :=
  let rest := filter (fun e => negb (fst e =? u)) t in
  if n =? 0 then rest else (u, n) :: rest.

(* ---- pending replies -------------------------------------------------------- *)
Definition pend_match (g sd s : N) (p : pend) : bool :=
  (p_serial p =? s) && (p_get p =? g) && (p_send p =? sd).

(* bus_connections_expect_reply: the while loop.  None = same (serial, receiver, sender)
   already outstanding (early return); Some n = entries whose receiver is g *)
Fixpoint expect_scan (l : list pend) (g sd s count : N) : option N :=
  match l with
  | [] => Some count
  | p :: l' => if pend_match g sd s p then None
               else expect_scan l' g sd s (if p_get p =? g then count + 1 else count)
  end.

(* bus_connections_check_reply: the first matching link is unlinked *)
Fixpoint check_reply (l : list pend) (g sd s : N) : list pend :=
  match l with
  | [] => []
  | p :: l' => if pend_match g sd s p then l' else p :: check_reply l' g sd s
  end.

(* bus_connection_drop_pending_replies followed by the expiry pass it schedules:
   calls made by c are forgotten; calls c was to answer are answered with NoReply *)
Fixpoint drop_pending (l : list pend) (c : N) : list pend * list lout :=
  match l with
  | [] => ([], [])
  | p :: l' =>
      let (r, o) := drop_pending l' c in
      if p_get p =? c then (r, o)
      else if p_send p =? c then (r, (p_get p, ONoReply (p_serial p)) :: o)
      else (p :: r, o)
  end.

(* bus_pending_reply_expired for the last (= oldest, the list is prepended to) entry of
   receiver g with serial s *)
Fixpoint expire_one (l : list pend) (g s : N) : option (list pend) :=
  match l with
  | [] => None
  | p :: l' =>
      match expire_one l' g s with
      | Some r => Some (p :: r)
      | None => if (p_get p =? g) && (p_serial p =? s) then Some l' else None
      end
  end.

(* ---- match rules ------------------------------------------------------------- *)
Definition rule_is (c r : N) (e : N * N) : bool := (fst e =? c) && (snd e =? r).

(* bus_matchmaker_remove_rule_by_value: one equal rule of that connection *)
Fixpoint remove_rule (l : list (N * N)) (c r : N) : option (list (N * N)) :=
  match l with
  | [] => None
  | e :: l' => if rule_is c r e then Some l'
               else match remove_rule l' c r with Some x => Some (e :: x) | None => None end
  end.

(* bus_matchmaker_get_recipients for a signal only rule [tag] selects: every active
   connection holding such a rule, once *)
Definition recipients (s : state) (tag : N) : list N :=
  map c_id (filter (fun x => c_active x && existsb (rule_is (c_id x) tag) (s_rules s)) (s_conns s)).

(* ---- the message size test ------------------------------------------------------ *)
(* _dbus_message_loader_set_max_message_size *)
Definition loader_max (L : limits) : N := N.min (max_message_size L) DBUS_MAXIMUM_MESSAGE_LENGTH.

Definition too_long_at (maxlen : N) (hdr : bytes) : bool :=
  match Wire.Message.have_message maxlen hdr with
  | Wire.Message.HaveInvalid _ => true
  | Wire.Message.HaveOk _ _ _ _ _ => false
  end.
Definition too_long (L : limits) (hdr : bytes) : bool := too_long_at (loader_max L) hdr.

(* bus_context_check_all_watches: the value context->watches_enabled gets *)
Definition watches_for (L : limits) (nincomplete : N) : bool := negb (max_incomplete_connections L <=? nincomplete).

(* ---- state updates ---------------------------------------------------------------- *)
Definition with_reg (s : state) (b : bus) : state :=
  mkState (b_conns b) (b_services b) (b_next b) (s_cdata s) (s_rules s) (s_pending s)
          (s_ncomplete s) (s_nincomplete s) (s_byuser s) (s_watches s).

Definition with_pending (s : state) (pl : list pend) : state :=
  mkState (s_conns s) (s_services s) (s_next s) (s_cdata s) (s_rules s) pl
          (s_ncomplete s) (s_nincomplete s) (s_byuser s) (s_watches s).

Definition with_rules (s : state) (ds : list cdata) (rl : list (N * N)) : state :=
  mkState (s_conns s) (s_services s) (s_next s) ds rl (s_pending s)
          (s_ncomplete s) (s_nincomplete s) (s_byuser s) (s_watches s).

Definition lfault (s : state) (c : N) : state * list lout := (s, [(c, OFault)]).

Definition is_active (s : state) (c : N) : bool :=
  match find_conn (s_conns s) c with Some cn => c_active cn | None => false end.

(* bus_connection_disconnected.  [closed_by_bus]: the connection itself learns it (EOF) *)
Definition disconnect (L : limits) (s : state) (c : N) (closed_by_bus : bool) : state * list lout :=
  match find_conn (s_conns s) c, find_cd (s_cdata s) c with
  | Some cn, Some d =>
      (* match rules first, then the names (each in its own transaction), the connection
         lists and counters, then the pending replies *)
      let (b', ro) := Registry.step (reg L s) (EvDisconnect c) in
      if existsb is_fault ro then lfault s c
      else
        let (pl, po) := drop_pending (s_pending s) c in
        (mkState (b_conns b') (b_services b') (b_next b')
                 (del_cd (s_cdata s) c)
                 (filter (fun e => negb (fst e =? c)) (s_rules s))
                 pl
                 (if c_active cn then s_ncomplete s - 1 else s_ncomplete s)
                 (if c_active cn then s_nincomplete s else s_nincomplete s - 1)
                 (if c_active cn then set_uid (s_byuser s) (d_uid d) (get_uid (s_byuser s) (d_uid d) - 1) else s_byuser s)
                 (* only the incomplete branch re-checks the watches *)
                 (if c_active cn then s_watches s else watches_for L (s_nincomplete s - 1)),
         (if closed_by_bus then [(c, OClosed)] else []) ++ map conv ro ++ po)
  | _, _ => lfault s c
  end.

(* a request handled by the registry model; counters are untouched *)
Definition via_registry (L : limits) (s : state) (c : N) (e : RegTypes.event) : state * list lout :=
  let (b', ro) := Registry.step (reg L s) e in
  if existsb is_fault ro then lfault s c else (with_reg s b', map conv ro).

(* ---- one event ------------------------------------------------------------------------ *)
Definition lstep (L : limits) (s : state) (e : levent) : state * list lout :=
  match e with
  | Connect uid =>
      (* the listening sockets are polled only while context->watches_enabled; that flag is what
         bus_context_check_all_watches computed the last time it ran *)
      if negb (s_watches s) then (s, [(s_next s, ONotAccepted)])
      (* new_connection_callback -> bus_connections_setup_connection: n_incomplete += 1,
         _dbus_assert (n_incomplete <= max_incomplete_connections), bus_context_check_all_watches *)
      else if max_incomplete_connections L <? s_nincomplete s + 1 then (s, [(s_next s, OAbort)])
      else
        let (b', _) := Registry.step (reg L s) EvConnect in
        (mkState (b_conns b') (b_services b') (b_next b')
                 (s_cdata s ++ [mkCd (s_next s) uid 0 false (loader_max L)]) (s_rules s) (s_pending s)
                 (s_ncomplete s) (s_nincomplete s + 1) (s_byuser s)
                 (watches_for L (s_nincomplete s + 1)),
         [(s_next s, OAccepted)])
  | Auth c =>
      match find_cd (s_cdata s) c with
      | Some d =>
          if d_auth d then lfault s c                                 (* after BEGIN the stream carries messages *)
          else (with_rules s (upd_cd (s_cdata s) c (fun x => mkCd (d_id x) (d_uid x) (d_nrules x) true (d_maxmsg x))) (s_rules s),
                [(c, OAuthOk)])
      | None => lfault s c
      end
  | Hello c =>
      match find_conn (s_conns s) c, find_cd (s_cdata s) c with
      | Some cn, Some d =>
          if negb (d_auth d) then lfault s c                          (* no message can be sent before BEGIN *)
          else if c_active cn then (s, [(c, OErr LFailed)])            (* "Already handled an Hello message" *)
          (* bus_connections_check_limits *)
          else if max_completed_connections L <=? s_ncomplete s then (s, [(c, OErr LLimitsExceeded)])
          else if max_connections_per_user L <=? get_uid (s_byuser s) (d_uid d) then (s, [(c, OErr LLimitsExceeded)])
          else
            (* bus_connection_complete, welcome message, bus_registry_ensure *)
            let (b', ro) := Registry.step (reg L s) (EvHello c) in
            if existsb is_fault ro then lfault s c
            else
              (mkState (b_conns b') (b_services b') (b_next b') (s_cdata s) (s_rules s) (s_pending s)
                       (s_ncomplete s + 1) (s_nincomplete s - 1)
                       (set_uid (s_byuser s) (d_uid d) (get_uid (s_byuser s) (d_uid d) + 1))
                       (watches_for L (s_nincomplete s - 1)),
               map conv ro)
      | _, _ => lfault s c
      end
  | Disconnect c => disconnect L s c false
  | RequestName c name flags => via_registry L s c (EvRequest c name flags)
  | ReleaseName c name => via_registry L s c (EvRelease c name)
  | AddMatch c rule =>
      match find_conn (s_conns s) c, find_cd (s_cdata s) c with
      | Some cn, Some d =>
          if negb (c_active cn) then (s, [(c, OErr LAccessDenied)])
          else if max_match_rules_per_connection L <=? d_nrules d then (s, [(c, OErr LLimitsExceeded)])
          else match rule with
               | None => (s, [(c, OErr LMatchRuleInvalid)])
               | Some r =>
                   (with_rules s (upd_cd (s_cdata s) c (fun x => mkCd (d_id x) (d_uid x) (d_nrules x + 1) (d_auth x) (d_maxmsg x)))
                                 ((c, r) :: s_rules s),
                    [(c, OAck)])
               end
      | _, _ => lfault s c
      end
  | RemoveMatch c rule =>
      match find_conn (s_conns s) c, find_cd (s_cdata s) c with
      | Some cn, Some d =>
          if negb (c_active cn) then (s, [(c, OErr LAccessDenied)])
          else match rule with
               | None => (s, [(c, OErr LMatchRuleInvalid)])
               | Some r =>
                   match remove_rule (s_rules s) c r with
                   | None => (s, [(c, OErr LMatchRuleNotFound)])
                   | Some rl =>
                       (with_rules s (upd_cd (s_cdata s) c (fun x => mkCd (d_id x) (d_uid x) (d_nrules x - 1) (d_auth x) (d_maxmsg x))) rl,
                        [(c, OAck)])
                   end
               end
      | _, _ => lfault s c
      end
  | Call c d serial noreply rserial =>
      match find_conn (s_conns s) c with
      | None => lfault s c
      | Some cn =>
          if negb (c_active cn) then disconnect L s c true            (* "Received message from non-registered client" *)
          else if negb (is_active s d) then (s, [(c, OErr LServiceUnknown)])
          else
            (* bus_context_check_security_policy: a message with a REPLY_SERIAL first goes through
               bus_connections_check_reply (receiver d, sender c), which unlinks a matching entry;
               nothing restores it if the message is refused further down *)
            let pl := if rserial =? 0 then s_pending s else check_reply (s_pending s) d c rserial in
            if noreply then (with_pending s pl, [(d, OCall c serial)])
            else
              (* bus_connections_expect_reply *)
              match expect_scan pl c d serial 0 with
              | None => (with_pending s pl, [(c, OErr LAccessDenied)])
              | Some count =>
                  if max_replies_per_connection L <=? count then (with_pending s pl, [(c, OErr LLimitsExceeded)])
                  else (with_pending s (mkPend c d serial :: pl), [(d, OCall c serial)])
              end
      end
  | Reply d c serial =>
      match find_conn (s_conns s) d with
      | None => lfault s d
      | Some dn =>
          if negb (c_active dn) then disconnect L s d true
          else if negb (is_active s c) then (s, [(d, OErr LServiceUnknown)])
          else
            (* bus_connections_check_reply consumes the slot if there is one; the permissive
               policy lets the message through either way *)
            (with_pending s (check_reply (s_pending s) c d serial), [(c, OReply d serial)])
      end
  | ReplyTimeout c serial =>
      match expire_one (s_pending s) c serial with
      | None => (s, [])
      | Some pl => (with_pending s pl, [(c, ONoReply serial)])
      end
  | Emit c tag =>
      match find_conn (s_conns s) c with
      | None => lfault s c
      | Some cn =>
          if negb (c_active cn) then disconnect L s c true
          else (s, map (fun r => (r, OSignal c tag)) (recipients s tag))
      end
  | Message c hdr =>
      match find_conn (s_conns s) c, find_cd (s_cdata s) c with
      | Some cn, Some d =>
          (* the loader marks itself corrupted, the transport disconnects; the maximum is the one the
             connection was given when it was accepted *)
          if too_long_at (d_maxmsg d) hdr then disconnect L s c true else (s, [])
      | _, _ => lfault s c
      end
  end.

Fixpoint lrun (L : limits) (s : state) (h : list levent) : state * list (list lout) :=
  match h with
  | [] => (s, [])
  | e :: r => let (s1, o) := lstep L s e in let (s2, os) := lrun L s1 r in (s2, o :: os)
  end.

(* ListQueuedOwners as the driver answers it (for the check's probes) *)
Definition queued_owners (L : limits) (s : state) (a : qarg) : option (list who) :=
  list_queued_owners (reg L s) a.

(* ---- configuration reloads ------------------------------------------------------------
   bus_context_reload_config (SIGHUP or the driver's ReloadConfig) ->
   process_config_every_time: context->limits is overwritten; then (since /repo 577eae6)
   bus_context_check_all_watches re-evaluates whether the listening sockets are polled.
   Nothing else that the limits touch is revisited (no
   dbus_connection_set_max_message_size on existing connections, no connection closed). *)
Definition with_watches (s : state) (w : bool) : state :=
  mkState (s_conns s) (s_services s) (s_next s) (s_cdata s) (s_rules s) (s_pending s)
          (s_ncomplete s) (s_nincomplete s) (s_byuser s) w.

Inductive citem := Ev (e : levent) | Reload (L' : limits).

Definition cstep (cs : limits * state) (i : citem) : (limits * state) * list lout :=
  match i with
  | Ev e => let (s', o) := lstep (fst cs) (snd cs) e in ((fst cs, s'), o)
  | Reload L' => ((L', with_watches (snd cs) (watches_for L' (s_nincomplete (snd cs)))), [])
  end.

Fixpoint crun (cs : limits * state) (h : list citem) : (limits * state) * list (list lout) :=
  match h with
  | [] => (cs, [])
  | i :: r => let (cs1, o) := cstep cs i in let (cs2, os) := crun cs1 r in (cs2, o :: os)
  end.
