(* Executable model of the places where the bus applies the policy: the central
   gate bus_context_check_security_policy (bus/bus.c) and its callers in
   bus/dispatch.c (bus_dispatch, bus_dispatch_matches, send_one_message),
   bus/connection.c (bus_transaction_send_from_driver, the pending-reply list)
   and bus/services.c (bus_registry_acquire_service), driven by a script of
   operations.  No proofs here.

   C function                                definition here
   ----------------------------------------  ------------------------------
   bus_connections_check_reply               [check_reply]
   bus_connections_expect_reply              inside [gate] (duplicate serial = refusal)
   bus_context_check_security_policy         [gate]  (SELinux/AppArmor absent, queue limits not reached)
   bus_transaction_send_from_driver          [from_driver]
   bus_transaction_send_error_reply          [error_reply]
   send_one_message / bus_dispatch_matches   [dispatch_matches]
   bus_dispatch                              [do_send]
   bus_driver_handle_hello                   [do_connect]  (+ allow_unix_user_function: a refused connection is closed)
   bus_driver_handle_reload_config, bus_context_reload_config,
   process_config_every_time, bus_connections_reload_policy   [do_reload], [reload_conn]
   create_unique_client_name                 [unique_name]
   bus_registry_acquire_service (flags = 0)  [request_name]
   bus_driver_handle_add_match               [add_match] (two fixed rules: "type='signal'" and "eavesdrop='true'")

   What a client can observe is a list of deliveries (connection, what). *)
From DV Require Import Lib.Base Gen.Tables Gen.PolicyTables Wire.Names Policy.Policy Policy.PolicyConfig.
Local Open Scope N_scope.

Record conn := mkConn {
  c_alive : bool;          (* false: the connection was refused by the user=/group= rules and closed *)
  c_uid : N;               (* authenticated unix user *)
  c_gids : list N;         (* groups of the credentials (SO_PEERGROUPS, sorted) *)
  c_atc : bool;            (* at console *)
  c_rules : list rule;     (* BusConnectionData.policy: fixed at Hello *)
  c_name : bytes;          (* unique name *)
  c_sig : bool;            (* has the match rule "type='signal'" *)
  c_eav : bool             (* has the match rule "eavesdrop='true'" *)
}.

Definition pending := (N * N * N)%type.  (* will_get_reply, will_send_reply, reply_serial *)

Record bus := mkBus {
  b_policy : policy;
  b_conns : list conn;
  b_reg : registry;
  b_pending : list pending;
  b_files : cfg_items;     (* the configuration files as they are on disk now (what a reload will read) *)
  b_next : N               (* next unique-name number *)
}.

Inductive what :=
| WProbe                          (* the message that was sent, as is *)
| WError (name : bytes)           (* an error reply from the bus driver *)
| WReturn (v : option N)          (* a method return from the bus driver (RequestName carries a number) *)
| WSignal (member arg : bytes)    (* NameAcquired / NameOwnerChanged from the bus driver, first argument *)
| WRefused.                       (* the connection is closed by the bus after authentication *)

Definition delivery := (N * what)%type.

Definition get_conn (b : bus) (i : N) : option conn := nth_error (b_conns b) (N.to_nat i).
Definition rules_of (b : bus) (i : N) : list rule := match get_conn b i with Some c => c_rules c | None => [] end.
Definition name_of (b : bus) (i : N) : bytes := match get_conn b i with Some c => c_name c | None => [] end.

Definition pending_eqb (p : pending) (get send serial : N) : bool :=
  let '(g, s, n) := p in (n =? serial) && (g =? get) && (s =? send).

(* bus_connections_check_reply: the first matching entry is found and unlinked *)
Fixpoint check_reply (pend : list pending) (sending receiving serial : N) : bool * list pending :=
  match pend with
  | [] => (false, [])
  | p :: t => if pending_eqb p receiving sending serial then (true, t)
              else let '(f, t') := check_reply t sending receiving serial in (f, p :: t')
  end.

Definition known_type (t : N) : bool :=
  (t =? DBUS_MESSAGE_TYPE_METHOD_CALL) || (t =? DBUS_MESSAGE_TYPE_METHOD_RETURN) || (t =? DBUS_MESSAGE_TYPE_ERROR) || (t =? DBUS_MESSAGE_TYPE_SIGNAL).

Inductive verdict := VAllow | VUnknownType | VDenySend | VDenyRecv | VDupSerial.
Definition verdict_ok (v : verdict) : bool := match v with VAllow => true | _ => false end.

(* bus_context_check_security_policy for active senders/recipients.  Returns the
   verdict and the pending-reply list afterwards (a reply that is looked up is
   consumed even when the policy then rejects the message). *)
Definition gate (b : bus) (sender addressed proposed : option N) (m : msg) : verdict * list pending :=
  if negb (known_type (m_type m)) then (VUnknownType, b_pending b) else
  let '(rr, pend) :=
    match sender with
    | Some s =>
        if negb (m_reply_serial m =? 0) && is_some proposed && optN_eqb addressed proposed then
          match proposed with
          | Some p => check_reply (b_pending b) s p (m_reply_serial m)
          | None => (false, b_pending b)
          end
        else (false, b_pending b)
    | None => (optN_eqb addressed proposed && negb (m_reply_serial m =? 0), b_pending b)
    end in
  let send_ok := match sender with
                 | Some s => check_can_send (rules_of b s) rr proposed (b_reg b) m
                 | None => true
                 end in
  if negb send_ok then (VDenySend, pend) else
  let recv_ok := match proposed with
                 | Some p => check_can_receive (rules_of b p) (b_reg b) rr sender addressed proposed m
                 | None => true
                 end in
  if negb recv_ok then (VDenyRecv, pend) else
  match sender, addressed with
  | Some s, Some a =>
      if (m_type m =? DBUS_MESSAGE_TYPE_METHOD_CALL) && optN_eqb addressed proposed then
        if m_no_reply m then (VAllow, pend)
        else if existsb (fun p => pending_eqb p s a (m_serial m)) pend then (VDupSerial, pend)
        else (VAllow, pend ++ [(s, a, m_serial m)])
      else (VAllow, pend)
  | _, _ => (VAllow, pend)
  end.

Definition set_pending (b : bus) (p : list pending) : bus := mkBus (b_policy b) (b_conns b) (b_reg b) p (b_files b) (b_next b).

(* messages that originate from the bus driver *)
Definition driver_msg (ty : N) (path iface member error dest : option bytes) (reply_serial : N) : msg :=
  mkMsg ty path iface member error dest (Some DBUS_SERVICE_DBUS_str) reply_serial 0 0 true.

(* bus_transaction_send_from_driver to an active connection: silently eaten when the recipient's policy refuses it *)
Definition from_driver (b : bus) (c : N) (m : msg) (w : what) : list delivery :=
  if verdict_ok (fst (gate b None (Some c) (Some c) m)) then [(c, w)] else [].

Definition error_msg (b : bus) (s : N) (errname : bytes) (orig : msg) : msg :=
  driver_msg DBUS_MESSAGE_TYPE_ERROR None None None (Some errname) (Some (name_of b s)) (m_serial orig).

(* bus_transaction_send_error_reply *)
Definition error_reply (b : bus) (s : N) (errname : bytes) (orig : msg) : list delivery :=
  from_driver b s (error_msg b s errname orig) (WError errname).

Definition return_msg (b : bus) (s : N) (orig : msg) : msg :=
  driver_msg DBUS_MESSAGE_TYPE_METHOD_RETURN None None None None (Some (name_of b s)) (m_serial orig).

Definition s_NameAcquired : bytes := [78; 97; 109; 101; 65; 99; 113; 117; 105; 114; 101; 100].
Definition s_NameOwnerChanged : bytes := [78; 97; 109; 101; 79; 119; 110; 101; 114; 67; 104; 97; 110; 103; 101; 100].
Definition s_RequestName : bytes := [82; 101; 113; 117; 101; 115; 116; 78; 97; 109; 101].
Definition s_AddMatch : bytes := [65; 100; 100; 77; 97; 116; 99; 104].
Definition s_GetId : bytes := [71; 101; 116; 73; 100].
Definition s_err_other : bytes := [111; 116; 104; 101; 114].
Definition s_match_signal : bytes := [116; 121; 112; 101; 61; 39; 115; 105; 103; 110; 97; 108; 39].                  (* "type='signal'" *)
Definition s_match_eavesdrop : bytes := [101; 97; 118; 101; 115; 100; 114; 111; 112; 61; 39; 116; 114; 117; 101; 39]. (* "eavesdrop='true'" *)

Definition driver_signal (member : bytes) (dest : option bytes) : msg :=
  driver_msg DBUS_MESSAGE_TYPE_SIGNAL (Some DBUS_PATH_DBUS_str) (Some DBUS_INTERFACE_DBUS_str) (Some member) None dest 0.

Definition conn_ids (b : bus) : list N := map N.of_nat (seq 0 (length (b_conns b))).

Definition wants (b : bus) (c : N) (eavesdrop_only : bool) : bool :=
  match get_conn b c with
  | Some k => if eavesdrop_only then c_eav k else c_sig k || c_eav k
  | None => false
  end.

(* bus_driver_send_service_owner_changed: bus_dispatch_matches (sender = NULL, addressed = NULL) *)
Definition name_owner_changed (b : bus) (name : bytes) : list delivery :=
  let m := driver_signal s_NameOwnerChanged None in
  flat_map (fun c => if wants b c false && verdict_ok (fst (gate b None None (Some c) m))
                     then [(c, WSignal s_NameOwnerChanged name)] else []) (conn_ids b).

(* bus_driver_send_service_acquired *)
Definition name_acquired (b : bus) (c : N) (name : bytes) : list delivery :=
  from_driver b c (driver_signal s_NameAcquired (Some (name_of b c))) (WSignal s_NameAcquired name).

(* bus_dispatch_matches for a message sent by client [s] *)
Definition dispatch_matches (b : bus) (s : N) (addressed : option N) (m : msg) : bus * list delivery :=
  match addressed with
  | Some a =>
      let '(v, pend) := gate b (Some s) (Some a) (Some a) m in
      let b1 := set_pending b pend in
      if verdict_ok v then
        (b1, (a, WProbe) ::
             flat_map (fun c => if negb (c =? a) && wants b1 c true && verdict_ok (fst (gate b1 (Some s) (Some a) (Some c) m))
                                then [(c, WProbe)] else []) (conn_ids b1))
      else (b1, error_reply b1 s DBUS_ERROR_ACCESS_DENIED_str m)
  | None =>
      (* a broadcast goes to everybody with a matching rule; a message that the bus driver has handled
         (destination org.freedesktop.DBus) only to eavesdroppers *)
      (b, flat_map (fun c => if wants b c (is_some (m_dest m)) && verdict_ok (fst (gate b (Some s) None (Some c) m))
                             then [(c, WProbe)] else []) (conn_ids b))
  end.

Fixpoint reg_set (reg : registry) (name : bytes) (q : list N) : registry :=
  match reg with
  | [] => [(name, q)]
  | (n, q0) :: t => if bytes_eqb n name then (n, q) :: t else (n, q0) :: reg_set t name q
  end.

Definition set_reg (b : bus) (r : registry) : bus := mkBus (b_policy b) (b_conns b) r (b_pending b) (b_files b) (b_next b).
Definition set_conns (b : bus) (l : list conn) : bus := mkBus (b_policy b) l (b_reg b) (b_pending b) (b_files b) (b_next b).

Inductive step_result :=
| Fault (why : N)                               (* 1 = no such connection, 2 = own rule with prefix and no name, 3 = not modelled *)
| Done (b : bus) (out : list delivery).

(* result of a bus-driver method: [HErr] = the handler returned an error (which bus_dispatch turns into an error reply) *)
Inductive handled :=
| HFault (why : N)
| HOk (b : bus) (out : list delivery)
| HErr (b : bus) (out : list delivery).

(* bus_driver_handle_request_name + bus_registry_acquire_service with flags = 0;
   max_names_per_connection is assumed not to be reached *)
Definition request_name (b : bus) (s : N) (name : bytes) (m : msg) : handled :=
  if negb (validate_bus_name name) then HErr b (error_reply b s DBUS_ERROR_INVALID_ARGS_str m) else
  if match name with 58 :: _ => true | _ => false end then HErr b (error_reply b s DBUS_ERROR_INVALID_ARGS_str m) else
  if bytes_eqb name DBUS_SERVICE_DBUS_str then HErr b (error_reply b s DBUS_ERROR_INVALID_ARGS_str m) else
  match check_can_own (rules_of b s) name with
  | None => HFault 2
  | Some false => HErr b (error_reply b s DBUS_ERROR_ACCESS_DENIED_str m)
  | Some true =>
      match reg_lookup (b_reg b) name with
      | None | Some [] =>
          let b1 := set_reg b (reg_set (b_reg b) name [s]) in
          HOk b1 (name_acquired b1 s name ++ name_owner_changed b1 name ++
                   from_driver b1 s (return_msg b1 s m) (WReturn (Some DBUS_REQUEST_NAME_REPLY_PRIMARY_OWNER)))
      | Some (o :: q) =>
          if o =? s then HOk b (from_driver b s (return_msg b s m) (WReturn (Some DBUS_REQUEST_NAME_REPLY_ALREADY_OWNER)))
          else
            let q' := if in_queue s q then q else q ++ [s] in
            let b1 := set_reg b (reg_set (b_reg b) name (o :: q')) in
            HOk b1 (from_driver b1 s (return_msg b1 s m) (WReturn (Some DBUS_REQUEST_NAME_REPLY_IN_QUEUE)))
      end
  end.

Fixpoint set_nth {A} (l : list A) (n : nat) (x : A) : list A :=
  match l, n with
  | [], _ => []
  | _ :: t, O => x :: t
  | h :: t, S n' => h :: set_nth t n' x
  end.

Definition add_match (b : bus) (s : N) (rule_text : bytes) (m : msg) : handled :=
  match get_conn b s with
  | None => HFault 1
  | Some c =>
      if bytes_eqb rule_text s_match_signal then
        let b1 := set_conns b (set_nth (b_conns b) (N.to_nat s) (mkConn (c_alive c) (c_uid c) (c_gids c) (c_atc c) (c_rules c) (c_name c) true (c_eav c))) in
        HOk b1 (from_driver b1 s (return_msg b1 s m) (WReturn None))
      else if bytes_eqb rule_text s_match_eavesdrop then
        (* bus_driver_check_caller_is_privileged: only root (the daemon is assumed to run as root) may eavesdrop *)
        if negb (c_uid c =? 0) then HErr b (error_reply b s DBUS_ERROR_ACCESS_DENIED_str m) else
        let b1 := set_conns b (set_nth (b_conns b) (N.to_nat s) (mkConn (c_alive c) (c_uid c) (c_gids c) (c_atc c) (c_rules c) (c_name c) (c_sig c) true)) in
        HOk b1 (from_driver b1 s (return_msg b1 s m) (WReturn None))
      else HFault 3
  end.

Definition to_driver_iface_ok (m : msg) : bool :=
  obytes_is (m_path m) DBUS_PATH_DBUS_str &&
  match m_iface m with None => true | Some i => bytes_eqb i DBUS_INTERFACE_DBUS_str end.

(* what the daemon is started with, besides the configuration *)
Record env := mkEnv {
  e_mk : policy -> N -> list N -> bool -> list rule;   (* [create_client_policy] in the daemon; [client_rules] = documented semantics *)
  e_ru : name_resolver;                                 (* user database: name -> uid *)
  e_rg : name_resolver;                                 (* group database: name -> gid *)
  e_owner : N                                           (* uid the daemon runs as *)
}.

Definition s_ReloadConfig : bytes := [82; 101; 108; 111; 97; 100; 67; 111; 110; 102; 105; 103].

(* bus_connections_reload_policy: every completed connection gets a freshly built client policy *)
Definition reload_conn (e : env) (p : policy) (c : conn) : conn :=
  if c_alive c then mkConn true (c_uid c) (c_gids c) (c_atc c) (e_mk e p (c_uid c) (c_gids c) (c_atc c)) (c_name c) (c_sig c) (c_eav c)
  else c.

(* bus_driver_handle_reload_config -> bus_context_reload_config: the files are parsed again; on error nothing changes
   and the error goes back to the caller; on success the new bus-wide policy is installed and all client policies are
   rebuilt before the reply is sent.  Names, match rules and pending replies are not touched. *)
Definition do_reload (e : env) (b : bus) (s : N) (m : msg) : handled :=
  match load_config (e_ru e) (e_rg e) (b_files b) with
  | LErr absent => HErr b (error_reply b s (if absent then DBUS_ERROR_FILE_NOT_FOUND_str else DBUS_ERROR_FAILED_str) m)
  | LOk p =>
      let b1 := mkBus p (map (reload_conn e p) (b_conns b)) (b_reg b) (b_pending b) (b_files b) (b_next b) in
      HOk b1 (from_driver b1 s (return_msg b1 s m) (WReturn None))
  end.

(* bus_dispatch for a message from the active connection [s]; [arg] is the first (string) argument of the body *)
Definition do_send (e : env) (b : bus) (s : N) (m : msg) (arg : bytes) : step_result :=
  match get_conn b s with
  | None => Fault 1
  | Some cs =>
      if negb (c_alive cs) then Done b [] else
      match m_dest m with
      | Some d =>
          if bytes_eqb d DBUS_SERVICE_DBUS_str then
            let '(v, pend) := gate b (Some s) None None m in
            let b1 := set_pending b pend in
            if negb (verdict_ok v) then Done b1 (error_reply b1 s DBUS_ERROR_ACCESS_DENIED_str m)
            else
              (* bus_driver_handle_message; when it succeeds bus_dispatch goes on to bus_dispatch_matches with no
                 addressed recipient, so eavesdroppers see what was sent to the driver *)
              let h := if negb (m_type m =? DBUS_MESSAGE_TYPE_METHOD_CALL) then HOk b1 []
                       else if negb (to_driver_iface_ok m) then HFault 3
                       else if obytes_is (m_member m) s_RequestName then request_name b1 s arg m
                       else if obytes_is (m_member m) s_AddMatch then add_match b1 s arg m
                       else if obytes_is (m_member m) s_GetId then HOk b1 (from_driver b1 s (return_msg b1 s m) (WReturn None))
                       else if obytes_is (m_member m) s_ReloadConfig then do_reload e b1 s m
                       else HFault 3 in
              match h with
              | HFault k => Fault k
              | HErr b2 out => Done b2 out
              | HOk b2 out => let '(b3, out') := dispatch_matches b2 s None m in Done b3 (out ++ out')
              end
          else
            match reg_lookup (b_reg b) d with
            | None | Some [] => Done b (error_reply b s DBUS_ERROR_NAME_HAS_NO_OWNER_str m)
            | Some (a :: _) => let '(b1, out) := dispatch_matches b s (Some a) m in Done b1 out
            end
      | None =>
          if m_type m =? DBUS_MESSAGE_TYPE_SIGNAL
          then let '(b1, out) := dispatch_matches b s None m in Done b1 out
          else Fault 3   (* not routed by the bus: handled by the daemon's own DBusConnection *)
      end
  end.

(* create_unique_client_name: ":1.<n>" *)
Fixpoint dec_digits (fuel : nat) (n : N) (acc : bytes) : bytes :=
  match fuel with
  | O => acc
  | S f => let acc' := (48 + n mod 10) :: acc in if n <? 10 then acc' else dec_digits f (n / 10) acc'
  end.
Definition unique_name (n : N) : bytes := [58; 49; 46] ++ dec_digits 40 n [].

(* a new connection authenticates: allow_unix_user_function -> bus_policy_allow_unix_user decides whether it may stay;
   then Hello: bus_driver_handle_hello.  [db_groups]: the groups of [uid] in the user database (None: unknown uid) *)
Definition do_connect (e : env) (b : bus) (uid : N) (gids : list N) (at_console : bool) (db_groups : option (list N)) (hello_serial : N) : step_result :=
  let n := N.of_nat (length (b_conns b)) in
  if negb (allow_unix_user (b_policy b) (uid =? e_owner e) uid db_groups) then
    Done (set_conns b (b_conns b ++ [mkConn false uid gids at_console [] [] false false])) [(n, WRefused)]
  else
  let uname := unique_name (b_next b) in
  let c := mkConn true uid gids at_console (e_mk e (b_policy b) uid gids at_console) uname false false in
  let b1 := mkBus (b_policy b) (b_conns b ++ [c]) (reg_set (b_reg b) uname [n]) (b_pending b) (b_files b) (b_next b + 1) in
  let hello := mkMsg DBUS_MESSAGE_TYPE_METHOD_CALL (Some DBUS_PATH_DBUS_str) (Some DBUS_INTERFACE_DBUS_str) None None
                     (Some DBUS_SERVICE_DBUS_str) None 0 0 hello_serial false in
  Done b1 (from_driver b1 n (return_msg b1 n hello) (WReturn None) ++ name_acquired b1 n uname ++ name_owner_changed b1 uname).

Inductive op :=
| OConnect (uid : N) (gids : list N) (at_console : bool) (db_groups : option (list N)) (hello_serial : N)
| OSend (s : N) (m : msg) (arg : bytes)
| OWrite (files : cfg_items).     (* the administrator changes the configuration files; nothing happens until a reload *)

Definition step_with (e : env) (b : bus) (o : op) : step_result :=
  match o with
  | OConnect uid gids atc dbg hs => do_connect e b uid gids atc dbg hs
  | OSend s m arg => do_send e b s m arg
  | OWrite files => Done (mkBus (b_policy b) (b_conns b) (b_reg b) (b_pending b) files (b_next b)) []
  end.

Definition daemon_env (ru rg : name_resolver) : env := mkEnv create_client_policy ru rg 0.
Definition step (ru rg : name_resolver) (b : bus) (o : op) : step_result := step_with (daemon_env ru rg) b o.

(* start of the daemon on a configuration tree *)
Definition bus_start (e : env) (files : cfg_items) : option bus :=
  match load_config (e_ru e) (e_rg e) files with
  | LErr _ => None
  | LOk p => Some (mkBus p [] [] [] files 0)
  end.

(* run a script; the result is one delivery list per operation *)
Fixpoint run (e : env) (b : bus) (ops : list op) : option (list (list delivery)) :=
  match ops with
  | [] => Some []
  | o :: t =>
      match step_with e b o with
      | Fault _ => None
      | Done b1 out => match run e b1 t with Some r => Some (out :: r) | None => None end
      end
  end.
