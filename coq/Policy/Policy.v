(* Executable model of bus/policy.c (dbus 1.13.18) and of the attribute -> rule
   mapping of bus/config-parser.c:append_rule_from_element.  No proofs here.

   C function                               definition here
   ---------------------------------------  --------------------------------
   struct BusPolicyRule (+ its union)       [rule]
   bus_policy_rule_new                      [rule_new]
   append_rule_from_element                 [rule_from_element]  (attributes -> rule, "*" = absent)
   start of <policy> + bus_policy_append_*  [pctx], [policy_add], [load_policy]
   list_allows_user / bus_policy_allow_unix_user  [list_allows_user], [allow_unix_user]
   append_copy_of_policy_list / merge_id_hash / bus_policy_merge  [merge_alist], [policy_merge]
   bus_policy_create_client_policy          [create_client_policy]
   remove_rules_by_type_up_to               [remove_by_kind]
   bus_client_policy_optimize               [optimize_with], [optimize]  (condition from Gen/PolicyTables.v)
   bus_client_policy_check_can_send         [send_rule_applies], [check_can_send]
   bus_client_policy_check_can_receive      [recv_rule_applies], [check_can_receive]
   bus_rules_check_can_own                  [own_rule_applies], [check_can_own]
   _dbus_string_starts_with_words_c_str     [starts_with_words]   (separator '.')
   bus_service_owner_in_queue               [owner_in_queue]
   bus_connection_is_queued_owner_by_prefix [queued_owner_by_prefix]

   Abstractions: a DBusConnection* is a number (the index of the connection);
   the registry is an association list name -> owner queue (primary owner
   first, unique names included, as in BusRegistry); a message is the record of
   the header fields the policy code reads.  C strings are byte lists; NULL is
   [None]. *)
From DV Require Import Lib.Base Gen.Tables Gen.PolicyTables.
From Coq Require Import ZArith.
Local Open Scope N_scope.

(* ---------------------------------------------------------------- rules *)
Inductive rkind := KSend | KRecv | KOwn.   (* BUS_POLICY_RULE_SEND / _RECEIVE / _OWN; USER and GROUP rules never reach a client policy *)
Definition rkind_eqb (a b : rkind) : bool :=
  match a, b with KSend, KSend | KRecv, KRecv | KOwn, KOwn => true | _, _ => false end.

Inductive tristate := TAny | TFalse | TTrue. (* BusPolicyTristate *)

Record rule := mkRule {
  r_kind : rkind;
  r_allow : bool;
  r_mtype : N;                 (* message_type; DBUS_MESSAGE_TYPE_INVALID = any *)
  r_path : option bytes;
  r_iface : option bytes;
  r_member : option bytes;
  r_error : option bytes;
  r_name : option bytes;       (* send.destination / receive.origin / own.service_name *)
  r_max_fds : N;
  r_min_fds : N;
  r_eavesdrop : bool;
  r_reqreply : bool;
  r_log : bool;                (* send only *)
  r_broadcast : tristate;      (* send only *)
  r_prefix : bool              (* send.destination_is_prefix / own.prefix *)
}.

(* bus_policy_rule_new: dbus_new0 + per-type defaults *)
Definition rule_new (k : rkind) (allow : bool) : rule :=
  mkRule k allow DBUS_MESSAGE_TYPE_INVALID None None None None None 0 0 false
         (match k with KSend => rule_new_reqreply_send allow | KRecv => rule_new_reqreply_recv allow | KOwn => false end)
         false TAny false.

(* ---------------------------------------------------------------- messages and registry *)
Record msg := mkMsg {
  m_type : N;
  m_path : option bytes;
  m_iface : option bytes;
  m_member : option bytes;
  m_error : option bytes;
  m_dest : option bytes;
  m_sender : option bytes;     (* only read for messages that originate from the bus driver *)
  m_reply_serial : N;          (* 0 = no REPLY_SERIAL header field *)
  m_nfds : N;
  m_serial : N;
  m_no_reply : bool
}.

Definition registry := list (bytes * list N).

Fixpoint reg_lookup (reg : registry) (name : bytes) : option (list N) :=
  match reg with
  | [] => None
  | (n, q) :: t => if bytes_eqb n name then Some q else reg_lookup t name
  end.

Definition in_queue (c : N) (q : list N) : bool := existsb (N.eqb c) q.

Definition owner_in_queue (reg : registry) (name : bytes) (c : N) : bool :=
  match reg_lookup reg name with Some q => in_queue c q | None => false end.

(* _dbus_string_starts_with_words_c_str (s, p, '.') *)
Fixpoint starts_with_words (s p : bytes) : bool :=
  match p with
  | [] => match s with [] => true | c :: _ => c =? 46 end
  | x :: p' => match s with [] => false | y :: s' => (y =? x) && starts_with_words s' p' end
  end.

Definition queued_owner_by_prefix (reg : registry) (c : N) (p : bytes) : bool :=
  existsb (fun e => in_queue c (snd e) && starts_with_words (fst e) p) reg.

Definition is_some {A} (o : option A) : bool := match o with Some _ => true | None => false end.
Definition optN_eqb (a b : option N) : bool :=
  match a, b with Some x, Some y => x =? y | None, None => true | _, _ => false end.
Definition obytes_is (o : option bytes) (s : bytes) : bool :=
  match o with Some x => bytes_eqb x s | None => false end.

(* `if (rule->f != NULL) { if (msg_f != NULL && strcmp (msg_f, rule->f) != 0) continue; }` *)
Definition field_skips (rf mf : option bytes) : bool :=
  match rf with
  | None => false
  | Some x => match mf with None => false | Some y => negb (bytes_eqb y x) end
  end.

(* the interface test: allow rules skip messages without interface *)
Definition iface_skips (allow : bool) (rf mf : option bytes) : bool :=
  match rf with
  | None => false
  | Some x => match mf with None => allow | Some y => negb (bytes_eqb y x) end
  end.

Definition fds_skips (r : rule) (m : msg) : bool :=
  if (0 <? r_min_fds r) || (r_max_fds r <? DBUS_MAXIMUM_MESSAGE_UNIX_FDS)
  then (m_nfds m <? r_min_fds r) || (r_max_fds r <? m_nfds m)
  else false.

Definition reply_skips (r : rule) (requested_reply : bool) (m : msg) : bool :=
  if m_reply_serial m =? 0 then false
  else (negb requested_reply && r_allow r && r_reqreply r && negb (r_eavesdrop r))
       || (requested_reply && negb (r_allow r) && negb (r_reqreply r)).

Definition is_broadcast (m : msg) : bool :=
  negb (is_some (m_dest m)) && (m_type m =? DBUS_MESSAGE_TYPE_SIGNAL).

Definition broadcast_skips (r : rule) (m : msg) : bool :=
  match r_broadcast r with
  | TAny => false
  | TFalse => is_broadcast m
  | TTrue => negb (is_broadcast m)
  end.

(* the two destination blocks of check_can_send *)
Definition dest_skips (r : rule) (receiver : option N) (reg : registry) (m : msg) : bool :=
  match r_name r with
  | None => false
  | Some d =>
      if r_prefix r then
        match receiver with
        | None => match m_dest m with None => true | Some dn => negb (starts_with_words dn d) end
        | Some c => negb (queued_owner_by_prefix reg c d)
        end
      else
        match receiver with
        | None => negb (obytes_is (m_dest m) d)
        | Some c => negb (owner_in_queue reg d c)
        end
  end.

(* body of the loop of bus_client_policy_check_can_send: true = "use this rule" *)
Definition send_rule_applies (r : rule) (requested_reply : bool) (receiver : option N) (reg : registry) (m : msg) : bool :=
  match r_kind r with
  | KSend =>
      if negb (r_mtype r =? DBUS_MESSAGE_TYPE_INVALID) && negb (m_type m =? r_mtype r) then false else
      if reply_skips r requested_reply m then false else
      if field_skips (r_path r) (m_path m) then false else
      if iface_skips (r_allow r) (r_iface r) (m_iface m) then false else
      if field_skips (r_member r) (m_member m) then false else
      if field_skips (r_error r) (m_error m) then false else
      if broadcast_skips r m then false else
      if dest_skips r receiver reg m then false else
      if fds_skips r m then false else true
  | _ => false
  end.

Definition check_can_send (rules : list rule) (requested_reply : bool) (receiver : option N) (reg : registry) (m : msg) : bool :=
  fold_left (fun allowed r => if send_rule_applies r requested_reply receiver reg m then r_allow r else allowed) rules false.

(* number of rules used, as reported in the rejection text ("N matched rules") *)
Definition send_toggles (rules : list rule) (requested_reply : bool) (receiver : option N) (reg : registry) (m : msg) : N :=
  fold_left (fun n r => if send_rule_applies r requested_reply receiver reg m then n + 1 else n) rules 0.

Definition origin_skips (r : rule) (sender : option N) (reg : registry) (m : msg) : bool :=
  match r_name r with
  | None => false
  | Some o =>
      match sender with
      | None => negb (obytes_is (m_sender m) o)
      | Some s => negb (owner_in_queue reg o s)
      end
  end.

Definition is_eavesdropping (addressed proposed : option N) (m : msg) : bool :=
  negb (optN_eqb addressed proposed) && is_some (m_dest m).

Definition recv_rule_applies (r : rule) (requested_reply eavesdropping : bool) (sender : option N) (reg : registry) (m : msg) : bool :=
  match r_kind r with
  | KRecv =>
      if negb (r_mtype r =? DBUS_MESSAGE_TYPE_INVALID) && negb (m_type m =? r_mtype r) then false else
      if eavesdropping && r_allow r && negb (r_eavesdrop r) then false else
      if negb eavesdropping && negb (r_allow r) && r_eavesdrop r then false else
      if reply_skips r requested_reply m then false else
      if field_skips (r_path r) (m_path m) then false else
      if iface_skips (r_allow r) (r_iface r) (m_iface m) then false else
      if field_skips (r_member r) (m_member m) then false else
      if field_skips (r_error r) (m_error m) then false else
      if origin_skips r sender reg m then false else
      if fds_skips r m then false else true
  | _ => false
  end.

Definition check_can_receive (rules : list rule) (reg : registry) (requested_reply : bool)
           (sender addressed proposed : option N) (m : msg) : bool :=
  let eav := is_eavesdropping addressed proposed m in
  fold_left (fun allowed r => if recv_rule_applies r requested_reply eav sender reg m then r_allow r else allowed) rules false.

(* bus_rules_check_can_own.  [None] is the fault: a prefix rule without a name
   would hand NULL to _dbus_string_starts_with_words_c_str (its assertion fails). *)
Definition own_rule_applies (r : rule) (name : bytes) : option bool :=
  match r_kind r with
  | KOwn =>
      if negb (r_prefix r) && is_some (r_name r) then
        Some (obytes_is (r_name r) name)
      else if r_prefix r then
        match r_name r with None => None | Some p => Some (starts_with_words name p) end
      else Some true
  | _ => Some false
  end.

Fixpoint check_can_own_from (allowed : bool) (rules : list rule) (name : bytes) : option bool :=
  match rules with
  | [] => Some allowed
  | r :: t =>
      match own_rule_applies r name with
      | None => None
      | Some true => check_can_own_from (r_allow r) t name
      | Some false => check_can_own_from allowed t name
      end
  end.

Definition check_can_own (rules : list rule) (name : bytes) : option bool := check_can_own_from false rules name.

(* ---------------------------------------------------------------- optimiser *)
(* the atoms a catch-all condition can be made of (see Gen/PolicyTables.v) *)
Definition atom_type (r : rule) := match r_kind r with KOwn => true | _ => r_mtype r =? DBUS_MESSAGE_TYPE_INVALID end.
Definition atom_path (r : rule) := match r_kind r with KOwn => true | _ => negb (is_some (r_path r)) end.
Definition atom_iface (r : rule) := match r_kind r with KOwn => true | _ => negb (is_some (r_iface r)) end.
Definition atom_member (r : rule) := match r_kind r with KOwn => true | _ => negb (is_some (r_member r)) end.
Definition atom_error (r : rule) := match r_kind r with KOwn => true | _ => negb (is_some (r_error r)) end.
Definition atom_name (r : rule) := negb (is_some (r_name r)).
Definition atom_bcast (r : rule) := match r_kind r with KSend => match r_broadcast r with TAny => true | _ => false end | _ => true end.
Definition atom_minfds (r : rule) := match r_kind r with KOwn => true | _ => r_min_fds r =? 0 end.
Definition atom_maxfds (r : rule) := match r_kind r with KOwn => true | _ => DBUS_MAXIMUM_MESSAGE_UNIX_FDS <=? r_max_fds r end.
Definition atom_reply (r : rule) :=
  match r_kind r with KOwn => true | _ => if r_allow r then negb (r_reqreply r) || r_eavesdrop r else r_reqreply r end.
Definition atom_eaves (r : rule) :=
  match r_kind r with KOwn => true | _ => if r_allow r then r_eavesdrop r else negb (r_eavesdrop r) end.
Definition atom_noprefix (r : rule) := match r_kind r with KRecv => true | _ => negb (r_prefix r) end.

Definition mask_holds (k : catchall_mask) (r : rule) : bool :=
  implb (cm_type k) (atom_type r) && implb (cm_path k) (atom_path r) && implb (cm_iface k) (atom_iface r) &&
  implb (cm_member k) (atom_member r) && implb (cm_error k) (atom_error r) && implb (cm_name k) (atom_name r) &&
  implb (cm_bcast k) (atom_bcast r) && implb (cm_minfds k) (atom_minfds r) && implb (cm_maxfds k) (atom_maxfds r) &&
  implb (cm_reply k) (atom_reply r) && implb (cm_eaves k) (atom_eaves r) && implb (cm_noprefix k) (atom_noprefix r).

(* the condition `remove_preceding` of bus_client_policy_optimize, as regenerated from the C source *)
Definition catch_all_c (r : rule) : bool :=
  mask_holds (match r_kind r with KSend => opt_mask_send | KRecv => opt_mask_recv | KOwn => opt_mask_own end) r.

(* remove_rules_by_type_up_to: drop every rule of that type from the part of the list before the link *)
Definition remove_by_kind (k : rkind) (before : list rule) : list rule :=
  filter (fun x => negb (rkind_eqb (r_kind x) k)) before.

(* bus_client_policy_optimize: walk the links; [before] is the (already pruned) part of the list before the current link *)
Fixpoint optimize_loop (catch_all : rule -> bool) (before rest : list rule) : list rule :=
  match rest with
  | [] => before
  | r :: t =>
      let before' := if catch_all r then remove_by_kind (r_kind r) before else before in
      optimize_loop catch_all (before' ++ [r]) t
  end.

Definition optimize_with (catch_all : rule -> bool) (rules : list rule) : list rule := optimize_loop catch_all [] rules.
Definition optimize (rules : list rule) : list rule := optimize_with catch_all_c rules.

(* ---------------------------------------------------------------- bus-wide policy *)
(* a user= / group= rule (BUS_POLICY_RULE_USER / _GROUP): decides whether a connection may stay.  In C these sit in
   the same default / mandatory lists as the other rules; the two readers of those lists (list_allows_user and
   add_list_to_client) each skip the other's rule types, so they are kept in lists of their own here. *)
Record conn_rule := mkConnRule {
  cr_allow : bool;
  cr_group : bool;          (* GROUP rule (else USER rule) *)
  cr_id : option N          (* DBUS_UID_UNSET / DBUS_GID_UNSET ("*") = None *)
}.

Record policy := mkPolicy {
  p_default : list rule;
  p_mandatory : list rule;
  p_uid : list (N * list rule);
  p_gid : list (N * list rule);
  p_console_true : list rule;
  p_console_false : list rule;
  p_conn_default : list conn_rule;
  p_conn_mandatory : list conn_rule
}.

Definition policy_empty : policy := mkPolicy [] [] [] [] [] [] [] [].

Inductive pctx := CDefault | CMandatory | CUser (uid : N) | CGroup (gid : N) | CConsole (at_console : bool) | CIgnored.

(* get_list + _dbus_list_append on the per-id hash tables *)
Fixpoint alist_append (l : list (N * list rule)) (k : N) (r : rule) : list (N * list rule) :=
  match l with
  | [] => [(k, [r])]
  | (k', rs) :: t => if k' =? k then (k', rs ++ [r]) :: t else (k', rs) :: alist_append t k r
  end.

Fixpoint alist_find (l : list (N * list rule)) (k : N) : list rule :=
  match l with
  | [] => []
  | (k', rs) :: t => if k' =? k then rs else alist_find t k
  end.

Definition policy_add (p : policy) (c : pctx) (r : rule) : policy :=
  match c with
  | CDefault => mkPolicy (p_default p ++ [r]) (p_mandatory p) (p_uid p) (p_gid p) (p_console_true p) (p_console_false p) (p_conn_default p) (p_conn_mandatory p)
  | CMandatory => mkPolicy (p_default p) (p_mandatory p ++ [r]) (p_uid p) (p_gid p) (p_console_true p) (p_console_false p) (p_conn_default p) (p_conn_mandatory p)
  | CUser u => mkPolicy (p_default p) (p_mandatory p) (alist_append (p_uid p) u r) (p_gid p) (p_console_true p) (p_console_false p) (p_conn_default p) (p_conn_mandatory p)
  | CGroup g => mkPolicy (p_default p) (p_mandatory p) (p_uid p) (alist_append (p_gid p) g r) (p_console_true p) (p_console_false p) (p_conn_default p) (p_conn_mandatory p)
  | CConsole true => mkPolicy (p_default p) (p_mandatory p) (p_uid p) (p_gid p) (p_console_true p ++ [r]) (p_console_false p) (p_conn_default p) (p_conn_mandatory p)
  | CConsole false => mkPolicy (p_default p) (p_mandatory p) (p_uid p) (p_gid p) (p_console_true p) (p_console_false p ++ [r]) (p_conn_default p) (p_conn_mandatory p)
  | CIgnored => p
  end.

(* a USER / GROUP rule appended to a context's list: only the default and mandatory lists are ever read for them *)
Definition policy_add_conn (p : policy) (c : pctx) (cr : conn_rule) : policy :=
  match c with
  | CDefault => mkPolicy (p_default p) (p_mandatory p) (p_uid p) (p_gid p) (p_console_true p) (p_console_false p) (p_conn_default p ++ [cr]) (p_conn_mandatory p)
  | CMandatory => mkPolicy (p_default p) (p_mandatory p) (p_uid p) (p_gid p) (p_console_true p) (p_console_false p) (p_conn_default p) (p_conn_mandatory p ++ [cr])
  | _ => p
  end.

(* list_allows_user: the last USER/GROUP rule that names the user, one of the user's groups, or "*" decides *)
Definition conn_rule_applies (cr : conn_rule) (uid : N) (groups : list N) : bool :=
  match cr_id cr with
  | None => true
  | Some i => if cr_group cr then existsb (N.eqb i) groups else i =? uid
  end.

Definition list_allows_user (def : bool) (l : list conn_rule) (uid : N) (groups : list N) : bool :=
  fold_left (fun allowed cr => if conn_rule_applies cr uid groups then cr_allow cr else allowed) l def.

(* bus_policy_allow_unix_user.  [db_groups] is what _dbus_unix_groups_from_uid finds in the user database ([None]: the
   lookup fails and the user is rejected); [owner] = _dbus_unix_user_is_process_owner (uid) *)
Definition allow_unix_user (p : policy) (owner : bool) (uid : N) (db_groups : option (list N)) : bool :=
  match db_groups with
  | None => false
  | Some groups => list_allows_user (list_allows_user owner (p_conn_default p) uid groups) (p_conn_mandatory p) uid groups
  end.

(* merge_id_hash: every list of [src] is appended to the list of the same id in [dest] *)
Definition merge_alist (dest src : list (N * list rule)) : list (N * list rule) :=
  fold_left (fun d e => fold_left (fun d' r => alist_append d' (fst e) r) (snd e) d) src dest.

(* bus_policy_merge: the policy of an included file is appended list by list *)
Definition policy_merge (p q : policy) : policy :=
  mkPolicy (p_default p ++ p_default q) (p_mandatory p ++ p_mandatory q) (merge_alist (p_uid p) (p_uid q)) (merge_alist (p_gid p) (p_gid q))
           (p_console_true p ++ p_console_true q) (p_console_false p ++ p_console_false q)
           (p_conn_default p ++ p_conn_default q) (p_conn_mandatory p ++ p_conn_mandatory q).

(* the rule list a connection gets before optimisation: default, each group of
   the connection (in the order of the credentials' group array, which
   _dbus_credentials_take_unix_gids keeps sorted), user, console, mandatory *)
Definition client_rules (p : policy) (uid : N) (gids : list N) (at_console : bool) : list rule :=
  p_default p ++ flat_map (alist_find (p_gid p)) gids ++ alist_find (p_uid p) uid ++
  (if at_console then p_console_true p else p_console_false p) ++ p_mandatory p.

(* bus_policy_create_client_policy *)
Definition create_client_policy (p : policy) (uid : N) (gids : list N) (at_console : bool) : list rule :=
  optimize (client_rules p uid gids at_console).

(* ---------------------------------------------------------------- attributes -> rule *)
Definition s_true : bytes := [116; 114; 117; 101]. (* "true" *)
Definition s_false : bytes := [102; 97; 108; 115; 101]. (* "false" *)
Definition s_star : bytes := [42]. (* "*" *)
Definition s_method_call : bytes := [109; 101; 116; 104; 111; 100; 95; 99; 97; 108; 108].
Definition s_method_return : bytes := [109; 101; 116; 104; 111; 100; 95; 114; 101; 116; 117; 114; 110].
Definition s_signal : bytes := [115; 105; 103; 110; 97; 108].
Definition s_error : bytes := [101; 114; 114; 111; 114].

(* the attributes located by append_rule_from_element; max_fds/min_fds carry the
   value strtol produced (the decimal text -> integer step is not modelled) *)
Record attrs := mkAttrs {
  a_send_interface : option bytes; a_send_member : option bytes; a_send_error : option bytes;
  a_send_destination : option bytes; a_send_destination_prefix : option bytes; a_send_path : option bytes;
  a_send_type : option bytes; a_send_broadcast : option bytes;
  a_receive_interface : option bytes; a_receive_member : option bytes; a_receive_error : option bytes;
  a_receive_sender : option bytes; a_receive_path : option bytes; a_receive_type : option bytes;
  a_eavesdrop : option bytes; a_max_fds : option Z; a_min_fds : option Z;
  a_send_requested_reply : option bytes; a_receive_requested_reply : option bytes;
  a_own : option bytes; a_own_prefix : option bytes; a_user : option bytes; a_group : option bytes; a_log : option bytes
}.

Inductive elem_result :=
| EErr                (* configuration error: the daemon refuses the file *)
| ERule (r : rule)    (* a per-client rule *)
| EConn (cr : option conn_rule).  (* a user= / group= rule; [None]: the name is unknown (warning, no rule) *)

(* dbus_message_type_from_string *)
Definition type_from_string (s : bytes) : N :=
  if bytes_eqb s s_method_call then DBUS_MESSAGE_TYPE_METHOD_CALL
  else if bytes_eqb s s_method_return then DBUS_MESSAGE_TYPE_METHOD_RETURN
  else if bytes_eqb s s_signal then DBUS_MESSAGE_TYPE_SIGNAL
  else if bytes_eqb s s_error then DBUS_MESSAGE_TYPE_ERROR
  else DBUS_MESSAGE_TYPE_INVALID.

(* IS_WILDCARD: "*" becomes NULL *)
Definition unwild (o : option bytes) : option bytes :=
  match o with Some s => if bytes_eqb s s_star then None else Some s | None => None end.

Definition bool_attr_bad (o : option bytes) : bool :=
  match o with Some s => negb (bytes_eqb s s_true || bytes_eqb s s_false) | None => false end.

Definition b2n (b : bool) : N := if b then 1 else 0.

(* parse_int_attribute (range check and default only) *)
Definition int_attr (o : option Z) (def : N) : option N :=
  match o with
  | None => Some def
  | Some z => if (z <? 0)%Z || (Z.of_N DBUS_MAXIMUM_MESSAGE_UNIX_FDS <? z)%Z then None else Some (Z.to_N z)
  end.

(* [ru] / [rg]: _dbus_parse_unix_user_from_config / _dbus_parse_unix_group_from_config (user database look-up) *)
Definition name_resolver := bytes -> option N.

Definition conn_rule_of (allow group : bool) (res : name_resolver) (name : bytes) : option conn_rule :=
  if bytes_eqb name s_star then Some (mkConnRule allow group None)
  else match res name with Some i => Some (mkConnRule allow group (Some i)) | None => None end.

Definition rule_from_element (ru rg : name_resolver) (allow : bool) (a : attrs) : elem_result :=
  let any_send := is_some (a_send_destination a) || is_some (a_send_destination_prefix a) || is_some (a_send_broadcast a) ||
                  is_some (a_send_path a) || is_some (a_send_type a) || is_some (a_send_interface a) ||
                  is_some (a_send_member a) || is_some (a_send_error a) || is_some (a_send_requested_reply a) in
  let any_recv := is_some (a_receive_sender a) || is_some (a_receive_path a) || is_some (a_receive_type a) ||
                  is_some (a_receive_interface a) || is_some (a_receive_member a) || is_some (a_receive_error a) ||
                  is_some (a_receive_requested_reply a) || (negb any_send && is_some (a_eavesdrop a)) in
  let any_msg := any_send || any_recv || is_some (a_eavesdrop a) || is_some (a_max_fds a) || is_some (a_min_fds a) in
  if negb (any_send || any_recv || is_some (a_own a) || is_some (a_own_prefix a) || is_some (a_user a) || is_some (a_group a)) then EErr else
  if (is_some (a_send_member a) && negb (is_some (a_send_interface a)) && negb (is_some (a_send_path a))) ||
     (is_some (a_receive_member a) && negb (is_some (a_receive_interface a)) && negb (is_some (a_receive_path a))) then EErr else
  if 1 <? b2n any_msg + (b2n (is_some (a_own a)) + b2n (is_some (a_own_prefix a)) + b2n (is_some (a_user a)) + b2n (is_some (a_group a))) then EErr else
  if any_send && any_recv then EErr else
  if (is_some (a_send_member a) || is_some (a_send_interface a)) && is_some (a_send_error a) then EErr else
  if is_some (a_send_destination a) && is_some (a_send_destination_prefix a) then EErr else
  if (is_some (a_receive_member a) || is_some (a_receive_interface a)) && is_some (a_receive_error a) then EErr else
  if any_send then
    let ty := unwild (a_send_type a) in
    let mt := match ty with Some s => type_from_string s | None => DBUS_MESSAGE_TYPE_INVALID end in
    let dest := unwild (a_send_destination a) in
    if is_some ty && (mt =? DBUS_MESSAGE_TYPE_INVALID) then EErr else
    if bool_attr_bad (a_eavesdrop a) then EErr else
    if bool_attr_bad (a_send_broadcast a) then EErr else
    if is_some dest && obytes_is (a_send_broadcast a) s_true then EErr else
    if bool_attr_bad (a_send_requested_reply a) then EErr else
    match int_attr (a_max_fds a) DBUS_MAXIMUM_MESSAGE_UNIX_FDS, int_attr (a_min_fds a) 0 with
    | Some maxf, Some minf =>
        let r0 := rule_new KSend allow in
        ERule (mkRule KSend allow mt (unwild (a_send_path a)) (unwild (a_send_interface a)) (unwild (a_send_member a))
                      (unwild (a_send_error a))
                      (match dest with Some d => Some d | None => a_send_destination_prefix a end)
                      maxf minf
                      (match a_eavesdrop a with Some s => bytes_eqb s s_true | None => r_eavesdrop r0 end)
                      (match a_send_requested_reply a with Some s => bytes_eqb s s_true | None => r_reqreply r0 end)
                      (match a_log a with Some s => bytes_eqb s s_true | None => r_log r0 end)
                      (match a_send_broadcast a with Some s => if bytes_eqb s s_true then TTrue else TFalse | None => TAny end)
                      (match dest with Some _ => false | None => is_some (a_send_destination_prefix a) end))
    | _, _ => EErr
    end
  else if any_recv then
    let ty := unwild (a_receive_type a) in
    let mt := match ty with Some s => type_from_string s | None => DBUS_MESSAGE_TYPE_INVALID end in
    if is_some ty && (mt =? DBUS_MESSAGE_TYPE_INVALID) then EErr else
    if bool_attr_bad (a_eavesdrop a) then EErr else
    if bool_attr_bad (a_receive_requested_reply a) then EErr else
    match int_attr (a_max_fds a) DBUS_MAXIMUM_MESSAGE_UNIX_FDS, int_attr (a_min_fds a) 0 with
    | Some maxf, Some minf =>
        let r0 := rule_new KRecv allow in
        ERule (mkRule KRecv allow mt (unwild (a_receive_path a)) (unwild (a_receive_interface a)) (unwild (a_receive_member a))
                      (unwild (a_receive_error a)) (unwild (a_receive_sender a)) maxf minf
                      (match a_eavesdrop a with Some s => bytes_eqb s s_true | None => r_eavesdrop r0 end)
                      (match a_receive_requested_reply a with Some s => bytes_eqb s s_true | None => r_reqreply r0 end)
                      false TAny false)
    | _, _ => EErr
    end
  else if is_some (a_own a) || is_some (a_own_prefix a) then
    let r0 := rule_new KOwn allow in
    match a_own a with
    | Some _ => ERule (mkRule KOwn allow (r_mtype r0) None None None None (unwild (a_own a)) 0 0 false false false TAny false)
    | None => ERule (mkRule KOwn allow (r_mtype r0) None None None None (a_own_prefix a) 0 0 false false false TAny true)
    end
  else match a_user a with
       | Some u => EConn (conn_rule_of allow false ru u)
       | None => match a_group a with Some g => EConn (conn_rule_of allow true rg g) | None => EErr end
       end.

(* one <policy> element: its context and its <allow>/<deny> children in order *)
Definition policy_elem := (pctx * list (bool * attrs))%type.

Fixpoint load_rules (ru rg : name_resolver) (p : policy) (c : pctx) (els : list (bool * attrs)) : option policy :=
  match els with
  | [] => Some p
  | (allow, a) :: t =>
      match rule_from_element ru rg allow a with
      | EErr => None
      | ERule r => load_rules ru rg (policy_add p c r) c t
      | EConn None => load_rules ru rg p c t
      | EConn (Some cr) =>
          match c with
          | CUser _ | CGroup _ => None   (* "rule cannot be per-user because it has bus-global semantics" *)
          | _ => load_rules ru rg (policy_add_conn p c cr) c t
          end
      end
  end.

Fixpoint load_policy (ru rg : name_resolver) (p : policy) (cfg : list policy_elem) : option policy :=
  match cfg with
  | [] => Some p
  | (c, els) :: t => match load_rules ru rg p c els with None => None | Some p' => load_policy ru rg p' t end
  end.
