(* Executable model of how the bus-wide policy is BUILT from a tree of
   configuration files: bus/config-parser.c (bus_config_load on one file,
   <include>, <includedir>, include_file, include_dir, merge_included) and
   bus/policy.c:bus_policy_merge.  No proofs here.

   C function                      definition here
   ------------------------------  ---------------------------------------
   bus_config_load (element loop)  [load_items] (one file: its <policy>, <include>, <includedir> children in order)
   end of <policy>/<allow>/<deny>  [load_rules] (Policy.v)
   include_file + merge_included   [include_file]  (separate parser, then bus_policy_merge; ignore_missing)
   include_dir                     [include_dir]   (only *.conf; every error of a file is logged and ignored)
   seen_include                    a file already on the inclusion stack is the leaf [TCircular]

   The file system is abstracted into the tree itself: an <include> points at
   a target that is absent, unreadable as a configuration (XML error, wrong
   root element ...), already being included, or a file with its own items.
   Only the policy-related part of a file is kept. *)
From DV Require Import Lib.Base Policy.Policy.
Local Open Scope N_scope.

Inductive cfg_items :=
| INil
| ICons (i : cfg_item) (rest : cfg_items)
with cfg_item :=
| IPolicy (c : pctx) (els : list (bool * attrs))
| IInclude (ignore_missing : bool) (t : inc_target)
| IIncludeDir (fs : dir_entries)
with inc_target :=
| TMissing                      (* no such file: DBUS_ERROR_FILE_NOT_FOUND *)
| TBroken                       (* exists but cannot be parsed as a configuration file *)
| TCircular                     (* names a file that is already on the inclusion stack *)
| TFile (its : cfg_items)
with dir_entries :=
| DNil
| DCons (is_conf : bool) (t : inc_target) (rest : dir_entries).   (* directory order; [is_conf]: the name ends in ".conf" *)

(* result of loading: [LErr absent] carries whether the DBusError is DBUS_ERROR_FILE_NOT_FOUND *)
Inductive lres := LErr (absent : bool) | LOk (p : policy).

Section Load.
  Variables ru rg : name_resolver.

  Fixpoint load_items (its : cfg_items) (p : policy) : lres :=
    match its with
    | INil => LOk p
    | ICons it rest => match load_item it p with LOk p' => load_items rest p' | LErr a => LErr a end
    end
  with load_item (it : cfg_item) (p : policy) : lres :=
    match it with
    | IPolicy c els => match load_rules ru rg p c els with Some p' => LOk p' | None => LErr false end
    | IInclude im t => include_file t im p
    | IIncludeDir fs => include_dir fs p
    end
  (* include_file: the included file gets a parser (and policy) of its own; on success merge_included appends its policy *)
  with include_file (t : inc_target) (ignore_missing : bool) (p : policy) : lres :=
    match t with
    | TCircular => LErr false
    | TBroken => LErr false
    | TMissing => if ignore_missing then LOk p else LErr true
    | TFile its =>
        match load_items its policy_empty with
        | LOk q => LOk (policy_merge p q)
        | LErr absent => if absent && ignore_missing then LOk p else LErr absent   (* the error NAME is all that is looked at *)
        end
    end
  with include_dir (fs : dir_entries) (p : policy) : lres :=
    match fs with
    | DNil => LOk p
    | DCons is_conf t rest =>
        include_dir rest (if is_conf then match include_file t true p with LOk p' => p' | LErr _ => p end else p)
    end.

  (* bus_config_load of the top-level file *)
  Definition load_config (its : cfg_items) : lres := load_items its policy_empty.
End Load.
