(* C17 model, second layer: _dbus_connection_block_pending_call with the clock
   and the poll() timeouts explicit.  Model only, no proofs.

   Pending.v abstracts "the wait is over" into the boolean argument of
   EBlockStep.  Here that boolean is computed the way the C code computes it,
   from clock readings that are an explicit input:

     _dbus_get_monotonic_time (&start...)            first reading
     recheck_status: ... _dbus_get_monotonic_time (&tv...)   one reading per pass that
                                                     gets past check_for_reply
     elapsed_milliseconds = (tv_sec - start_tv_sec) * 1000 + (tv_usec - start_tv_usec) / 1000;
     ... else if (tv_sec < start_tv_sec)  fall through ("clock set backward")
         else if (elapsed_milliseconds < timeout_milliseconds) iterate (timeout - elapsed)

   and the value handed to poll() by every _dbus_connection_do_iteration_unlocked
   is an output, so that the arithmetic is observable even when nothing times
   out.  What arrives while the thread sleeps in poll() is the second explicit
   input (as in block_with).  The waiting itself is expressed with the events
   of Pending.v, so every theorem about [run] covers these schedules. *)
From Coq Require Import List NArith ZArith Bool.
Import ListNotations.
From DV Require Import PendingCall.Pending.
Local Open Scope Z_scope.

(* long tv_sec, tv_usec (no overflow modelled) *)
Record tv := mkTv { tv_sec : Z; tv_usec : Z }.

(* C integer division truncates towards zero: Z.quot *)
Definition elapsed_ms (start now : tv) : Z :=
  (tv_sec now - tv_sec start) * 1000 + Z.quot (tv_usec now - tv_usec start) 1000.

(* the two tests after the reading, for a call that has a DBusTimeout of [ms] milliseconds:
   true = stop waiting and complete the call with its timeout error *)
Definition give_up (start now : tv) (ms : Z) : bool :=
  (tv_sec now <? tv_sec start) || negb (elapsed_ms start now <? ms).

(* _dbus_pending_call_new_unlocked: timeout_milliseconds argument -> interval of the DBusTimeout, None = no timeout object.
   -1 = DBUS_TIMEOUT_USE_DEFAULT -> _DBUS_DEFAULT_TIMEOUT_VALUE; 0x7fffffff = DBUS_TIMEOUT_INFINITE *)
Definition default_timeout : Z := 25000.
Definition timeout_infinite : Z := 2147483647.
Definition effective_timeout (arg : Z) : option Z :=
  if arg =? -1 then Some default_timeout else if arg =? timeout_infinite then None else Some arg.

(* timeout_milliseconds as _dbus_connection_block_pending_call holds it: the interval, or -1 *)
Definition block_ms (t : option Z) : Z := match t with Some ms => ms | None => -1 end.

(* _dbus_poll: "if (timeout_milliseconds < -1) timeout_milliseconds = -1" -- what poll() finally gets *)
Definition poll_arg (t : Z) : Z := if t <? -1 then -1 else t.

(* does this pass of recheck_status get as far as reading the clock? (not completed, no reply in the queue) *)
Definition reads_clock (st : state) (i : nat) : bool :=
  let s1 := u_status st in
  match nth_error (calls s1) i with
  | Some c => negb (c_completed c) && (fault s1 =? 0)%N &&
              match find_reply (queue s1) (c_serial c) with None => true | Some _ => false end
  | None => false
  end.

Inductive outcome := Returned | Hang | ClockExhausted | Fuel.

Record tresult := mkT { t_state : state; t_obs : list obs; t_polls : list Z; t_out : outcome; t_rest : list (list pmsg) }.

(* One _dbus_connection_do_iteration_unlocked (READING | BLOCK, targ), during which the peer writes [evs], followed by
   one pass of recheck_status; [again] is the rest of the wait (the loop). *)
Definition timed_round (again : state -> list tv -> list (list pmsg) -> Z -> tresult)
           (st : state) (i : nat) (t : option Z) (start : tv) (clocks : list tv) (polls : list Z)
           (arr : list (list pmsg)) (evs : list event) : tresult :=
  let '(st1, o1) := run st (evs ++ [EIter]) in
  if reads_clock st1 i then
    match clocks with
    | [] => mkT st1 o1 polls ClockExhausted arr
    | now :: clocks' =>
      let g := match t with Some ms => give_up start now ms | None => false end in
      let '(st2, o2) := step st1 (EBlockStep i g) in
      if open_call st2 i then
        let r := again st2 clocks' arr (block_ms t - elapsed_ms start now) in
        mkT (t_state r) (o1 ++ o2 ++ t_obs r) (polls ++ t_polls r) (t_out r) (t_rest r)
      else mkT st2 (o1 ++ o2) polls Returned arr
    end
  else
    let '(st2, o2) := step st1 (EBlockStep i false) in
    mkT st2 (o1 ++ o2) polls Returned arr.

Fixpoint timed_loop (fuel : nat) (st : state) (i : nat) (t : option Z) (start : tv)
         (clocks : list tv) (arrivals : list (list pmsg)) (targ : Z) : tresult :=
  match fuel with
  | O => mkT st [] [] Fuel arrivals
  | S f =>
    (* poll (targ) unless the transport is gone *)
    let polls := if connected st then [poll_arg targ] else [] in
    let again := fun st' cl ar tg => timed_loop f st' i t start cl ar tg in
    if would_wait st then
      match arrivals with
      | ((_ :: _) as b) :: rest => timed_round again st i t start clocks polls rest (peer_events b)
      | [] :: rest => if targ <? 0 then mkT st [] polls Hang arrivals                     (* poll (-1) with nothing coming *)
                      else timed_round again st i t start clocks polls rest []            (* poll returns 0 *)
      | [] => if targ <? 0 then mkT st [] polls Hang [] else timed_round again st i t start clocks polls [] []
      end
    else timed_round again st i t start clocks polls arrivals []
  end.

(* dbus_pending_call_block (call i) for a call created with timeout argument [arg] *)
Definition block_timed (st : state) (i : nat) (arg : Z) (clocks : list tv) (arrivals : list (list pmsg)) : tresult :=
  let t := effective_timeout arg in
  let r :=
    match nth_error (calls st) i with
    | None => mkT st [] [] Returned arrivals
    | Some c =>
      if c_completed c then mkT st [] [] Returned arrivals
      else
        (* _dbus_connection_flush_unlocked *)
        let flushing := outgoing st && connected st in
        let '(s0, o0) := run st ((if flushing then [EIter] else []) ++ [EStatus]) in
        let p0 := if flushing then [-1] else [] in
        match clocks with
        | [] => mkT s0 o0 p0 ClockExhausted arrivals
        | start :: clocks' =>
          let '(s1, o1) := step s0 (EBlockCheck i) in
          if open_call s1 i then
            let r := timed_loop (length clocks + length arrivals + 3) s1 i t start clocks' arrivals (block_ms t) in
            mkT (t_state r) (o0 ++ o1 ++ t_obs r) (p0 ++ t_polls r) (t_out r) (t_rest r)
          else mkT s1 (o0 ++ o1) p0 Returned arrivals
        end
    end in
  (* whatever the peer still had to write is written; then the waiting thread runs its notify function *)
  let '(s2, o2) := run (t_state r) (peer_events (concat (t_rest r))) in
  let '(s3, o3) := run s2 (inflight_from (calls s2) 0) in
  mkT s3 (t_obs r ++ o2 ++ o3) (t_polls r) (t_out r) [].
