(* C17 model: the pending-call machinery of dbus/dbus-connection.c and
   dbus/dbus-pending-call.c as an event state machine.  Model only, no proofs.

   State = what the C code keeps under the connection lock:
     serial      DBusConnection.client_serial
     calls       every DBusPendingCall ever created (by creation index), each with
                 reply_serial, timeout object present?, notify function set?,
                 completed, reply, timeout_link present?, timeout_added,
                 "is the value stored under its serial in pending_replies" (c_intable)
     queue       DBusConnection.incoming_messages
     wire        bytes the peer has written and the client has not read yet (whole messages)
     peer_closed the peer has closed its end (EOF follows [wire])
     connected   _dbus_transport_get_is_connected
     disc_link   DBusConnection.disconnect_message_link != NULL
     outgoing    n_outgoing > 0 (only ever true after a write hit EPIPE)
     fault       0, or the number of the C assertion / NULL dereference that was hit

   Every C entry point is one event; the places where the C code drops the
   connection lock in the middle of an entry point are events of their own
   (EFinish = _dbus_pending_call_finish_completion, EBlockStep = one pass of
   the recheck loop of _dbus_connection_block_pending_call, ...), so that an
   interleaving of threads is an interleaving of events. *)
From Coq Require Import List NArith Bool.
Import ListNotations.
Local Open Scope N_scope.

Definition two32 : N := 4294967296.

(* _dbus_connection_get_next_client_serial: returns the serial to use and the new counter *)
Definition next_serial (c : N) : N * N :=
  let c' := (c + 1) mod two32 in (c, if c' =? 0 then 1 else c').

Inductive pkind := PReturn | PError | PSignal.
Inductive mkind :=
| KPeer (k : pkind)       (* written by the peer *)
| KNoReply                (* _dbus_pending_call_set_timeout_error_unlocked: the preallocated timeout_link *)
| KDisconnected           (* generate_local_error_message (DBUS_ERROR_DISCONNECTED) in block_pending_call *)
| KDiscSignal.            (* disconnect_message_link *)
Record msg := mkMsg { m_kind : mkind; m_rs : N; m_tag : N }.

Record call := mkCall {
  c_serial : N;            (* reply_serial *)
  c_finite : bool;         (* timeout != NULL *)
  c_hasnotify : bool;      (* function != NULL *)
  c_completed : bool;
  c_reply : option msg;
  c_link : bool;           (* timeout_link != NULL *)
  c_tadded : bool;         (* timeout_added (= registered with the connection's timeout list) *)
  c_intable : bool;        (* pending_replies[c_serial] == this *)
  c_cancelled : bool;      (* ghost: dbus_pending_call_cancel was called *)
  c_inflight : bool;       (* start_completion done, finish_completion not yet *)
  c_notified : N           (* ghost: number of notify callbacks made *)
}.

Definition set_tadded (b : bool) (c : call) : call :=
  mkCall (c_serial c) (c_finite c) (c_hasnotify c) (c_completed c) (c_reply c) (c_link c) b (c_intable c) (c_cancelled c) (c_inflight c) (c_notified c).
Definition set_link (b : bool) (c : call) : call :=
  mkCall (c_serial c) (c_finite c) (c_hasnotify c) (c_completed c) (c_reply c) b (c_tadded c) (c_intable c) (c_cancelled c) (c_inflight c) (c_notified c).
Definition set_intable (b : bool) (c : call) : call :=
  mkCall (c_serial c) (c_finite c) (c_hasnotify c) (c_completed c) (c_reply c) (c_link c) (c_tadded c) b (c_cancelled c) (c_inflight c) (c_notified c).
Definition set_cancelled (b : bool) (c : call) : call :=
  mkCall (c_serial c) (c_finite c) (c_hasnotify c) (c_completed c) (c_reply c) (c_link c) (c_tadded c) (c_intable c) b (c_inflight c) (c_notified c).
Definition set_reply (r : option msg) (c : call) : call :=
  mkCall (c_serial c) (c_finite c) (c_hasnotify c) (c_completed c) r (c_link c) (c_tadded c) (c_intable c) (c_cancelled c) (c_inflight c) (c_notified c).
(* set_reply_unlocked + start_completion_unlocked *)
Definition set_started (r : msg) (link : bool) (c : call) : call :=
  mkCall (c_serial c) (c_finite c) (c_hasnotify c) true (Some r) link (c_tadded c) (c_intable c) (c_cancelled c) true (c_notified c).
Definition set_finished (c : call) : call :=
  mkCall (c_serial c) (c_finite c) (c_hasnotify c) (c_completed c) (c_reply c) (c_link c) (c_tadded c) (c_intable c) (c_cancelled c) false
         (if c_hasnotify c then c_notified c + 1 else c_notified c).
(* free_pending_call_on_hash_removal: the table's reference goes, and the timeout with it *)
Definition unhash (c : call) : call := set_intable false (set_tadded false c).

Record state := mkState {
  serial : N; calls : list call; queue : list msg; wire : list msg;
  peer_closed : bool; connected : bool; disc_link : bool; outgoing : bool; fault : N
}.

Definition set_serial (st : state) (x : N) := mkState x (calls st) (queue st) (wire st) (peer_closed st) (connected st) (disc_link st) (outgoing st) (fault st).
Definition set_calls (st : state) (x : list call) := mkState (serial st) x (queue st) (wire st) (peer_closed st) (connected st) (disc_link st) (outgoing st) (fault st).
Definition set_queue (st : state) (x : list msg) := mkState (serial st) (calls st) x (wire st) (peer_closed st) (connected st) (disc_link st) (outgoing st) (fault st).
Definition set_wire (st : state) (x : list msg) := mkState (serial st) (calls st) (queue st) x (peer_closed st) (connected st) (disc_link st) (outgoing st) (fault st).
Definition set_peer_closed (st : state) (x : bool) := mkState (serial st) (calls st) (queue st) (wire st) x (connected st) (disc_link st) (outgoing st) (fault st).
Definition set_connected (st : state) (x : bool) := mkState (serial st) (calls st) (queue st) (wire st) (peer_closed st) x (disc_link st) (outgoing st) (fault st).
Definition set_disc_link (st : state) (x : bool) := mkState (serial st) (calls st) (queue st) (wire st) (peer_closed st) (connected st) x (outgoing st) (fault st).
Definition set_outgoing (st : state) (x : bool) := mkState (serial st) (calls st) (queue st) (wire st) (peer_closed st) (connected st) (disc_link st) x (fault st).
Definition set_fault (st : state) (x : N) := mkState (serial st) (calls st) (queue st) (wire st) (peer_closed st) (connected st) (disc_link st) (outgoing st) x.

(* _dbus_connection_new_for_transport: client_serial = 1, everything empty *)
Definition init_at (b : N) : state := mkState b [] [] [] false true true false 0.
(* a connection that has already handed out b - 1 serials; a fresh one has b = 1 *)
Definition init : state := init_at 1.

Inductive obs :=
| OSent (s : option N)            (* serial given to the call message, None = no DBusPendingCall returned *)
| OPlain (s : N)
| OWatch (b : bool)
| OFired (b : bool)
| OComplete (i : nat) (m : msg)   (* ghost: call i's reply slot was assigned m *)
| ONotify (i : nat)               (* the notify function of call i ran *)
| OFilter (m : msg)               (* m went on to the filters *)
| ODispatch (remains : bool)      (* return value of dbus_connection_dispatch *)
| OStolen (r : option (option msg))
| OHang | OFault | OFuel.

Fixpoint upd {A} (l : list A) (i : nat) (f : A -> A) : list A :=
  match l, i with
  | [], _ => []
  | x :: r, O => f x :: r
  | x :: r, S j => x :: upd r j f
  end.

(* _dbus_hash_table_lookup_int (pending_replies, s) *)
Fixpoint lookup (l : list call) (s : N) : option nat :=
  match l with
  | [] => None
  | c :: r => if c_intable c && (c_serial c =? s) then Some O else option_map S (lookup r s)
  end.

(* _dbus_hash_table_remove_int (pending_replies, s): whatever is stored under s goes *)
Definition detach_serial (l : list call) (s : N) : list call :=
  map (fun c => if c_intable c && (c_serial c =? s) then unhash c else c) l.

Definition noreply (s : N) : msg := mkMsg KNoReply s 0.
Definition disconnected_err (s : N) : msg := mkMsg KDisconnected s 0.
Definition disc_signal : msg := mkMsg KDiscSignal 0 0.

(* _dbus_connection_queue_received_message_link *)
Definition queue_received (st : state) (m : msg) : state :=
  let cs := if m_rs m =? 0 then calls st
            else match lookup (calls st) (m_rs m) with
                 | Some i => upd (calls st) i (set_tadded false)
                 | None => calls st
                 end in
  set_calls (set_queue st (queue st ++ [m])) cs.

(* one reading pass of the transport (do_reading): everything that is on the
   wire is queued, then EOF is seen if the peer has closed *)
Definition u_read (st : state) : state :=
  if connected st then
    let st1 := fold_left queue_received (wire st) (set_wire st []) in
    if peer_closed st then set_connected st1 false else st1
  else st.

(* connection_timeout_and_complete_all_pending_calls_unlocked takes the first
   entry of a fresh hash iteration until the table is empty.  Order of a hash
   iteration (dbus-hash.c): buckets in index order, inside a bucket the entry
   added last comes first; the bucket of an integer key is RANDOM_INDEX with
   the initial down_shift = 28 and mask = 3 (four buckets; the table is only
   rebuilt when a 12th entry is added, which the correspondence runs never do).
   Only the order of the messages inside one batch depends on this. *)
Definition bucket (s : N) : N := ((s * 1103515245) / 268435456) mod 4.
Definition batch_order (cs : list call) : list call :=
  flat_map (fun b => rev (filter (fun c => c_intable c && (bucket (c_serial c) =? b)) cs)) [0; 1; 2; 3].
Definition batch_msgs (cs : list call) : list msg :=
  flat_map (fun c => if c_link c then [noreply (c_serial c)] else []) (batch_order cs).
Definition batch_upd (cs : list call) : list call :=
  map (fun c => if c_intable c then unhash (set_link false c) else c) cs.

(* _dbus_connection_get_dispatch_status_unlocked (side effects only) *)
Definition u_status (st : state) : state :=
  match queue st with
  | _ :: _ => st
  | [] =>
    if connected st then st
    else
      let st1 := set_outgoing st false in           (* notify_disconnected_unlocked *)
      if disc_link st then                           (* notify_disconnected_and_dispatch_complete_unlocked *)
        set_disc_link (set_queue (set_calls st1 (batch_upd (calls st))) (batch_msgs (calls st) ++ [disc_signal])) false
      else st1
  end.
Definition data_remains (st : state) : bool := match queue st with [] => false | _ => true end.

(* complete_pending_call_and_unlock up to the unlock: set_reply_unlocked,
   start_completion_unlocked, detach_pending_call_and_unlock.  [m = None] is the
   C call with message == NULL (use the preallocated timeout error). *)
Definition start_complete (st : state) (i : nat) (m : option msg) : state * list obs :=
  match nth_error (calls st) i with
  | None => (st, [])
  | Some c =>
    let r := match m with
             | Some x => Some x
             | None => if c_link c then Some (noreply (c_serial c)) else None
             end in
    match r with
    | None => (set_fault st 1, [OFault])                                   (* pending->timeout_link->data with a NULL link *)
    | Some x =>
      if match c_reply c with Some _ => true | None => false end then (set_fault st 3, [OFault])   (* assert reply == NULL *)
      else if negb (m_rs x =? c_serial c) then (set_fault st 4, [OFault])  (* assert reply_serial matches *)
      else if c_completed c then (set_fault st 2, [OFault])                (* assert !completed *)
      else
        let link := match m with None => false | Some _ => c_link c end in
        let cs1 := upd (calls st) i (set_started x link) in
        let cs2 := detach_serial cs1 (c_serial c) in
        let cs3 := upd cs2 i (set_tadded false) in
        (set_calls st cs3, [OComplete i x])
    end
  end.

(* _dbus_pending_call_finish_completion *)
Definition finish (st : state) (i : nat) : state * list obs :=
  match nth_error (calls st) i with
  | Some c => if c_inflight c
              then (set_calls st (upd (calls st) i set_finished), if c_hasnotify c then [ONotify i] else [])
              else (st, [])
  | None => (st, [])
  end.

(* dbus_connection_send_with_reply *)
Definition ev_send (st : state) (finite nf : bool) : state * list obs :=
  if negb (connected st) then (st, [OSent None])
  else
    let (s, c') := next_serial (serial st) in
    let newc := mkCall s finite nf false None true finite true false false 0 in
    let cs := detach_serial (calls st) s ++ [newc] in       (* hash insert replaces an entry with the same key *)
    let st1 := set_outgoing (set_calls (set_serial st c') cs) (outgoing st || peer_closed st) in  (* EPIPE is ignored by do_writing *)
    (u_status st1, [OSent (Some s)]).

(* dbus_connection_send *)
Definition ev_plain (st : state) : state * list obs :=
  let (s, c') := next_serial (serial st) in
  let st1 := set_outgoing (set_serial st c') (outgoing st || peer_closed st || negb (connected st)) in
  (u_status st1, [OPlain s]).

Definition ev_peer (st : state) (k : pkind) (rs tag : N) : state :=
  if peer_closed st || negb (connected st) then st
  else match k with
       | PSignal => set_wire st (wire st ++ [mkMsg (KPeer k) rs tag])
       | _ => if rs =? 0 then st else set_wire st (wire st ++ [mkMsg (KPeer k) rs tag])
       end.

(* dbus_connection_read_write (c, 0) *)
Definition ev_read (st : state) : state :=
  let st1 := u_status st in
  if connected st1 then u_read st1 else st1.

(* _dbus_connection_handle_watch on the read watch *)
Definition ev_watch (st : state) : state * list obs :=
  if connected st then (u_status (u_read st), [OWatch true]) else (st, [OWatch false]).

(* reply_handler_timeout, reached through dbus_timeout_handle; only possible while the timeout is registered *)
Definition ev_fire (st : state) (i : nat) : state * list obs :=
  match nth_error (calls st) i with
  | Some c =>
    if c_tadded c then
      let q := if c_link c then queue st ++ [noreply (c_serial c)] else queue st in
      let cs := upd (calls st) i (fun c => set_tadded false (set_link false c)) in
      (u_status (set_calls (set_queue st q) cs), [OFired true])
    else (st, [OFired false])
  | None => (st, [OFired false])
  end.

(* dbus_pending_call_cancel = _dbus_connection_detach_pending_call_and_unlock *)
Definition ev_cancel (st : state) (i : nat) : state * list obs :=
  match nth_error (calls st) i with
  | Some c =>
    let cs := detach_serial (calls st) (c_serial c) in
    (set_calls st (upd cs i (fun c => set_cancelled true (set_tadded false c))), [])
  | None => (st, [])
  end.

(* dbus_connection_dispatch, up to and including the pending-call step *)
Definition ev_dispatch (st : state) : state * list obs :=
  let st1 := u_status st in
  match queue st1 with
  | [] => (st1, [ODispatch false])
  | m :: q =>
    let st2 := set_queue st1 q in
    let '(st3, o) := match lookup (calls st2) (m_rs m) with
                     | Some i => start_complete st2 i (Some m)
                     | None => (st2, [OFilter m])
                     end in
    if fault st3 =? 0 then let st4 := u_status st3 in (st4, o ++ [ODispatch (data_remains st4)])
    else (st3, o)
  end.

(* dbus_pending_call_steal_reply, called only when get_completed says TRUE *)
Definition ev_steal (st : state) (i : nat) : state * list obs :=
  match nth_error (calls st) i with
  | Some c =>
    if c_completed c then (set_calls st (upd (calls st) i (set_reply None)), [OStolen (Some (c_reply c))])
    else (st, [OStolen None])
  | None => (st, [OStolen None])
  end.

(* dbus_connection_close *)
Definition ev_local_close (st : state) : state :=
  if connected st then u_status (set_connected st false) else st.

(* check_for_reply_unlocked *)
Fixpoint find_reply (q : list msg) (s : N) : option (msg * list msg) :=
  match q with
  | [] => None
  | m :: r => if m_rs m =? s then Some (m, r)
              else match find_reply r s with
                   | Some (x, r') => Some (x, m :: r')
                   | None => None
                   end
  end.

(* check_for_reply_and_update_dispatch_unlocked *)
Definition blk_check (st : state) (i : nat) : option (state * list obs) :=
  match nth_error (calls st) i with
  | None => None
  | Some c =>
    match find_reply (queue st) (c_serial c) with
    | Some (m, q') =>
      let '(st1, o) := start_complete (set_queue st q') i (Some m) in
      Some (if fault st1 =? 0 then u_status st1 else st1, o)
    | None => None
    end
  end.

(* one blocking _dbus_connection_do_iteration_unlocked (READING | BLOCK, remaining time).
   None: nothing to read and no timeout, the thread sleeps for ever.
   Some (st', true): the whole remaining time passed without anything to read. *)
Definition blk_iter (st : state) (finite : bool) : option (state * bool) :=
  if negb (connected st) then Some (st, false)
  else match wire st with
       | _ :: _ => Some (u_read st, false)
       | [] => if peer_closed st then Some (u_read st, false)
               else if finite then Some (st, true) else None
       end.

Definition timeout_complete (st : state) (i : nat) : state * list obs :=
  let '(st1, o) := start_complete st i None in
  (if fault st1 =? 0 then u_status st1 else st1, o).

(* one pass from the label recheck_status to either a return (inl) or the next iteration (inr) *)
Definition blk_recheck (st : state) (i : nat) (timedout : bool) : (state * list obs) + state :=
  let st1 := u_status st in
  match nth_error (calls st1) i with
  | None => inl (st1, [])
  | Some c =>
    if c_completed c then inl (st1, [])
    else match blk_check st1 i with
         | Some r => inl r
         | None =>
           if negb (connected st1) then inl (start_complete st1 i (Some (disconnected_err (c_serial c))))
           else if negb (disc_link st1) then inl (timeout_complete st1 i)
           else if negb (c_finite c) then inr st1
           else if negb timedout then inr st1
           else inl (timeout_complete st1 i)
         end
  end.

(* _dbus_connection_flush_unlocked *)
Definition u_flush (st : state) : state :=
  u_status (if outgoing st && connected st then u_read st else st).

(* _dbus_connection_block_pending_call run by one thread with nobody else interfering *)
Definition ev_block (st : state) (i : nat) : state * list obs :=
  match nth_error (calls st) i with
  | None => (st, [])
  | Some c =>
    if c_completed c then (st, [])
    else
      let st0 := u_flush st in
      match blk_check st0 i with
      | Some r => r
      | None =>
        match blk_iter st0 (c_finite c) with
        | None => (st0, [OHang])
        | Some (st1, t1) =>
          match blk_recheck st1 i t1 with
          | inl r => r
          | inr st2 =>
            match blk_iter st2 (c_finite c) with
            | None => (st2, [OHang])
            | Some (st3, t2) =>
              match blk_recheck st3 i (t1 || t2) with
              | inl r => r
              | inr st4 => (st4, [OFuel])
              end
            end
          end
        end
      end
  end.

Inductive event :=
| ESend (finite nf : bool) | EPlain
| EPeer (k : pkind) (rs tag : N)          (* peer writes a message with a literal reply serial *)
| EPeerReply (k : pkind) (i : nat) (tag : N)   (* ... with the serial of call i *)
| EPeerClose | ERead | EWatch | EFire (i : nat) | ECancel (i : nat) | EBlock (i : nat)
| EDispatch | ESteal (i : nat) | ELocalClose
(* the pieces other threads can interleave with *)
| EFinish (i : nat) | EStatus | EIter | EBlockCheck (i : nat) | EBlockStep (i : nat) (timedout : bool).

Definition step (st : state) (e : event) : state * list obs :=
  if negb (fault st =? 0) then (st, [OFault])
  else match e with
       | ESend f n => ev_send st f n
       | EPlain => ev_plain st
       | EPeer k rs tag => (ev_peer st k rs tag, [])
       | EPeerReply k i tag =>
         match nth_error (calls st) i with
         | Some c => (ev_peer st k (c_serial c) tag, [])
         | None => (st, [])
         end
       | EPeerClose => (set_peer_closed st true, [])
       | ERead => (ev_read st, [])
       | EWatch => ev_watch st
       | EFire i => ev_fire st i
       | ECancel i => ev_cancel st i
       | EBlock i => ev_block st i
       | EDispatch => ev_dispatch st
       | ESteal i => ev_steal st i
       | ELocalClose => (ev_local_close st, [])
       | EFinish i => finish st i
       | EStatus => (u_status st, [])
       | EIter => (u_read st, [])
       | EBlockCheck i =>
         match nth_error (calls st) i with
         | Some c => if c_completed c then (st, [])
                     else match blk_check st i with Some r => r | None => (st, []) end
         | None => (st, [])
         end
       | EBlockStep i t =>
         match blk_recheck st i t with inl r => r | inr st' => (st', []) end
       end.

Fixpoint run (st : state) (h : list event) : state * list obs :=
  match h with
  | [] => (st, [])
  | e :: r => let '(st1, o1) := step st e in let '(st2, o2) := run st1 r in (st2, o1 ++ o2)
  end.

(* single-threaded use: the thread that started a completion finishes it before it does anything else *)
Fixpoint inflight_from (cs : list call) (k : nat) : list event :=
  match cs with
  | [] => []
  | c :: r => (if c_inflight c then [EFinish k] else []) ++ inflight_from r (S k)
  end.
Definition step1 (st : state) (e : event) : state * list obs :=
  let '(st1, o1) := step st e in
  let '(st2, o2) := run st1 (inflight_from (calls st1) 0) in (st2, o1 ++ o2).

Fixpoint run1 (st : state) (h : list event) : state * list obs :=
  match h with
  | [] => (st, [])
  | e :: r => let '(st1, o1) := step1 st e in let '(st2, o2) := run1 st1 r in (st2, o1 ++ o2)
  end.

(* ---- a blocking wait during which the peer keeps writing ----------------
   dbus_pending_call_block (call i) run by one thread while the peer delivers
   the [batches] one after the other, each only when the waiting thread has
   nothing left to read and goes to sleep in poll().  Expressed entirely with
   the fine-grained events above (so every theorem about [run] covers it):
   EStatus/EIter = _dbus_connection_flush_unlocked, EBlockCheck = the first
   check_for_reply, then per round EIter = one blocking do_iteration and
   EBlockStep = one pass of recheck_status. *)
Inductive pmsg :=
| PM (k : pkind) (target : nat + N) (tag : N)   (* inl i: reply serial of call i; inr s: literal *)
| PClose.                                        (* the peer closes its end after what it has written so far *)
Definition peer_events (b : list pmsg) : list event :=
  map (fun p => match p with
                | PM k (inl i) tag => EPeerReply k i tag
                | PM k (inr rs) tag => EPeer k rs tag
                | PClose => EPeerClose
                end) b.

Definition would_wait (st : state) : bool :=
  connected st && match wire st with [] => true | _ => false end && negb (peer_closed st).

Definition open_call (st : state) (i : nat) : bool :=
  match nth_error (calls st) i with
  | Some c => negb (c_completed c) && (fault st =? 0)
  | None => false
  end.

(* returns the batches the peer had not yet written when the wait ended *)
Fixpoint block_loop (fuel : nat) (st : state) (i : nat) (finite : bool) (batches : list (list pmsg)) (t : bool)
  : state * list obs * list (list pmsg) :=
  match fuel with
  | O => (st, [OFuel], batches)
  | S f =>
    if would_wait st then
      match batches with
      | b :: rest =>
        let '(st1, o1) := run st (peer_events b ++ [EIter; EBlockStep i t]) in
        if open_call st1 i then let '(st2, o2, r) := block_loop f st1 i finite rest t in (st2, o1 ++ o2, r) else (st1, o1, rest)
      | [] =>
        if finite then
          let '(st1, o1) := step st (EBlockStep i true) in
          if open_call st1 i then let '(st2, o2, r) := block_loop f st1 i finite [] true in (st2, o1 ++ o2, r) else (st1, o1, [])
        else (st, [OHang], [])
      end
    else
      let '(st1, o1) := run st [EIter; EBlockStep i t] in
      if open_call st1 i then let '(st2, o2, r) := block_loop f st1 i finite batches t in (st2, o1 ++ o2, r) else (st1, o1, batches)
  end.

Definition block_with (st : state) (i : nat) (batches : list (list pmsg)) : state * list obs :=
  let '(s1, o1, rest) :=
    match nth_error (calls st) i with
    | None => (st, [], batches)
    | Some c =>
      if c_completed c then (st, [], batches)
      else
        let '(s0, o0) := run st ((if outgoing st && connected st then [EIter] else []) ++ [EStatus; EBlockCheck i]) in
        if open_call s0 i then let '(s, o, r) := block_loop (2 * length batches + 4) s0 i (c_finite c) batches false in (s, o0 ++ o, r)
        else (s0, o0, batches)
    end in
  (* the peer writes whatever is left (nobody reads it yet); then the waiting thread runs its notify function *)
  let '(s2, o2) := run s1 (peer_events (concat rest)) in
  let '(s3, o3) := run s2 (inflight_from (calls s2) 0) in
  (s3, o1 ++ o2 ++ o3).
