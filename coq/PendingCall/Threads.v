(* C17 model, third layer: several threads inside
   _dbus_connection_block_pending_call on one connection, and the hand-over of
   the I/O path between them.  Model only, no proofs.

   A thread holds the connection lock from one of the points below to the
   next, so each thread step is atomic; the lock is dropped exactly
     - inside _dbus_connection_acquire_io_path, while waiting on io_path_cond
       for io_path_acquired to become FALSE           (pc PWantIo), and
     - inside the transport's poll()                  (pc PInPoll; the thread
       still owns the I/O path there),
   and after complete_pending_call_and_unlock, before the notify function
   (pc PNotify).  Only the owner of the I/O path reads from the socket.

   [faithful = true] is _dbus_connection_do_iteration_unlocked as it is: the
   checks "pending call completed" / "reply already in the incoming queue" are
   made AFTER the I/O path has been acquired.  [faithful = false] makes them
   before the acquisition (seeded defect C17_3), for the refutation. *)
From Coq Require Import List NArith ZArith Bool.
Import ListNotations.
From DV Require Import PendingCall.Pending.
Local Open Scope N_scope.

Inductive pc :=
| PStart        (* dbus_pending_call_block entered *)
| PCheck        (* top of _dbus_connection_do_iteration_unlocked *)
| PWantIo       (* in _dbus_connection_acquire_io_path, lock dropped *)
| PHaveIo       (* acquire returned TRUE, lock re-taken *)
| PInPoll       (* in poll(), lock dropped, I/O path owned *)
| PRecheck      (* label recheck_status *)
| PNotify       (* completed by this thread, lock dropped, notify function not yet run *)
| PDone.

Record thread := mkTh { th_call : nat; th_pc : pc; th_gave : bool }.

Record tstate := mkTS { ts_base : state; ts_io : bool (* io_path_acquired *); ts_threads : list thread }.

Inductive tstep :=
| TRun (k : nat)            (* thread k runs to its next lock release, if it is not blocked *)
| TWake (k : nat)           (* thread k's poll() returns: something is readable *)
| TPollTimeout (k : nat)    (* ... returns 0: its timeout ran out (calls with a timeout only) *)
| TWaitTimeout (k : nat)    (* its timed wait for the I/O path ran out (calls with a timeout only) *)
| TEnv (e : event).         (* the peer, or another thread in an entry point that does not read from the socket *)

Inductive tob := TObs (k : nat) (o : obs) | TPoll (k : nat) | TSleep (k : nat) | TEnvObs (o : obs).

Definition set_thread (ts : tstate) (k : nat) (th : thread) : tstate :=
  mkTS (ts_base ts) (ts_io ts) (upd (ts_threads ts) k (fun _ => th)).
Definition with_pc (th : thread) (p : pc) : thread := mkTh (th_call th) p (th_gave th).

(* the two checks of do_iteration: completed, or a reply with the call's serial already queued *)
Definition nothing_to_wait_for (st : state) (i : nat) : bool :=
  match nth_error (calls st) i with
  | Some c => c_completed c || match find_reply (queue st) (c_serial c) with Some _ => true | None => false end
  | None => true
  end.

Definition call_finite (st : state) (i : nat) : bool :=
  match nth_error (calls st) i with Some c => c_finite c | None => false end.

Definition tag (k : nat) (o : list obs) : list tob := map (TObs k) o.

Definition run_thread (faithful : bool) (ts : tstate) (k : nat) (th : thread) : tstate * list tob :=
  let st := ts_base ts in
  let i := th_call th in
  match th_pc th with
  | PStart =>
    match nth_error (calls st) i with
    | None => (set_thread ts k (with_pc th PDone), [])
    | Some c =>
      if c_completed c then (set_thread ts k (with_pc th PDone), [])
      else
        let s0 := u_status st in                       (* _dbus_connection_flush_unlocked with nothing to flush *)
        match blk_check s0 i with
        | Some (s1, o) => (mkTS s1 (ts_io ts) (upd (ts_threads ts) k (fun _ => with_pc th PNotify)), tag k o)
        | None => (mkTS s0 (ts_io ts) (upd (ts_threads ts) k (fun _ => with_pc th PCheck)), [])
        end
    end
  | PCheck =>
    if faithful then (set_thread ts k (with_pc th PWantIo), [])
    else if nothing_to_wait_for st i then (set_thread ts k (with_pc th PRecheck), [])
         else (set_thread ts k (with_pc th PWantIo), [])
  | PWantIo =>
    if ts_io ts then (ts, [])                                                       (* blocked on io_path_cond *)
    else (mkTS st true (upd (ts_threads ts) k (fun _ => with_pc th PHaveIo)), [])
  | PHaveIo =>
    if faithful && nothing_to_wait_for st i
    then (mkTS st false (upd (ts_threads ts) k (fun _ => with_pc th PRecheck)), [])   (* release_io_path, no I/O *)
    else if connected st
         then (set_thread ts k (with_pc th PInPoll), [TPoll k])
         else (mkTS st false (upd (ts_threads ts) k (fun _ => with_pc th PRecheck)), [])  (* transport gone: no poll *)
  | PInPoll => (ts, [])                                                             (* asleep *)
  | PRecheck =>
    match blk_recheck st i (th_gave th) with
    | inl (s1, o) => (mkTS s1 (ts_io ts) (upd (ts_threads ts) k (fun _ => with_pc th PNotify)), tag k o)
    | inr s1 => (mkTS s1 (ts_io ts) (upd (ts_threads ts) k (fun _ => with_pc th PCheck)), [])
    end
  | PNotify =>
    let '(s1, o) := finish st i in
    (mkTS s1 (ts_io ts) (upd (ts_threads ts) k (fun _ => with_pc th PDone)), tag k o)
  | PDone => (ts, [])
  end.

Definition readable (st : state) : bool := match wire st with [] => peer_closed st | _ => true end.

Definition tstep_run (faithful : bool) (ts : tstate) (s : tstep) : tstate * list tob :=
  match s with
  | TRun k => match nth_error (ts_threads ts) k with Some th => run_thread faithful ts k th | None => (ts, []) end
  | TWake k =>
    match nth_error (ts_threads ts) k with
    | Some th => match th_pc th with
                 | PInPoll => if readable (ts_base ts)
                              then (mkTS (u_read (ts_base ts)) false (upd (ts_threads ts) k (fun _ => with_pc th PRecheck)), [])
                              else (ts, [])
                 | _ => (ts, [])
                 end
    | None => (ts, [])
    end
  | TPollTimeout k =>
    match nth_error (ts_threads ts) k with
    | Some th => match th_pc th with
                 | PInPoll => if call_finite (ts_base ts) (th_call th)
                              then (mkTS (ts_base ts) false (upd (ts_threads ts) k (fun _ => mkTh (th_call th) PRecheck true)), [])
                              else (ts, [])
                 | _ => (ts, [])
                 end
    | None => (ts, [])
    end
  | TWaitTimeout k =>
    match nth_error (ts_threads ts) k with
    | Some th => match th_pc th with
                 | PWantIo => if call_finite (ts_base ts) (th_call th)
                              then (set_thread ts k (mkTh (th_call th) PRecheck true), [])
                              else (ts, [])
                 | _ => (ts, [])
                 end
    | None => (ts, [])
    end
  | TEnv e => let '(s1, o) := step (ts_base ts) e in (mkTS s1 (ts_io ts) (ts_threads ts), map TEnvObs o)
  end.

Fixpoint trun (faithful : bool) (ts : tstate) (l : list tstep) : tstate * list tob :=
  match l with
  | [] => (ts, [])
  | s :: r => let '(t1, o1) := tstep_run faithful ts s in let '(t2, o2) := trun faithful t1 r in (t2, o1 ++ o2)
  end.

Definition tinit (st : state) (targets : list nat) : tstate := mkTS st false (map (fun i => mkTh i PStart false) targets).

(* what other threads / the peer may do meanwhile without owning the I/O path (they do not read from the socket, and
   they do not close the connection or fire a timeout under the sleeping thread) *)
Definition env_ok (e : event) : bool :=
  match e with
  | ESend _ _ | EPlain | EPeer _ _ _ | EPeerReply _ _ _ | EPeerClose | ECancel _ | EDispatch | ESteal _ | EFinish _ | EStatus => true
  | _ => false
  end.
Definition step_ok (s : tstep) : bool := match s with TEnv e => env_ok e | _ => true end.

(* ---- the schedule the two-thread harness event TT drives ------------------
   A blocks on call a and goes to sleep in poll(); B blocks on call b and ends
   up waiting for the I/O path; the peer writes [msgs] in one go; A's poll
   returns; A runs to the end; B runs to the end.  A thread that goes to sleep
   once more is reported (TPoll again) and woken with an unrelated signal. *)
Definition pc_of (ts : tstate) (k : nat) : pc := match nth_error (ts_threads ts) k with Some th => th_pc th | None => PDone end.
Definition is_pc (p q : pc) : bool :=
  match p, q with
  | PStart, PStart | PCheck, PCheck | PWantIo, PWantIo | PHaveIo, PHaveIo | PInPoll, PInPoll
  | PRecheck, PRecheck | PNotify, PNotify | PDone, PDone => true
  | _, _ => false
  end.

(* run thread k until it sleeps in poll, is blocked on the I/O path, or is done *)
Fixpoint run_until_blocked (faithful : bool) (fuel : nat) (ts : tstate) (k : nat) : tstate * list tob :=
  match fuel with
  | O => (ts, [])
  | S f =>
    let p := pc_of ts k in
    if is_pc p PDone || is_pc p PInPoll || (is_pc p PWantIo && ts_io ts) then (ts, [])
    else let '(t1, o1) := tstep_run faithful ts (TRun k) in
         let '(t2, o2) := run_until_blocked faithful f t1 k in (t2, o1 ++ o2)
  end.

(* ... to the end, waking it with an unrelated signal whenever it sleeps with nothing readable *)
Fixpoint run_to_end (faithful : bool) (fuel : nat) (ts : tstate) (k : nat) : tstate * list tob :=
  match fuel with
  | O => (ts, [])
  | S f =>
    let '(t1, o1) := run_until_blocked faithful 12 ts k in
    if is_pc (pc_of t1 k) PInPoll then
      let '(t2, o2) := trun faithful t1 ((if readable (ts_base t1) then [] else [TEnv (EPeer PSignal 0 999999)]) ++ [TWake k]) in
      let '(t3, o3) := run_to_end faithful f t2 k in
      (t3, o1 ++ (if readable (ts_base t1) then [] else [TSleep k]) ++ o2 ++ o3)
    else (t1, o1)
  end.

Definition two_threads (faithful : bool) (st : state) (a b : nat) (msgs : list pmsg) : tstate * list tob :=
  let t0 := tinit st [a; b] in
  let '(t1, o1) := run_until_blocked faithful 12 t0 0 in
  let '(t2, o2) := run_until_blocked faithful 12 t1 1 in
  let '(t3, o3) := trun faithful t2 (map TEnv (peer_events msgs) ++ [TWake 0]) in
  let '(t4, o4) := run_to_end faithful 4 t3 0 in
  let '(t5, o5) := run_to_end faithful 4 t4 1 in
  (t5, o1 ++ o2 ++ o3 ++ o4 ++ o5).
