(* Model, part 3 (C20 deepening): _dbus_decompose_path (dbus/dbus-object-tree.c) at
   byte level — how the PATH string of a message or of a registration call
   becomes the list of elements the tree works on.

     n_components = 0; if (len > 1) count the '/' bytes          count_slash (and the NUL assertion in decompose)
     comp = 0; i = (n_components == 0) ? 1 : 0;
     while (comp < n_components) {                                comps
         _dbus_assert (i < len);
         if (data[i] == '/') ++i;
         j = i; while (j < len && data[j] != '/') ++j;            span_comp
         _dbus_assert (i < j); ...
         retval[comp] = data[i .. j);  ++comp; i = j; }
     _dbus_assert (i == len);

   A failing _dbus_assert is [Fault] (with assertions compiled out the C code
   would go on with an empty or truncated component).  The position i is
   represented by the suffix data[i ..). *)
From DV Require Export ObjTree.ObjTree.
Local Open Scope nat_scope.

Definition SLASH : N := 47%N.

Fixpoint count_slash (s : bytes) : nat :=
  match s with
  | [] => 0
  | c :: r => if N.eqb c SLASH then S (count_slash r) else count_slash r
  end.

(* j = i; while (j < len && data[j] != '/') ++j;  ->  (data[i..j), data[j..)) *)
Fixpoint span_comp (s : bytes) : bytes * bytes :=
  match s with
  | [] => ([], [])
  | c :: r => if N.eqb c SLASH then ([], s) else let (a, b) := span_comp r in (c :: a, b)
  end.

Fixpoint comps (n : nat) (rest : bytes) : res (list bytes) :=
  match n with
  | O => match rest with [] => Ok [] | _ => Fault end                (* _dbus_assert (i == len) *)
  | S n' =>
      match rest with
      | [] => Fault                                                  (* _dbus_assert (i < len) *)
      | c :: r =>
          let r1 := if N.eqb c SLASH then r else rest in             (* if (data[i] == '/') ++i; *)
          let (comp, r2) := span_comp r1 in
          match comp with
          | [] => Fault                                              (* _dbus_assert (i < j) *)
          | _ => match comps n' r2 with
                 | Ok l => Ok (comp :: l)
                 | Fault => Fault
                 | OutOfFuel => OutOfFuel
                 end
          end
      end
  end.

Definition decompose_body (s : bytes) : res path :=
  let n := if 1 <? length s then count_slash s else 0 in
  match n with
  | O => match s with [_] => Ok [] | _ => Fault end                  (* i = 1; _dbus_assert (i == len) *)
  | _ => comps n s
  end.

(* the counting loop also has  _dbus_assert (data[i] != '\0')  for every byte when len > 1 *)
Definition decompose (s : bytes) : res path :=
  if (1 <? length s) && existsb (N.eqb 0%N) s then Fault else decompose_body s.

(* flatten_path (used for the ObjectPathInUse message): "/" for the empty vector, else "/" e1 "/" e2 ... *)
Fixpoint flatten_elems (p : path) : bytes :=
  match p with
  | [] => []
  | e :: r => SLASH :: e ++ flatten_elems r
  end.
Definition flatten (p : path) : bytes := match p with [] => [SLASH] | _ => flatten_elems p end.
