(* Model of dbus/dbus-object-tree.c (object-path registration trie of a
   DBusConnection) and of the error choice at the end of
   dbus_connection_dispatch (dbus/dbus-connection.c).  Written after the C
   control flow; model only, no proofs here.

     C                                         here
     ----------------------------------------  --------------------------------
     DBusObjectSubtree                         node (name, handler = user data of
                                               the registered vtable or None for
                                               message_function == NULL,
                                               invoke_as_fallback, subtrees)
     strcmp                                    bytes_cmp
     the `while (i < j)` binary search in      bsearch / find_child
       find_subtree_recurse and
       unregister_and_free_path_recurse
     _dbus_object_tree_new                     tree_new
     find_subtree_recurse, create=F deepest=F  lookup_subtree      (lookup_subtree)
     find_subtree_recurse, deepest (exact_match
       != NULL)                                find_deepest        (find_handler)
     find_subtree_recurse, create=T, followed
       by the body of _dbus_object_tree_register  register_rec / tree_register
     unregister_subtree                        the [] case of unregister_rec
     attempt_child_removal                     attempt_child_removal
     unregister_and_free_path_recurse          unregister_rec / tree_unregister
     _dbus_object_tree_list_registered_unlocked  list_registered
     handler list construction and invocation
       loop in _dbus_object_tree_dispatch_and_unlock   collect / invoke / tree_dispatch
     found_object ? UnknownMethod : UnknownObject
       in dbus_connection_dispatch             the final `if` of tree_dispatch

   A path is the decomposed form (_dbus_decompose_path): the list of its
   elements, "/" being [].  Path elements are C strings: they contain no 0
   byte (the theorems do not need this, the correspondence run only uses valid
   object paths).  Parent pointers do not exist in a functional model: the
   deepest-match search returns the chain  found node :: its ancestors  that
   the C code walks through subtree->parent.  Allocation failure is outside
   the model. *)
From DV Require Export Lib.Base.
From Coq Require Export PeanoNat.
Local Open Scope nat_scope.

Definition path := list bytes.

(* strcmp on NUL-free strings: unsigned bytewise, shorter string first *)
Fixpoint bytes_cmp (a b : bytes) : comparison :=
  match a, b with
  | [], [] => Eq
  | [], _ :: _ => Lt
  | _ :: _, [] => Gt
  | x :: a', y :: b' => match N.compare x y with Eq => bytes_cmp a' b' | c => c end
  end.

Inductive node : Type :=
  Node (nname : bytes) (nhandler : option N) (nfallback : bool) (nkids : list node).

Definition nname (n : node) := let (a, _, _, _) := n in a.
Definition nhandler (n : node) := let (_, h, _, _) := n in h.
Definition nfallback (n : node) := let (_, _, f, _) := n in f.
Definition nkids (n : node) := let (_, _, _, k) := n in k.

(* _dbus_object_subtree_new (name, NULL, NULL) *)
Definition node_new (name : bytes) : node := Node name None false [].

(* _dbus_object_tree_new: root "/" with invoke_as_fallback = TRUE *)
Definition tree_new : node := Node [47%N] None true [].

Inductive res (A : Type) : Type :=
| Ok (a : A)
| Fault        (* array index out of range: would be a wild read in C *)
| OutOfFuel.   (* loop bound of the model exhausted; excluded by the theorems *)
Arguments Ok {A} a.
Arguments Fault {A}.
Arguments OutOfFuel {A}.

(* ---- binary search over subtree->subtrees[0 .. n_subtrees) ---------------- *)
Inductive bs_result : Type :=
| BsFound (k : nat) (c : node)     (* v == 0 at index k *)
| BsMissing (i : nat)              (* loop ended with i == j: insertion point *)
| BsFault
| BsFuel.

Fixpoint bsearch (fuel : nat) (key : bytes) (kids : list node) (i j : nat) : bs_result :=
  match fuel with
  | O => BsFuel
  | S fuel' =>
      if i <? j then
        let k := (i + j) / 2 in
        match nth_error kids k with
        | None => BsFault
        | Some c =>
            match bytes_cmp key (nname c) with
            | Eq => BsFound k c
            | Lt => bsearch fuel' key kids i k
            | Gt => bsearch fuel' key kids (S k) j
            end
        end
      else BsMissing i
  end.

(* i = 0; j = subtree->n_subtrees; while (i < j) ... *)
Definition find_child (key : bytes) (kids : list node) : bs_result :=
  bsearch (S (length kids)) key kids 0 (length kids).

(* array edits: memmove up + store / store / memmove down *)
Definition insert_at (i : nat) (c : node) (kids : list node) := firstn i kids ++ c :: skipn i kids.
Definition replace_at (k : nat) (c : node) (kids : list node) := firstn k kids ++ c :: skipn (S k) kids.
Definition remove_at (k : nat) (kids : list node) := firstn k kids ++ skipn (S k) kids.

(* ---- find_subtree_recurse (subtree, path, FALSE, NULL, NULL) -------------- *)
Fixpoint lookup_subtree (n : node) (p : path) : res (option node) :=
  match p with
  | [] => Ok (Some n)
  | e :: r =>
      match find_child e (nkids n) with
      | BsFound _ c => lookup_subtree c r
      | BsMissing _ => Ok None
      | BsFault => Fault
      | BsFuel => OutOfFuel
      end
  end.

(* ---- find_subtree_recurse (subtree, path, FALSE, NULL, &exact_match) ------
   [up] = ancestors of [n], nearest first.  Result: (chain, exact_match) where
   chain = returned subtree :: its ancestors, None for a NULL return. *)
Fixpoint find_deepest (n : node) (up : list node) (p : path) : res (option (list node) * bool) :=
  match p with
  | [] => Ok (Some (n :: up), true)
  | e :: r =>
      match find_child e (nkids n) with
      | BsFound _ c =>
          match find_deepest c (n :: up) r with
          | Ok (None, ex) =>
              if nfallback n then Ok (Some (n :: up), false)    (* next == NULL && invoke_as_fallback *)
              else Ok (None, ex)
          | other => other
          end
      | BsMissing _ => Ok (if nfallback n then Some (n :: up) else None, false)
      | BsFault => Fault
      | BsFuel => OutOfFuel
      end
  end.

(* ---- ensure_subtree + _dbus_object_tree_register ---------------------------
   Returns the tree after the call (including nodes created by ensure_subtree
   even when the registration is then refused) and the return value. *)
Fixpoint register_rec (n : node) (p : path) (fb : bool) (h : N) : res (node * bool) :=
  match p with
  | [] =>
      match nhandler n with
      | Some _ => Ok (n, false)                                  (* ObjectPathInUse *)
      | None => Ok (Node (nname n) (Some h) fb (nkids n), true)
      end
  | e :: r =>
      match find_child e (nkids n) with
      | BsFound k c =>
          match register_rec c r fb h with
          | Ok (c', ok) => Ok (Node (nname n) (nhandler n) (nfallback n) (replace_at k c' (nkids n)), ok)
          | Fault => Fault
          | OutOfFuel => OutOfFuel
          end
      | BsMissing i =>
          match register_rec (node_new e) r fb h with
          | Ok (c', ok) => Ok (Node (nname n) (nhandler n) (nfallback n) (insert_at i c' (nkids n)), ok)
          | Fault => Fault
          | OutOfFuel => OutOfFuel
          end
      | BsFault => Fault
      | BsFuel => OutOfFuel
      end
  end.

Definition tree_register (t : node) (fb : bool) (p : path) (h : N) : res (node * bool) :=
  register_rec t p fb h.

(* ---- attempt_child_removal (parent, child_index), applied to the child
   array; None = returned FALSE *)
Definition attempt_child_removal (kids : list node) (k : nat) : res (option (list node)) :=
  match nth_error kids k with
  | None => Fault
  | Some cand =>
      match nkids cand, nhandler cand with
      | [], None => Ok (Some (remove_at k kids))
      | _, _ => Ok None
      end
  end.

(* ---- unregister_and_free_path_recurse --------------------------------------
   Returns (subtree afterwards, return value `freed`, *continue_removal_attempts). *)
Fixpoint unregister_rec (n : node) (p : path) (cont : bool) : res (node * bool * bool) :=
  match p with
  | [] =>
      (* unregister_subtree: clears the functions and user data, keeps invoke_as_fallback *)
      match nhandler n with
      | Some _ => Ok (Node (nname n) None (nfallback n) (nkids n), true, cont)
      | None => Ok (n, false, cont)
      end
  | e :: r =>
      match find_child e (nkids n) with
      | BsFound k c =>
          match unregister_rec c r cont with
          | Ok (c', freed, cont') =>
              let kids1 := replace_at k c' (nkids n) in
              if freed && cont' then
                match attempt_child_removal kids1 k with
                | Ok (Some kids2) => Ok (Node (nname n) (nhandler n) (nfallback n) kids2, freed, true)
                | Ok None => Ok (Node (nname n) (nhandler n) (nfallback n) kids1, freed, false)
                | Fault => Fault
                | OutOfFuel => OutOfFuel
                end
              else Ok (Node (nname n) (nhandler n) (nfallback n) kids1, freed, cont')
          | Fault => Fault
          | OutOfFuel => OutOfFuel
          end
      | BsMissing _ => Ok (n, false, cont)
      | BsFault => Fault
      | BsFuel => OutOfFuel
      end
  end.

(* _dbus_object_tree_unregister_and_unlock; second component = found_subtree
   (FALSE only produces a warning) *)
Definition tree_unregister (t : node) (p : path) : res (node * bool) :=
  match unregister_rec t p true with
  | Ok (t', freed, _) => Ok (t', freed)
  | Fault => Fault
  | OutOfFuel => OutOfFuel
  end.

(* ---- _dbus_object_tree_list_registered_unlocked ---------------------------- *)
Definition list_registered (t : node) (p : path) : res (list bytes) :=
  match lookup_subtree t p with
  | Ok (Some n) => Ok (map nname (nkids n))
  | Ok None => Ok []
  | Fault => Fault
  | OutOfFuel => OutOfFuel
  end.

(* ---- _dbus_object_tree_dispatch_and_unlock --------------------------------- *)
(* while (subtree != NULL) { if (message_function != NULL && (exact_match ||
   invoke_as_fallback)) append; exact_match = FALSE; subtree = subtree->parent; } *)
Fixpoint collect (chain : list node) (exact : bool) : list N :=
  match chain with
  | [] => []
  | n :: up =>
      match nhandler n with
      | Some h => if exact || nfallback n then h :: collect up false else collect up false
      | None => collect up false
      end
  end.

(* invocation loop: [accepts h] = handler h returns something other than
   NOT_YET_HANDLED.  Result: handlers invoked in order, and whether one accepted. *)
Fixpoint invoke (hs : list N) (accepts : N -> bool) : list N * bool :=
  match hs with
  | [] => ([], false)
  | h :: rest =>
      if accepts h then ([h], true)
      else let (l, b) := invoke rest accepts in (h :: l, b)
  end.

Inductive outcome : Type := Handled | UnknownMethod | UnknownObject.

(* handler list of a method call to [p] *)
Definition handlers_for (t : node) (p : path) : res (list N * bool) :=
  match find_deepest t [] p with
  | Ok (Some chain, exact) => Ok (collect chain exact, true)   (* *found_object = !!subtree *)
  | Ok (None, _) => Ok ([], false)
  | Fault => Fault
  | OutOfFuel => OutOfFuel
  end.

(* a method call that is neither Introspect nor on the Peer interface:
   object-tree dispatch, then the automatic error reply of dbus_connection_dispatch *)
Definition tree_dispatch (t : node) (p : path) (accepts : N -> bool) : res (list N * outcome) :=
  match handlers_for t p with
  | Ok (hs, found_object) =>
      let (invoked, handled) := invoke hs accepts in
      Ok (invoked, if handled then Handled else if found_object then UnknownMethod else UnknownObject)
  | Fault => Fault
  | OutOfFuel => OutOfFuel
  end.

(* ---- histories -------------------------------------------------------------- *)
Inductive op : Type :=
| Register (fallback : bool) (p : path) (h : N)     (* dbus_connection_try_register_object_path / _fallback *)
| Unregister (p : path).                            (* dbus_connection_unregister_object_path *)

(* tree after the operation and its return value (found_subtree for Unregister) *)
Definition step (t : node) (o : op) : res (node * bool) :=
  match o with
  | Register fb p h => tree_register t fb p h
  | Unregister p => tree_unregister t p
  end.

Fixpoint run_from (t : node) (ops : list op) : res node :=
  match ops with
  | [] => Ok t
  | o :: rest =>
      match step t o with
      | Ok (t', _) => run_from t' rest
      | Fault => Fault
      | OutOfFuel => OutOfFuel
      end
  end.

Definition run (ops : list op) : res node := run_from tree_new ops.
