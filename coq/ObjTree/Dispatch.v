(* Model, part 2 (C20 deepening): the whole path of one incoming message through
   dbus_connection_dispatch (dbus/dbus-connection.c) and
   _dbus_object_tree_dispatch_and_unlock (dbus/dbus-object-tree.c), including
   what the first model left out:

     C                                               here
     ----------------------------------------------  ------------------------------
     pending-reply lookup at the top of
       dbus_connection_dispatch                      the m_reply_pending test of attempt
     _dbus_connection_peer_filter_unlocked_no_update peer_filter
     filter_list_copy loop                           run_filters
     dbus_message_get_path_decomposed == NULL        m_path = None in tree_dispatch_msg
     find_handler, *found_object, the list of
       referenced subtrees (the snapshot a dispatch
       works on)                                     snapshot
     invocation loop with `if (subtree->
       message_function)` re-read after every
       callback (re-entrant register/unregister)     invoke_snapshot, run_actions
     result != NOT_YET_HANDLED -> free_and_return    the cb_result plumbing
     handle_default_introspect_and_unlock            default_introspect
     error reply, only for METHOD_CALL               attempt
     DBUS_HANDLER_RESULT_NEED_MEMORY -> message put
       back, dispatched again from the start         conn_dispatch (requeue loop)
     _dbus_object_tree_get_user_data_unlocked        get_user_data
     free_subtree_recurse / _free_all_unlocked       free_all

   Callbacks (filters and object-path handlers alike) are scripted: a callback
   with id h returns NEED_MEMORY the first time it runs if h is in the [oom]
   list, otherwise it first performs [actions h] (register / unregister calls
   on the same connection) and then returns HANDLED if [accepts h], else
   NOT_YET_HANDLED.

   Pointer identity.  The list built by the dispatch holds references to
   DBusObjectSubtree objects, and the invocation loop reads message_function
   and user_data of these OBJECTS when their turn comes.  The functional
   model names an object by its path plus an [attached] bit: an object stays the
   same as long as a node exists at its path after every operation (register
   never removes nodes, one unregister only removes by pruning); once pruned it
   is detached for good, and a detached object has message_function == NULL
   (attempt_child_removal only removes such nodes, nothing can reach them
   afterwards).  A node re-created at the same path is a NEW object. *)
From DV Require Export ObjTree.ObjTree.
Local Open Scope nat_scope.

Inductive mtype : Type := MethodCall | MethodReturn | ErrorMsg | Signal.
Inductive miface : Type := IfNone | IfPeer | IfIntrospectable | IfOther.
Inductive mmember : Type := MemNone | MemPing | MemGetMachineId | MemIntrospect | MemOther.

Record msg : Type := Msg {
  m_type : mtype;
  m_iface : miface;
  m_member : mmember;
  m_path : option path;          (* PATH header field, decomposed *)
  m_reply_pending : bool         (* REPLY_SERIAL names a pending call of this connection *)
}.

Record behaviour : Type := Behaviour {
  accepts : N -> bool;
  actions : N -> list op
}.

Inductive cb_result : Type := RHandled | RNotYet | RNeedMemory.

Definition type_eqb (a b : mtype) : bool :=
  match a, b with
  | MethodCall, MethodCall | MethodReturn, MethodReturn | ErrorMsg, ErrorMsg | Signal, Signal => true
  | _, _ => false
  end.
Definition member_eqb (a b : mmember) : bool :=
  match a, b with
  | MemNone, MemNone | MemPing, MemPing | MemGetMachineId, MemGetMachineId | MemIntrospect, MemIntrospect
  | MemOther, MemOther => true
  | _, _ => false
  end.
Definition iface_eqb (a b : miface) : bool :=
  match a, b with
  | IfNone, IfNone | IfPeer, IfPeer | IfIntrospectable, IfIntrospectable | IfOther, IfOther => true
  | _, _ => false
  end.

(* dbus_message_is_method_call (m, iface, member): type and member must match,
   an absent INTERFACE field matches any interface *)
Definition is_method_call (m : msg) (i : miface) (mem : mmember) : bool :=
  type_eqb (m_type m) MethodCall && member_eqb (m_member m) mem &&
  (iface_eqb (m_iface m) IfNone || iface_eqb (m_iface m) i).

Fixpoint mem_n (h : N) (l : list N) : bool :=
  match l with [] => false | x :: r => N.eqb x h || mem_n h r end.
Fixpoint remove_n (h : N) (l : list N) : list N :=
  match l with [] => [] | x :: r => if N.eqb x h then r else x :: remove_n h r end.

(* what the peer sees as the answer to the message *)
Inductive reply : Type :=
| RepByCallback                 (* a callback took the message (it may have replied itself) *)
| RepPeerPing                   (* empty method return from the built-in Peer.Ping *)
| RepPeerMachineId              (* built-in Peer.GetMachineId: method return with the id, or the error reading it *)
| RepUnknownMethod
| RepUnknownObject
| RepIntrospect (children : list bytes)   (* default Introspect XML: one <node name=.../> per child *)
| RepPendingCompleted           (* handed to the pending call; nothing else runs *)
| RepNone.                      (* nothing sent *)

(* ---- _dbus_connection_peer_filter_unlocked_no_update (route_peer_messages off) ---- *)
Definition peer_filter (m : msg) : option reply :=
  if iface_eqb (m_iface m) IfPeer then
    if is_method_call m IfPeer MemPing then Some RepPeerPing
    else if is_method_call m IfPeer MemGetMachineId then Some RepPeerMachineId
    else Some RepUnknownMethod     (* "bounce anything else with this interface": whatever the message type *)
  else None.

(* ---- one callback -------------------------------------------------------------------- *)
(* ---- the tree operations the dispatch code uses --------------------------------------------
   The dispatch below is written once, over a record of tree primitives, and
   instantiated twice: with the trie model of ObjTree.v ([model_ops], this IS the
   model of the C code) and, in Spec/ObjtreeSpecDispatch.v, with the flat
   registration map (the specification).  [strict] is FALSE for the code: the
   invocation loop does not re-check that the object it is about to call is still
   registered for this message's path. *)
Fixpoint path_eqb' (a b : path) : bool :=
  match a, b with
  | [], [] => true
  | x :: a', y :: b' => bytes_eqb x y && path_eqb' a' b'
  | _, _ => false
  end.

Record tree_ops (S : Type) : Type := TreeOps {
  o_step : S -> op -> res (S * bool);                    (* register / unregister *)
  o_entries : S -> path -> res (list path * bool);       (* find_handler + the list of referenced subtrees (as paths), *found_object *)
  o_registration : S -> path -> res (option (N * bool)); (* message_function/user_data and invoke_as_fallback of the node at a path *)
  o_present : S -> path -> res bool;                     (* is there a node at this path *)
  o_children : S -> path -> res (list bytes)             (* _dbus_object_tree_list_registered_unlocked *)
}.
Arguments o_step {S}. Arguments o_entries {S}. Arguments o_registration {S}. Arguments o_present {S}. Arguments o_children {S}.

Section Dispatch.
  Variable St : Type.
  Variable ops : tree_ops St.
  Variable strict : bool.

  (* [watch] = paths of the objects the running dispatch still holds references to;
     [dead] = those among them that have been detached (pruned) since the list was built.
     An object survives an operation iff a node is still at its path afterwards. *)
  Fixpoint update_dead (t' : St) (watch : list path) (dead : list path) : res (list path) :=
    match watch with
    | [] => Ok dead
    | q :: w' =>
        match o_present ops t' q with
        | Ok true => update_dead t' w' dead
        | Ok false => update_dead t' w' (q :: dead)
        | Fault => Fault
        | OutOfFuel => OutOfFuel
        end
    end.

  (* executes the callback's register/unregister calls *)
  Fixpoint run_actions (t : St) (acts : list op) (watch dead : list path) : res (St * list path) :=
    match acts with
    | [] => Ok (t, dead)
    | o :: rest =>
        match o_step ops t o with
        | Ok (t', _) =>
            match update_dead t' watch dead with
            | Ok dead' => run_actions t' rest watch dead'
            | Fault => Fault
            | OutOfFuel => OutOfFuel
            end
        | Fault => Fault
        | OutOfFuel => OutOfFuel
        end
    end.

  (* ---- the invocation loop of _dbus_object_tree_dispatch_and_unlock ----------------------
     [p] = path of the message.  Result: tree afterwards, callbacks run (in order),
     result of the last one, remaining oom list *)
  Fixpoint invoke_snapshot (t : St) (p : path) (entries : list path) (dead : list path) (b : behaviour) (oom : list N)
    : res (St * list N * cb_result * list N) :=
    match entries with
    | [] => Ok (t, [], RNotYet, oom)
    | q :: rest =>
        (* subtree->message_function / user_data of the referenced object, read now *)
        match (if existsb (path_eqb' q) dead then Ok None else o_registration ops t q) with
        | Ok (Some (h, fb)) =>
            if strict && negb (path_eqb' q p || fb) then invoke_snapshot t p rest dead b oom
            else if mem_n h oom then Ok (t, [h], RNeedMemory, remove_n h oom)
            else
              match run_actions t (actions b h) rest dead with
              | Ok (t', dead') =>
                  if accepts b h then Ok (t', [h], RHandled, oom)
                  else
                    match invoke_snapshot t' p rest dead' b oom with
                    | Ok (t'', l, r, oom') => Ok (t'', h :: l, r, oom')
                    | Fault => Fault
                    | OutOfFuel => OutOfFuel
                    end
              | Fault => Fault
              | OutOfFuel => OutOfFuel
              end
        | Ok None => invoke_snapshot t p rest dead b oom   (* "message_function is NULL if we're unregistered due to reentrancy" *)
        | Fault => Fault
        | OutOfFuel => OutOfFuel
        end
    end.

  (* ---- handle_default_introspect_and_unlock -------------------------------------------- *)
  Definition default_introspect (t : St) (m : msg) (p : path) : res (option reply) :=
    if is_method_call m IfIntrospectable MemIntrospect then
      match o_children ops t p with
      | Ok l => Ok (Some (RepIntrospect l))
      | Fault => Fault
      | OutOfFuel => OutOfFuel
      end
    else Ok None.

  (* ---- _dbus_object_tree_dispatch_and_unlock ---------------------------------------------
     result: tree, callbacks run, handler result, reply produced inside (default
     Introspect), *found_object (None = not written: no PATH field) *)
  Definition tree_dispatch_msg (t : St) (m : msg) (b : behaviour) (oom : list N)
    : res (St * list N * cb_result * option reply * option bool * list N) :=
    match m_path m with
    | None => Ok (t, [], RNotYet, None, None, oom)
    | Some p =>
        match o_entries ops t p with
        | Ok (entries, found) =>
            match invoke_snapshot t p entries [] b oom with
            | Ok (t', log, RNotYet, oom') =>
                match default_introspect t' m p with
                | Ok (Some r) => Ok (t', log, RHandled, Some r, Some found, oom')
                | Ok None => Ok (t', log, RNotYet, None, Some found, oom')
                | Fault => Fault
                | OutOfFuel => OutOfFuel
                end
            | Ok (t', log, r, oom') => Ok (t', log, r, None, Some found, oom')
            | Fault => Fault
            | OutOfFuel => OutOfFuel
            end
        | Fault => Fault
        | OutOfFuel => OutOfFuel
        end
    end.

  (* ---- the filter loop of dbus_connection_dispatch --------------------------------------- *)
  Fixpoint run_filters (t : St) (filters : list N) (b : behaviour) (oom : list N)
    : res (St * list N * cb_result * list N) :=
    match filters with
    | [] => Ok (t, [], RNotYet, oom)
    | f :: rest =>
        if mem_n f oom then Ok (t, [f], RNeedMemory, remove_n f oom)
        else
          match run_actions t (actions b f) [] [] with
          | Ok (t', _) =>
              if accepts b f then Ok (t', [f], RHandled, oom)
              else
                match run_filters t' rest b oom with
                | Ok (t'', l, r, oom') => Ok (t'', f :: l, r, oom')
                | Fault => Fault
                | OutOfFuel => OutOfFuel
                end
          | Fault => Fault
          | OutOfFuel => OutOfFuel
          end
    end.

  (* ---- one call of dbus_connection_dispatch for this message -------------------------------
     None as reply = NEED_MEMORY: the message is put back *)
  Definition attempt (t : St) (filters : list N) (m : msg) (b : behaviour) (oom : list N)
    : res (St * list N * option reply * list N) :=
    if m_reply_pending m then Ok (t, [], Some RepPendingCompleted, oom)
    else
      match peer_filter m with
      | Some r => Ok (t, [], Some r, oom)
      | None =>
          match run_filters t filters b oom with
          | Ok (t1, l1, RNeedMemory, oom1) => Ok (t1, l1, None, oom1)
          | Ok (t1, l1, RHandled, oom1) => Ok (t1, l1, Some RepByCallback, oom1)
          | Ok (t1, l1, RNotYet, oom1) =>
              match tree_dispatch_msg t1 m b oom1 with
              | Ok (t2, l2, RNeedMemory, _, _, oom2) => Ok (t2, l1 ++ l2, None, oom2)
              | Ok (t2, l2, RHandled, Some r, _, oom2) => Ok (t2, l1 ++ l2, Some r, oom2)
              | Ok (t2, l2, RHandled, None, _, oom2) => Ok (t2, l1 ++ l2, Some RepByCallback, oom2)
              | Ok (t2, l2, RNotYet, _, found, oom2) =>
                  if type_eqb (m_type m) MethodCall then
                    match found with
                    | Some true => Ok (t2, l1 ++ l2, Some RepUnknownMethod, oom2)
                    | Some false => Ok (t2, l1 ++ l2, Some RepUnknownObject, oom2)
                    | None => Fault            (* found_object read uninitialised: a method call without PATH *)
                    end
                  else Ok (t2, l1 ++ l2, Some RepNone, oom2)
              | Fault => Fault
              | OutOfFuel => OutOfFuel
              end
          | Fault => Fault
          | OutOfFuel => OutOfFuel
          end
      end.

  (* the message is dispatched again until something other than NEED_MEMORY comes out *)
  Fixpoint conn_dispatch (fuel : nat) (t : St) (filters : list N) (m : msg) (b : behaviour) (oom : list N)
    : res (St * list N * reply) :=
    match fuel with
    | O => OutOfFuel
    | S fuel' =>
        match attempt t filters m b oom with
        | Ok (t', l, Some r, _) => Ok (t', l, r)
        | Ok (t', l, None, oom') =>
            match conn_dispatch fuel' t' filters m b oom' with
            | Ok (t'', l', r) => Ok (t'', l ++ l', r)
            | Fault => Fault
            | OutOfFuel => OutOfFuel
            end
        | Fault => Fault
        | OutOfFuel => OutOfFuel
        end
    end.

  Definition dispatch_message_gen (t : St) (filters : list N) (m : msg) (b : behaviour) (oom : list N) :=
    conn_dispatch (S (length oom)) t filters m b oom.
End Dispatch.

(* ---- the tree primitives of the C code ------------------------------------------------------ *)
(* the list of referenced subtrees built by _dbus_object_tree_dispatch_and_unlock:
   chain = found subtree :: its ancestors; the subtree at depth d is the node at firstn d p *)
Fixpoint snapshot (chain : list node) (exact : bool) (p : path) : list path :=
  match chain with
  | [] => []
  | n :: up =>
      match nhandler n with
      | Some _ => if exact || nfallback n then firstn (length up) p :: snapshot up false p
                  else snapshot up false p
      | None => snapshot up false p
      end
  end.

Definition m_entries (t : node) (p : path) : res (list path * bool) :=
  match find_deepest t [] p with
  | Ok (Some chain, exact) => Ok (snapshot chain exact p, true)
  | Ok (None, _) => Ok ([], false)
  | Fault => Fault
  | OutOfFuel => OutOfFuel
  end.

(* reading through a held reference: the node now at that path *)
Definition m_registration (t : node) (q : path) : res (option (N * bool)) :=
  match lookup_subtree t q with
  | Ok (Some n) => Ok (match nhandler n with Some h => Some (h, nfallback n) | None => None end)
  | Ok None => Ok None
  | Fault => Fault
  | OutOfFuel => OutOfFuel
  end.

Definition m_present (t : node) (q : path) : res bool :=
  match lookup_subtree t q with
  | Ok (Some _) => Ok true
  | Ok None => Ok false
  | Fault => Fault
  | OutOfFuel => OutOfFuel
  end.

Definition model_ops : tree_ops node := TreeOps node step m_entries m_registration m_present list_registered.

(* the model of the C code *)
Definition dispatch_message (t : node) (filters : list N) (m : msg) (b : behaviour) (oom : list N)
  : res (node * list N * reply) :=
  dispatch_message_gen node model_ops false t filters m b oom.

(* ---- _dbus_object_tree_get_user_data_unlocked -------------------------------------------- *)
Definition get_user_data (t : node) (p : path) : res (option N) :=
  match find_deepest t [] p with
  | Ok (Some (n :: _), true) => Ok (nhandler n)      (* subtree->user_data; NULL when nothing is registered there *)
  | Ok _ => Ok None
  | Fault => Fault
  | OutOfFuel => OutOfFuel
  end.

(* ---- free_subtree_recurse: order of the unregister callbacks when the tree dies ----------
   children from the last to the first, each completely, then the node itself *)
Fixpoint free_all (n : node) : list N :=
  match n with
  | Node _ h _ kids =>
      (fix go (l : list node) : list N :=
         match l with
         | [] => []
         | k :: r => go r ++ free_all k
         end) kids
      ++ match h with Some x => [x] | None => [] end
  end.
