(* Extraction of the C17 pending-call model.  ExtrOcamlBasic only. *)
Require Extraction.
Require Import ExtrOcamlBasic.
From DV Require Import PendingCall.Pending PendingCall.BlockTime PendingCall.Threads.
Extraction Language OCaml.
Extraction "model_pending.ml" init init_at step step1 run run1 next_serial block_with block_timed effective_timeout elapsed_ms give_up two_threads.
