(* Extraction of the object-tree model (C20) and of the executable forms of its
   specification.  ExtrOcamlBasic only; N/nat/positive stay inductive. *)
Require Extraction.
Require Import ExtrOcamlBasic.
From DV Require Import Lib.Base ObjTree.ObjTree ObjTree.Dispatch ObjTree.Decompose Spec.ObjtreeSpec Spec.ObjtreeSpecDispatch Spec.NamesSpec Proofs.ObjtreeDecompose.
Extraction Language OCaml.
Extraction "model_objtree.ml"
  tree_new step tree_dispatch list_registered handlers_for
  s_step s_dispatch s_children s_lookup s_offered
  dispatch_message get_user_data free_all s_dispatch_message s_handlers
  decompose flatten spec_path path_elements.
