(* Extraction of the routing model (C09, C05) and of the trace oracle.
   ExtrOcamlBasic only; N/positive stay inductive. *)
Require Extraction.
Require Import ExtrOcamlBasic.
From DV Require Import Lib.Base Routing.Routing Routing.Expire Spec.RoutingSpec.
Extraction Language OCaml.
Extraction "model_routing.ml" init step wf_event run resolve oracle_step age open_keys plain expected_noreplies noreplies eavesdroppers is_full xinit xstep held_for activatable can_send drv_eavesdroppers.
