(* Extraction of the registry model, its specification and the query
   projections.  ExtrOcamlBasic only; N/positive stay inductive. *)
Require Extraction.
Require Import ExtrOcamlBasic.
From DV Require Import Lib.Base Registry.RegTypes Registry.Registry Registry.Driver Registry.Transaction Spec.RegistrySpec Spec.DriverSpec.
From DV Require Policy.Policy.
Extraction Language OCaml.
Extraction "model_registry.ml"
  init_bus step find_conn c_owned b_conns b_services
  get_name_owner name_has_owner list_queued_owners list_names
  sinit spec_step literal as_implemented s_names sget
  spec_owner spec_has_owner spec_queued exception_trigger
  dinit dstep d_bus d_unique resolve render who_str kstr dspec_step spec_reload Policy.Policy.rule_new Policy.Policy.r_name Policy.Policy.r_prefix
  stage_all texec tcancel.
