(* Extraction of the monitor model (C18).  ExtrOcamlBasic only; N/positive stay inductive. *)
Require Extraction.
Require Import ExtrOcamlBasic.
From DV Require Import Lib.Base Monitor.Monitor.
Extraction Language OCaml.
Extraction "model_monitor.ml" init step wf_event outs fmatch.
