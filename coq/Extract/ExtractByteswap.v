(* Extraction of the byte-order converter model (C02, byteswap leg).
   ExtrOcamlBasic only; N/positive/nat stay inductive. *)
Require Extraction.
Require Import ExtrOcamlBasic.
From DV Require Import Lib.Base Wire.Byteswap.
Extraction Language OCaml.
Extraction "model_byteswap.ml" byteswap_message byteswap_message_r byteswap_body byteswap_at bres_code parse_sig.
