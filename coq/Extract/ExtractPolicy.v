(* Extraction of the policy model (bus/policy.c, configuration trees, the gate and
   its callers) and of the specification oracle.  ExtrOcamlBasic only. *)
Require Extraction.
Require Import ExtrOcamlBasic.
From DV Require Import Lib.Base Policy.Policy Policy.PolicyConfig Policy.PolicyBus Spec.PolicySpec Spec.PolicyConfigSpec.
Extraction Language OCaml.
Extraction "model_policy.ml"
  rule_new rule_from_element load_policy policy_empty client_rules create_client_policy
  optimize optimize_with catch_all_c universal f3_condition
  check_can_send check_can_receive check_can_own send_toggles
  load_config denote allow_unix_user spec_admit cfg_rules select
  mkEnv daemon_env bus_start step_with
  spec_can_send spec_can_receive spec_can_own dev_none dev_code optimizer_condition_ok rule_wf.
