(* Extraction of the policy model (bus/policy.c, the gate and its callers) and
   of the specification oracle.  ExtrOcamlBasic only. *)
Require Extraction.
Require Import ExtrOcamlBasic.
From DV Require Import Lib.Base Policy.Policy Policy.PolicyBus Spec.PolicySpec.
Extraction Language OCaml.
Extraction "model_policy.ml"
  rule_new rule_from_element load_policy policy_empty client_rules create_client_policy
  optimize optimize_with catch_all_c universal f3_condition
  check_can_send check_can_receive check_can_own send_toggles
  bus_init step step_with
  spec_can_send spec_can_receive spec_can_own dev_none dev_code optimizer_condition_ok rule_wf.
