(* Extraction of the incoming flow-control model (C11 flow leg; Wire/Flow.v).
   ExtrOcamlBasic only; Z/N/positive/nat stay inductive. *)
Require Extraction.
Require Import ExtrOcamlBasic.
From DV Require Import Wire.Flow.
Extraction Language OCaml.
Extraction "model_flow.ml" transport_init fstep frun ftrace srun strace prun step run crossed crossed_seeded unref
  read_watch_enabled may_queue_more below_limits check_read_watch.
