(* Extraction of every executable model and specification oracle.
   ExtrOcamlBasic only; N/Z/positive stay inductive. *)
Require Extraction.
Require Import ExtrOcamlBasic.
From DV Require Import Lib.Base Wire.Names Wire.Sig Wire.Utf8 Wire.Body Wire.Message Spec.NamesSpec Spec.Utf8Spec Spec.SigSpec Spec.Codec Wire.HeaderEdit.
(* executable characterisation of what the code accepts for unique names (proved equal to the model in Proofs/NamesProofs.v) *)
Extraction Language OCaml.
Extraction "model_wire.ml"
  validate_interface validate_error_name validate_member validate_path validate_bus_name validate_bus_namespace
  validate_signature_reason validate_utf8
  spec_interface spec_error_name spec_member spec_path spec_bus_name spec_utf8 spec_signature spec_single_signature
  parse_sig array_nest struct_nest dict_nest
  validate_body loader_new feed feed_all demarshal bytes_needed max_to_read feed_limited
  spec_decode_message spec_encode_message print_ty enc dec_seq
  build apply_edit swap_order copy_msg ty_of_val sig_of_vals.
