(* Extraction of the byte-level header editor (Wire/HeaderBytes.v).
   ExtrOcamlBasic only; N/Z/positive stay inductive. *)
Require Extraction.
Require Import ExtrOcamlBasic.
From DV Require Import Lib.Base Spec.Codec Wire.Reader Wire.HeaderEdit Wire.HeaderBytes.
Extraction Language OCaml.
Extraction "model_hdrbytes.ml" hb_load hb_fresh hb_apply hb_run hb_get hb_get_raw hb_set_string hb_set_u32 hb_delete hb_strip
  hb_set_serial hb_get_serial hb_update_lengths hb_create hb_toggle_flag cache_revalidate cache_get.
