(* Extraction of the stamp model (C03).  ExtrOcamlBasic only; N/Z/positive stay inductive.
   The Section variables of Stamp.v are instantiated with the trivial environment: allow-all
   policy, no output of the unmodelled driver methods, empty machine id (the check compares
   those bus-originated messages through the specification oracle only). *)
Require Extraction.
Require Import ExtrOcamlBasic.
From DV Require Import Lib.Base Wire.HeaderEdit Stamp.Stamp.
Extraction Language OCaml.

(* service files exist for the names listed with the history; a RequestName is granted iff the name
   is not a unique name and nobody owns it (the generator asks for activatable names with DO_NOT_QUEUE) *)
Definition x_granted (b : bus) (c : conn) (name : bytes) : bool :=
  negb (is_owned b name) && negb (is_prefix [58%N] name) && negb (bytes_eqb name drv_name).

Definition x_step (max_completed : N) (acts : list bytes) (b : bus) (e : event) : outcome :=
  step max_completed [] (fun _ _ _ => true) (fun _ _ _ => []) (fun _ _ _ => false) (fun _ _ => [])
       (fun d => existsb (bytes_eqb d) acts) x_granted b e.

Extraction "model_stamp.ml" bus0 x_step mint unique_name stamp scrub from_driver swap_order str_field drv_name spec_decode_message spec_encode_message.
