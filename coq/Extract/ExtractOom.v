(* Extraction of the out-of-memory / transaction model (C14).  ExtrOcamlBasic
   only; N/positive stay inductive. *)
Require Extraction.
Require Import ExtrOcamlBasic.
From DV Require Import Lib.Base Oom.OomTypes Oom.Machine Oom.Handlers Oom.DString.
Extraction Language OCaml.
Extraction "model_oom.ml"
  init_bus init_bus_full step step_f step_oom fail_set fail_at no_fail alloc_count recipients
  find_conn lookup b_conns b_services b_pending c_id c_active c_owned c_rules requester
  run_sop sop_pre run_sops header_set_field d_bytes d_alloc PAD JUNK msg_marshal m_locked.
