(* Extraction of the out-of-memory / transaction model (C14).  ExtrOcamlBasic
   only; N/positive stay inductive. *)
Require Extraction.
Require Import ExtrOcamlBasic.
From DV Require Import Lib.Base Oom.OomTypes Oom.Machine Oom.Handlers.
Extraction Language OCaml.
Extraction "model_oom.ml"
  init_bus step step_f step_oom fail_set fail_at no_fail alloc_count recipients
  find_conn lookup b_conns b_services b_pending c_id c_active c_owned c_rules requester.
