(* Extraction of the reader model (Wire/Reader.v) and of what the driver needs to print values.
   ExtrOcamlBasic only; N/Z/positive stay inductive. *)
Require Extraction.
Require Import ExtrOcamlBasic.
From DV Require Import Lib.Base Spec.SigSpec Spec.Codec Wire.Reader.
Extraction Language OCaml.
Extraction "model_reader.ml" read_all first_element_count first_fixed_array print_ty parse_sig.
