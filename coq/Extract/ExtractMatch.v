(* Extraction of the executable match-rule model (package `match`, C07) and its
   specification oracle.  ExtrOcamlBasic only; N/Z/positive stay inductive. *)
Require Extraction.
Require Import ExtrOcamlBasic.
From DV Require Import Lib.Base Match.Rule Match.Matcher Match.Bus Match.Index Spec.MatchSpec Spec.MatchSpecWorld.
Extraction Language OCaml.
Extraction "model_match.ml"
  parse_rule tokenize token_prefix parse_uint rule_equal rule_flags rule_matches get_recipients
  handle_add_match handle_remove_match handle_disconnect dispatch step mkWorld
  spec_tokens spec_parse spec_matches srule_eqb abs_rule spec_step mkSWorld bs_sensitive plain_arg_key f2_value items_ok
  item_meaning_of subset_cons istep iworld_new all_rules.
