(* Extraction of the message-writer model (Wire/Writer.v).
   ExtrOcamlBasic only; N/positive stay inductive. *)
Require Extraction.
Require Import ExtrOcamlBasic.
From DV Require Import Lib.Base Spec.Codec Wire.Writer.
Extraction Language OCaml.
Extraction "model_writer.ml" winit writer_step run_ops wresult run_writer run_writer_from ops_of_val ops_of_vals ops_of_args val_of_arg run_calls marshal_fixed_multi.
