(* Extraction of the C10 model instance (package robust).  ExtrOcamlBasic only. *)
Require Extraction.
Require Import ExtrOcamlBasic.
From DV Require Import Lib.Base Wire.Message Robust.Bus Robust.Env Robust.Mini Robust.Watch.
Extraction Language OCaml.
Extraction "model_robust.ml" mini_run mini_env_run mini_env_run_lim mkCfg iterate iterate_naive mkWatch.
