(* Extraction of the activation model (C19): bus-side bookkeeping and the helper
   decision chain with the desktop-file and command-line parsers.  ExtrOcamlBasic only; N/positive stay inductive. *)
Require Extraction.
Require Import ExtrOcamlBasic.
From DV Require Import Lib.Base Activation.Activation Activation.Helper Activation.Cache Spec.ActivationSpecCache.
Extraction Language OCaml.
Extraction "model_activation.ml" start step run wf_event pending_sids std_cfg2 helper shell_parse desktop_load get_string
  SECTION KEY_NAME KEY_EXEC KEY_USER reload find_entry empty_cache spec_lookup.
