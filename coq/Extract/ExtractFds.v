(* Extraction of the descriptor-accounting model (C15).
   ExtrOcamlBasic only; N/positive/nat stay inductive. *)
Require Extraction.
Require Import ExtrOcamlBasic.
From DV Require Import Lib.Base Fds.Fds Fds.Write Fds.MsgApi Wire.Message Fds.ByteLoader.
Extraction Language OCaml.
Extraction "model_fds.ml" init step run wf_event held received closed closed_delivered closed_dropped live_ids get_buffer room do_writing wire_fds linit lstep lib_held file_of find_msg bl_new bread_write u32_at.
