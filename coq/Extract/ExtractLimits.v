(* Extraction of the limits model (C13).  ExtrOcamlBasic only; N/positive stay inductive. *)
Require Extraction.
Require Import ExtrOcamlBasic.
From DV Require Import Lib.Base Registry.RegTypes Registry.Registry Limits.Limits.
Extraction Language OCaml.
Extraction "model_limits.ml"
  linit lstep cstep mkLimits queued_owners list_names reg
  s_ncomplete s_nincomplete s_byuser s_cdata s_rules s_pending s_conns.
