(* Extraction of the SASL server model and its specification oracle (package auth, C08).
   ExtrOcamlBasic only; N/positive stay inductive. *)
Require Extraction.
Require Import ExtrOcamlBasic.
From DV Require Import Lib.Base Auth.Types Gen.AuthTables Auth.Sha1 Auth.Server Auth.Keyring Auth.Transport Auth.Handover Spec.AuthSpec.
Extraction Language OCaml.
Extraction "model_auth.ml"
  auth_init step work_result get_identity unused_bytes render process_line sha1 hex_encode hex_decode parse_ulong
  a_state a_failures a_fd_negotiated a_outgoing a_incoming a_mech a_core mkEnv mkCreds default_context uid_of_ulong N.add N.mul N.div N.modulo
  spec_step spec_init classify hexarg_of unhex
  env_of_world get_best_key keyring_new get_hex_key keys_before keys_after validate_context mkWorld mkKey parse_key_line strtol_prefix
  trun drive transport_init mkTenv tr_authenticated tr_recovered tr_disconnected tr_loader tr_auth.
