(* The request handlers of the bus as transaction programs, allocation points
   in the order of the C code.  Model only, no proofs.

   bus/driver.c    bus_driver_handle_hello, bus_driver_send_welcome_message,
                   bus_driver_handle_acquire_service / _release_service,
                   bus_driver_handle_add_match / _remove_match,
                   bus_driver_send_service_owner_changed / _lost / _acquired, _send_ack_reply
   bus/services.c  bus_registry_acquire_service, bus_registry_ensure,
                   bus_registry_release_service, bus_service_add_owner,
                   bus_service_remove_owner, bus_service_swap_owner
   bus/connection.c bus_connection_complete, bus_connections_expect_reply, _check_reply
   bus/dispatch.c  bus_dispatch (routing part), bus_dispatch_matches, send_one_message
   bus/bus.c       bus_context_check_security_policy (reply bookkeeping; the
                   check runs with a policy that allows everything except
                   unrequested replies)

   Where the C code changes state first and undoes it locally when a later
   allocation of the same function fails (bus_owner_new + list append +
   add_cancel_ownership_to_transaction in bus_service_add_owner; the service
   object of bus_registry_ensure before it is in the hash), the model makes
   the allocations first and the change afterwards: same allocation order,
   same outcome for every failure point.  The explicit
   bus_matchmaker_remove_rule of bus_driver_handle_add_match is a hook.

   Out of model: monitors (bus_transaction_capture does nothing), activation
   (no service files, calls carry NO_AUTO_START), SELinux/AppArmor, policy
   rules, containers, fd passing, disconnects. *)
From DV Require Export Oom.Machine Wire.Names.
Local Open Scope N_scope.

(* ---- match rules of the model: rule 0 selects NameOwnerChanged, rule m+1 the signal v.P.M<m> --- *)
Definition rule_matches (r : N) (sg : sigkind) : bool :=
  match sg with
  | SgNoc => r =? 0
  | SgUser m => r =? m + 1
  end.

(* bus_matchmaker_get_recipients for a broadcast: active connections with a matching rule *)
Definition recipients (b : bus) (sg : sigkind) : list N :=
  map c_id (filter (fun x => c_active x && existsb (fun r => rule_matches r sg) (c_rules x)) (b_conns b)).

Fixpoint stage_all (rs : list N) (m : msg) : prog unit :=
  match rs with
  | [] => Ret tt
  | r :: more => stage (r, m) ;;; stage_all more m
  end.

(* bus_dispatch_matches without addressed recipient: one list link per
   recipient in bus_matchmaker_get_recipients, then send_one_message each *)
Definition broadcast (sg : sigkind) (m : msg) : prog unit :=
  b <- get ;;
  let rs := recipients b sg in
  allocs (length rs) ;;; stage_all rs m.

(* bus_driver_send_service_owner_changed: new_signal, set_sender, append_args, dispatch_matches *)
Definition send_noc (k : key) (old new : option N) : prog unit :=
  allocs 3 ;;; broadcast SgNoc (MNOC k old new).

(* bus_driver_send_service_acquired / _lost: new_signal, set_destination, append_args, send_from_driver *)
Definition send_acquired (c : N) (k : key) : prog unit :=
  allocs 3 ;;; send_from_driver true c (MAcquired k).
Definition send_lost (c : N) (k : key) : prog unit :=
  allocs 3 ;;; send_from_driver true c (MLost k).

(* ---- bus_service_add_owner ------------------------------------------------------ *)
(* on an existing service with queue q (non-empty) *)
Definition add_owner (k : key) (q : queue) (c : N) (flags : N) : prog unit :=
  match find_owner q c with
  | None =>
      (* bus_owner_new (pool element, owned-service link), owner-list link,
         OwnershipCancelData, CancelHook, hook-list link *)
      allocs 6 ;;; act (AAddOwner k c flags)
  | Some _ => act (AMoveRefresh k c flags)        (* "No need for operations that can produce OOM" *)
  end.

(* bus_registry_ensure for a name that is not in the hash: service pool element,
   name copy, NameOwnerChanged, [activation: nothing pending], add_owner on the
   empty service (NameAcquired first), hash insert *)
Definition ensure (k : key) (c : N) (flags : N) : prog unit :=
  allocs 2 ;;;
  send_noc k None (Some c) ;;;
  send_acquired c k ;;;
  allocs 6 ;;;
  alloc ;;;                                        (* _dbus_hash_table_insert_string *)
  act (ACreateOwn k c flags).

(* add_restore_ownership_to_transaction: OwnershipRestoreData, owner link,
   preallocated hash entry, CancelHook, hook-list link *)
Definition add_restore : prog unit := allocs 5.

(* bus_service_remove_owner *)
Definition remove_owner (k : key) (q : queue) (c : N) : prog unit :=
  match q with
  | [] => Stop
  | p :: rest =>
      if o_conn p =? c then
        send_lost c k ;;;
        match rest with
        | [] => send_noc k (Some c) None
        | n :: _ => send_noc k (Some c) (Some (o_conn n)) ;;; send_acquired (o_conn n) k
        end ;;;
        add_restore ;;;
        act (ARemovePrimary k)
      else act (AUnlinkWaiter k c)                  (* "if we are not the primary owner then just remove us from the queue" *)
  end.

(* bus_service_swap_owner *)
Definition swap_owner (k : key) (q : queue) (c : N) : prog unit :=
  match q with
  | p :: n :: _ =>
      if o_conn p =? c then
        send_lost c k ;;;
        send_noc k (Some c) (Some (o_conn n)) ;;;
        send_acquired (o_conn n) k ;;;
        add_restore ;;;
        act (ASwap k)
      else Stop                                      (* "Tried to swap a non primary owner" *)
  | _ => Stop
  end.

(* ---- bus_registry_acquire_service -------------------------------------------------- *)
Definition starts_with_colon (s : bytes) : bool := match s with x :: _ => x =? COLON | [] => false end.

Definition name_refused (name : bytes) : bool :=
  negb (validate_bus_name name) || starts_with_colon name || bytes_eqb name DBUS_SERVICE_DBUS_str.

(* a use of a freed BusOwner: the sanitized build stops *)
Definition all_live (q : queue) : bool := forallb o_live q.

(* bus_registry_lookup + bus_service_owner_in_queue *)
Definition in_queue (ss : list (key * queue)) (k : key) (c : N) : bool :=
  match lookup ss k with
  | Some q => match find_owner q c with Some _ => true | None => false end
  | None => false
  end.

Definition acquire_service (cn : conn) (name : bytes) (flags : N) : prog N :=
  let c := c_id cn in
  if name_refused name then Fail EInvalidArgs else
  b <- get ;;
  let k := KW name in
  (* the limit is on names held: a caller that is already in the queue of this name is not refused *)
  if (b_maxnames b <=? nlen (c_owned cn)) && negb (in_queue (b_services b) k c) then Fail ELimitsExceeded else
  let dnq := has_flag flags DBUS_NAME_FLAG_DO_NOT_QUEUE in
  let repl := has_flag flags DBUS_NAME_FLAG_REPLACE_EXISTING in
  match lookup (b_services b) k with
  | None => ensure k c flags ;;; Ret DBUS_REQUEST_NAME_REPLY_PRIMARY_OWNER
  | Some [] => Stop
  | Some ((p :: _) as q) =>
      if negb (all_live q) then Stop else
      if o_conn p =? c then
        act (ASetFlags k flags) ;;; Ret DBUS_REQUEST_NAME_REPLY_ALREADY_OWNER
      else if (dnq && negb (o_allow p)) || (dnq && negb repl) then
        match find_owner q c with
        | Some _ => act (AUnlinkWaiter k c)          (* "Since we can't be queued if we are already in the queue remove us" *)
        | None => Ret tt
        end ;;; Ret DBUS_REQUEST_NAME_REPLY_EXISTS
      else if negb dnq && (negb repl || negb (o_allow p)) then
        add_owner k q c flags ;;; Ret DBUS_REQUEST_NAME_REPLY_IN_QUEUE
      else
        add_owner k q c flags ;;;
        b' <- get ;;
        match lookup (b_services b') k with
        | Some q' =>
            (if o_dnq p then remove_owner k q' (o_conn p) else swap_owner k q' (o_conn p)) ;;;
            Ret DBUS_REQUEST_NAME_REPLY_PRIMARY_OWNER
        | None => Stop
        end
  end.

(* bus_registry_release_service *)
Definition release_service (cn : conn) (name : bytes) : prog N :=
  let c := c_id cn in
  if name_refused name then Fail EInvalidArgs else
  b <- get ;;
  let k := KW name in
  match lookup (b_services b) k with
  | None => Ret DBUS_RELEASE_NAME_REPLY_NON_EXISTENT
  | Some q =>
      if negb (all_live q) then Stop else
      match find_owner q c with
      | None => Ret DBUS_RELEASE_NAME_REPLY_NOT_OWNER
      | Some _ => remove_owner k q c ;;; Ret DBUS_RELEASE_NAME_REPLY_RELEASED
      end
  end.

(* ---- the driver methods --------------------------------------------------------------- *)
(* reply with one uint32: dbus_message_new_method_return, append_args, send_from_driver *)
Definition send_reply (c : N) (m : msg) : prog unit :=
  allocs 2 ;;; send_from_driver true c m.

(* bus_driver_send_ack_reply: new_method_return, send_from_driver *)
Definition send_ack (c : N) : prog unit :=
  alloc ;;; send_from_driver true c MAck.

(* bus_driver_handle_hello: bus_connections_check_limits (connections of this user), unique-name
   string (init, create_unique_client_name), bus_connection_complete (name copy, client policy, the
   per-uid count - hash insert -, loginfo string: if that fails the count is taken back (c7c9e6b),
   so the model counts after the last allocation of the function; then the connection is active
   and nothing undoes that), set_sender on the Hello message, welcome message
   (new_method_return, append_args, send_from_driver), bus_registry_ensure *)
Definition hello (cn : conn) : prog unit :=
  let c := c_id cn in
  if c_active cn then Fail EFailed else            (* "Already handled an Hello message" *)
  b0 <- get ;;
  if b_maxconns b0 <=? b_uidcount b0 then Fail ELimitsExceeded else
  allocs 2 ;;;
  allocs 3 ;;;
  alloc ;;; act AUidInc ;;; act (AComplete c) ;;;
  alloc ;;;
  allocs 2 ;;; send_from_driver true c (MHelloReply c) ;;;
  b <- get ;;
  match lookup (b_services b) (KU c) with
  | Some _ => Stop                                  (* create_unique_client_name never hands out a name that is in use *)
  | None => ensure (KU c) c 0
  end.

Definition request_name (cn : conn) (name : bytes) (flags : N) : prog unit :=
  code <- acquire_service cn name flags ;;
  send_reply (c_id cn) (MReply code).

Definition release_name (cn : conn) (name : bytes) : prog unit :=
  code <- release_service cn name ;;
  send_reply (c_id cn) (MReply code).

(* bus_driver_handle_add_match: limit, bus_match_rule_parse (rule object,
   interface and member strings), bus_matchmaker_add_rule (rule link in the
   pool, link in the connection's list), ack *)
Definition add_match (cn : conn) (r : N) : prog unit :=
  b <- get ;;
  if b_maxrules b <=? nlen (c_rules cn) then Fail ELimitsExceeded else
  allocs 3 ;;;
  allocs 2 ;;; act (AAddRule (c_id cn) r) ;;;
  send_ack (c_id cn).

(* bus_driver_handle_remove_match: parse; MatchRuleNotFound before anything is
   queued (bus_matchmaker_has_rule_by_value); then the ack first ("the ack is
   undone on transaction cancel, but rule removal isn't"), then remove by value *)
Definition remove_match (cn : conn) (r : N) : prog unit :=
  allocs 3 ;;;
  if existsb (N.eqb r) (c_rules cn) then send_ack (c_id cn) ;;; act (ARemoveRule (c_id cn) r)
  else Fail EMatchRuleNotFound.

(* ---- routed messages -------------------------------------------------------------------- *)
Definition dest_key (d : dest) : key := match d with DConn j => KU j | DName s => KW s end.

Definition count_caller (ps : list pend) (c : N) : N :=
  nlen (filter (fun p => p_caller p =? c) ps).

(* method call: bus_dispatch looks the destination up; bus_dispatch_matches:
   security policy with bus_connections_expect_reply (BusPendingReply,
   CancelPendingReplyData, expire-list link, CancelHook, hook-list link), then
   bus_transaction_send to the addressed recipient; no match rule of the model
   selects a method call *)
Definition call (c : N) (d : dest) (tag : N) : prog unit :=
  b <- get ;;
  match lookup (b_services b) (dest_key d) with
  | None => Fail ENameHasNoOwner
  | Some [] => Stop
  | Some (p :: _) =>
      if negb (o_live p) then Stop else
      let callee := o_conn p in
      let pe := mkPend c callee tag in
      if existsb (pend_eqb pe) (b_pending b) then Fail EAccessDenied else      (* same serial still outstanding *)
      if b_maxreplies b <=? count_caller (b_pending b) c then Fail ELimitsExceeded else
      allocs 5 ;;; act (AExpect pe) ;;;
      stage (callee, MCall c tag)
  end.

(* method return / error to connection j's unique name:
   bus_connections_check_reply finds the pending entry (CheckPendingReplyData,
   CancelHook, hook-list link; unlink) or not (then the policy refuses the
   unrequested reply) *)
Definition reply (c j : N) (tag : N) (iserr : bool) : prog unit :=
  b <- get ;;
  match lookup (b_services b) (KU j) with
  | None => Fail ENameHasNoOwner
  | Some [] => Stop
  | Some (p :: _) =>
      if negb (o_live p) then Stop else
      let pe := mkPend (o_conn p) c tag in
      if existsb (pend_eqb pe) (b_pending b) then
        allocs 3 ;;; act (AConsume pe) ;;;
        stage (o_conn p, MRet c tag iserr)
      else Fail EAccessDenied
  end.

(* broadcast signal: recipients by match rule (the sender included) *)
Definition signal (c : N) (m : N) : prog unit :=
  broadcast (SgUser m) (MSignal c m).

(* ---- one event -------------------------------------------------------------------------------- *)
Definition not_yet (cn : conn) (p : prog unit) : prog unit :=
  if c_active cn then p else Fail EAccessDenied.     (* only Hello before registration *)

Definition handler (b : bus) (e : event) : option (N * prog unit) :=
  match e with
  | EvConnect => None
  | EvHello c => match find_conn (b_conns b) c with Some cn => Some (c, hello cn) | None => None end
  | EvRequest c name flags => match find_conn (b_conns b) c with Some cn => Some (c, not_yet cn (request_name cn name flags)) | None => None end
  | EvRelease c name => match find_conn (b_conns b) c with Some cn => Some (c, not_yet cn (release_name cn name)) | None => None end
  | EvAddMatch c r => match find_conn (b_conns b) c with Some cn => Some (c, not_yet cn (add_match cn r)) | None => None end
  | EvRemoveMatch c r => match find_conn (b_conns b) c with Some cn => Some (c, not_yet cn (remove_match cn r)) | None => None end
  | EvCall c d tag => match find_conn (b_conns b) c with Some cn => Some (c, if c_active cn then call c d tag else Stop) | None => None end
  | EvReply c j tag ie => match find_conn (b_conns b) c with Some cn => Some (c, if c_active cn then reply c j tag ie else Stop) | None => None end
  | EvSignal c m => match find_conn (b_conns b) c with Some cn => Some (c, if c_active cn then signal c m else Stop) | None => None end
  end.

Definition connect (b : bus) : bus :=
  mkBus (b_conns b ++ [mkConn (b_next b) false [] []]) (b_services b) (b_pending b) (b_next b + 1)
        (b_maxnames b) (b_maxrules b) (b_maxreplies b) (b_uidcount b) (b_maxconns b).

(* the bus handles one event while the allocations selected by F fail *)
Definition step_f (F : N -> bool) (b : bus) (e : event) : outcome :=
  match e with
  | EvConnect => OOk (connect b) []
  | _ => match handler b e with
         | Some (c, p) => run_request F c p b
         | None => OStop                               (* request from a connection that does not exist *)
         end
  end.

Definition no_fail : N -> bool := fun _ => false.
Definition fail_at (k : N) : N -> bool := N.eqb k.
Definition fail_set (l : list N) : N -> bool := fun i => existsb (N.eqb i) l.

Definition step (b : bus) (e : event) : outcome := step_f no_fail b e.
Definition step_oom (k : N) (b : bus) (e : event) : outcome := step_f (fail_at k) b e.

Definition init_bus_full (maxnames maxrules maxreplies maxconns : N) : bus := mkBus [] [] [] 0 maxnames maxrules maxreplies 0 maxconns.
Definition init_bus (maxnames maxrules maxreplies : N) : bus := init_bus_full maxnames maxrules maxreplies 256.

(* a history without failures; None if the bus stopped *)
Fixpoint run (b : bus) (h : list event) : option bus :=
  match h with
  | [] => Some b
  | e :: r => match step b e with OOk b' _ => run b' r | OStop => None end
  end.

(* how many allocation points the unfailed handler passes (upper bound for the k worth trying) *)
Definition alloc_count (b : bus) (e : event) : N :=
  match handler b e with
  | Some (c, p) =>
      match interp no_fail (allocs 3 ;;; p) (mkSt b [] [] 0) with
      | Ok _ s => s_i s
      | Err e' s => match interp no_fail (error_reply (is_active (s_bus s) c) c e') s with Ok _ s' => s_i s' | _ => s_i s end
      | _ => 0
      end
  | None => 0
  end.
