(* Vocabulary of the out-of-memory (transaction) model of the bus: names,
   queue entries, connections, pending replies, messages, events.  No
   behaviour here.  (Package `oom`, property C14.) *)
From DV Require Export Lib.Base.
Local Open Scope N_scope.

(* A bus name.  Unique names are abstract: [KU c] is "the unique name of
   connection c"; [KW s] is the string s.  The check's canonicaliser maps
   ":1.N" strings to connection indices. *)
Inductive key := KU (c : N) | KW (s : bytes).

Definition key_eqb (a b : key) : bool :=
  match a, b with
  | KU x, KU y => x =? y
  | KW x, KW y => bytes_eqb x y
  | _, _ => false
  end.

(* BusOwner as linked in a service's owner list: connection, allow_replacement,
   do_not_queue, and whether the object is still allocated.  [o_live = false]
   is a link to a BusOwner whose reference count already dropped to zero (the
   object was handed back to its pool): every later use of it is a use after
   free.  No modelled code path produces such a link any more (the restore
   hook did, finding F14.1, fixed); the field stays so that a regression shows
   up as DANGLING in the correspondence run instead of going unnoticed. *)
Record owner := mkOwner { o_conn : N; o_allow : bool; o_dnq : bool; o_live : bool }.
Definition queue := list owner.

(* BusPendingReply: will_get_reply, will_send_reply, reply_serial (the serial
   is abstracted to the tag the harness puts into the call) *)
Record pend := mkPend { p_caller : N; p_callee : N; p_tag : N }.

Definition pend_eqb (a b : pend) : bool :=
  (p_caller a =? p_caller b) && (p_callee a =? p_callee b) && (p_tag a =? p_tag b).

(* BusConnectionData, the part the modelled handlers touch *)
Record conn := mkConn {
  c_id : N;
  c_active : bool;            (* d->name != NULL *)
  c_owned : list key;         (* d->services_owned, list order *)
  c_rules : list N            (* d->match_rules: rule ids, list order *)
}.

Record bus := mkBus {
  b_conns : list conn;
  b_services : list (key * queue);   (* registry->service_hash *)
  b_pending : list pend;             (* connections->pending_replies, list order *)
  b_next : N;                        (* id of the next connection *)
  b_maxnames : N;                    (* limits.max_services_per_connection *)
  b_maxrules : N;                    (* limits.max_match_rules_per_connection *)
  b_maxreplies : N;                  (* limits.max_replies_per_connection *)
  b_uidcount : N;                    (* connections->completed_by_user for the one uid all clients share *)
  b_maxconns : N                     (* limits.max_connections_per_user *)
}.

Inductive err :=
| EInvalidArgs | EAccessDenied | ELimitsExceeded | EFailed | ENameHasNoOwner | EMatchRuleNotFound | ENoMemory.

(* what a signal is, as far as the match rules of the model can tell *)
Inductive sigkind := SgNoc | SgUser (m : N).

Inductive msg :=
| MHelloReply (c : N)                     (* method return of Hello carrying c's unique name *)
| MReply (code : N)                       (* method return of RequestName / ReleaseName *)
| MAck                                    (* empty method return (AddMatch / RemoveMatch) *)
| MError (e : err)                        (* error reply from the bus driver to the request *)
| MAcquired (k : key)                     (* NameAcquired, unicast *)
| MLost (k : key)                         (* NameLost, unicast *)
| MNOC (k : key) (old new : option N)     (* NameOwnerChanged, broadcast *)
| MCall (from tag : N)                    (* routed method call v.T.Call (tag) *)
| MRet (from tag : N) (iserr : bool)      (* routed method return / error answering call [tag] *)
| MSignal (from m : N).                   (* routed broadcast signal v.P.M<m> *)

(* one staged / delivered message: (receiving connection, message) *)
Definition out := (N * msg)%type.

Inductive dest := DConn (c : N) | DName (s : bytes).

Inductive event :=
| EvConnect                                       (* a new socket (not a request; never fails in the model) *)
| EvHello (c : N)
| EvRequest (c : N) (name : bytes) (flags : N)    (* RequestName *)
| EvRelease (c : N) (name : bytes)                (* ReleaseName *)
| EvAddMatch (c : N) (r : N)                      (* AddMatch with rule number r *)
| EvRemoveMatch (c : N) (r : N)                   (* RemoveMatch *)
| EvCall (c : N) (d : dest) (tag : N)             (* routed method call expecting a reply *)
| EvReply (c : N) (j : N) (tag : N) (iserr : bool)(* method return / error to connection j's unique name *)
| EvSignal (c : N) (m : N).                       (* broadcast signal *)

(* the connection a request comes from (it receives the NoMemory error) *)
Definition requester (e : event) : option N :=
  match e with
  | EvConnect => None
  | EvHello c | EvRequest c _ _ | EvRelease c _ | EvAddMatch c _ | EvRemoveMatch c _
  | EvCall c _ _ | EvReply c _ _ _ | EvSignal c _ => Some c
  end.
