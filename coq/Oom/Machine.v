(* The transaction machine of the bus (bus/connection.c BusTransaction) as an
   executable model with allocation-failure injection.  Model only, no proofs.

   A request handler is a *program*: a tree of
     Alloc          one fallible allocation the C code checks (on failure:
                    BUS_SET_OOM + return FALSE up to bus_dispatch)
     Stage          bus_transaction_send: a message is staged for one
                    connection (its own allocations are counted here)
     Act            a primitive change of bus state, possibly registering
                    cancel hooks (bus_transaction_add_cancel_hook)
     Get            read the current bus state
     Fail e         dbus_set_error (non-OOM) + return FALSE
     Stop           the C code runs into _dbus_assert / _dbus_assert_not_reached
                    (builds with assertions, as the checked build is), or leaves
                    the model (connection closed by the bus)
   The interpreter [interp F] numbers the allocations 0,1,2,... in program
   order and lets allocation i fail iff [F i]: F = fun _ => false is the
   unfailed run, F = N.eqb k the single failure of the k-th allocation
   (_dbus_set_fail_alloc_counter (k)), any other F a set of failures.

   C functions mirrored here:
     bus_transaction_send / _send_from_driver / _add_cancel_hook /
     _execute_and_free / _cancel_and_free              (bus/connection.c)
     cancel_ownership, restore_ownership and their free functions,
     bus_service_unlink_owner, bus_service_unlink, bus_service_relink (bus/services.c)
     cancel_pending_reply, cancel_check_pending_reply   (bus/connection.c)
     bus_dispatch's out: label (OOM -> preallocated error + cancel; other
     error -> error reply staged in the same transaction, then execute)  (bus/dispatch.c) *)
From DV Require Export Lib.Base Gen.Tables Oom.OomTypes.
Local Open Scope N_scope.

(* ---- list plumbing --------------------------------------------------------- *)
Fixpoint lookup (ss : list (key * queue)) (k : key) : option queue :=
  match ss with
  | [] => None
  | (k', q) :: r => if key_eqb k k' then Some q else lookup r k
  end.

Fixpoint set_queue (ss : list (key * queue)) (k : key) (q : queue) : list (key * queue) :=
  match ss with
  | [] => []
  | (k', q') :: r => if key_eqb k k' then (k', q) :: r else (k', q') :: set_queue r k q
  end.

(* bus_service_unlink: _dbus_hash_table_remove_string *)
Fixpoint del_service (ss : list (key * queue)) (k : key) : list (key * queue) :=
  match ss with
  | [] => []
  | (k', q') :: r => if key_eqb k k' then r else (k', q') :: del_service r k
  end.

(* an empty owner list means the service is unlinked from the hash *)
Definition put_queue (ss : list (key * queue)) (k : key) (q : queue) : list (key * queue) :=
  match q with [] => del_service ss k | _ => set_queue ss k q end.

Fixpoint find_conn (cs : list conn) (c : N) : option conn :=
  match cs with
  | [] => None
  | x :: r => if c_id x =? c then Some x else find_conn r c
  end.

Fixpoint upd_conn (cs : list conn) (c : N) (f : conn -> conn) : list conn :=
  match cs with
  | [] => []
  | x :: r => if c_id x =? c then f x :: r else x :: upd_conn r c f
  end.

(* _dbus_list_remove_last: drop the last element satisfying p *)
Fixpoint remove_last {A} (p : A -> bool) (l : list A) : list A :=
  match l with
  | [] => []
  | x :: r => if existsb p r then x :: remove_last p r
              else if p x then r else x :: r
  end.

(* _dbus_list_remove / unlink of the first link satisfying p *)
Fixpoint remove_first {A} (p : A -> bool) (l : list A) : list A :=
  match l with
  | [] => []
  | x :: r => if p x then r else x :: remove_first p r
  end.

(* bus_connection_add_owned_service / bus_connection_remove_owned_service *)
Definition own_add (cs : list conn) (c : N) (k : key) : list conn :=
  upd_conn cs c (fun x => mkConn (c_id x) (c_active x) (c_owned x ++ [k]) (c_rules x)).
Definition own_del (cs : list conn) (c : N) (k : key) : list conn :=
  upd_conn cs c (fun x => mkConn (c_id x) (c_active x) (remove_last (key_eqb k) (c_owned x)) (c_rules x)).

Definition with_conns (b : bus) (cs : list conn) : bus :=
  mkBus cs (b_services b) (b_pending b) (b_next b) (b_maxnames b) (b_maxrules b) (b_maxreplies b) (b_uidcount b) (b_maxconns b).
Definition with_services (b : bus) (ss : list (key * queue)) : bus :=
  mkBus (b_conns b) ss (b_pending b) (b_next b) (b_maxnames b) (b_maxrules b) (b_maxreplies b) (b_uidcount b) (b_maxconns b).
Definition with_uidcount (b : bus) (n : N) : bus :=
  mkBus (b_conns b) (b_services b) (b_pending b) (b_next b) (b_maxnames b) (b_maxrules b) (b_maxreplies b) n (b_maxconns b).
Definition with_pending (b : bus) (ps : list pend) : bus :=
  mkBus (b_conns b) (b_services b) ps (b_next b) (b_maxnames b) (b_maxrules b) (b_maxreplies b) (b_uidcount b) (b_maxconns b).

(* ---- flags and queues --------------------------------------------------------- *)
Definition has_flag (flags f : N) : bool := negb (N.land flags f =? 0).

(* bus_owner_set_flags *)
Definition set_flags (o : owner) (flags : N) : owner :=
  mkOwner (o_conn o) (has_flag flags DBUS_NAME_FLAG_ALLOW_REPLACEMENT) (has_flag flags DBUS_NAME_FLAG_DO_NOT_QUEUE) (o_live o).

Definition new_owner (c : N) (flags : N) : owner := set_flags (mkOwner c false false true) flags.

Definition is_conn (c : N) (o : owner) : bool := o_conn o =? c.

(* _bus_service_find_owner_link *)
Fixpoint find_owner (q : queue) (c : N) : option owner :=
  match q with
  | [] => None
  | o :: r => if o_conn o =? c then Some o else find_owner r c
  end.

(* bus_owner_set_flags on the link found by _bus_service_find_owner_link *)
Fixpoint refresh_first (q : queue) (c : N) (flags : N) : queue :=
  match q with
  | [] => []
  | o :: r => if o_conn o =? c then set_flags o flags :: r else o :: refresh_first r c flags
  end.

Definition is_nil {A} (l : list A) : bool := match l with [] => true | _ => false end.

(* ---- primitive state changes and their hooks ----------------------------------- *)
Inductive action :=
| AUidInc                                   (* bus_connection_complete: adjust_connections_for_uid (+1), taken back by the function
                                               itself if cache_peer_loginfo_string fails (c7c9e6b; before: finding F14.4) *)
| AComplete (c : N)                         (* bus_connection_complete, tail: the connection becomes active; no undo *)
| ACreateOwn (k : key) (c : N) (flags : N)  (* bus_registry_ensure: new service, first owner, hash insert; cancel_ownership hook *)
| AAddOwner (k : key) (c : N) (flags : N)   (* bus_service_add_owner, new BusOwner appended / inserted after the first link; cancel_ownership hook *)
| AMoveRefresh (k : key) (c : N) (flags : N)(* bus_service_add_owner, connection already queued: move + bus_owner_set_flags; NO hook *)
| ASetFlags (k : key) (flags : N)           (* bus_registry_acquire_service, caller is the primary owner: bus_owner_set_flags; NO hook *)
| AUnlinkWaiter (k : key) (c : N)           (* unlink + unref of a queued (non-primary) owner; NO hook *)
| ARemovePrimary (k : key)                  (* bus_service_remove_owner, primary: unlink_owner (+ bus_service_unlink); restore_ownership hook *)
| ASwap (k : key)                           (* bus_service_swap_owner: primary becomes second; restore_ownership hook *)
| AAddRule (c : N) (r : N)                  (* bus_matchmaker_add_rule; undone by bus_matchmaker_remove_rule if the ack cannot be sent *)
| ARemoveRule (c : N) (r : N)               (* bus_matchmaker_remove_rule_by_value; last step of the handler, no undo *)
| AExpect (p : pend)                        (* bus_connections_expect_reply; cancel_pending_reply hook *)
| AConsume (p : pend).                      (* bus_connections_check_reply: unlink; cancel_check_pending_reply hook *)

Inductive hook :=
| HCancelOwner (k : key) (c : N)            (* OwnershipCancelData *)
| HRestoreRemoved (k : key) (o : owner) (before : option N) (slot : nat)
                                            (* OwnershipRestoreData registered by bus_service_remove_owner: owner, before_owner,
                                               and where the name sits in the hash (a position fixed by the name alone) *)
| HRestoreSwapped (k : key) (o : owner) (before : option N)
                                            (* OwnershipRestoreData registered by bus_service_swap_owner *)
| HRemoveRule (c : N) (r : N)               (* the explicit bus_matchmaker_remove_rule in bus_driver_handle_add_match *)
| HCancelPending (p : pend)                 (* CancelPendingReplyData *)
| HRestorePending (p : pend).               (* CheckPendingReplyData *)

Definition set_active (cs : list conn) (c : N) : list conn :=
  upd_conn cs c (fun x => mkConn (c_id x) true (c_owned x) (c_rules x)).
Definition rules_add (cs : list conn) (c r : N) : list conn :=
  upd_conn cs c (fun x => mkConn (c_id x) (c_active x) (c_owned x) (c_rules x ++ [r])).
Definition rules_del (cs : list conn) (c r : N) : list conn :=
  upd_conn cs c (fun x => mkConn (c_id x) (c_active x) (c_owned x) (remove_last (N.eqb r) (c_rules x))).

(* position of a name in the table *)
Fixpoint slot_of (ss : list (key * queue)) (k : key) : nat :=
  match ss with
  | [] => O
  | (k', _) :: r => if key_eqb k k' then O else S (slot_of r k)
  end.

Fixpoint insert_at {A} (n : nat) (x : A) (l : list A) : list A :=
  match n, l with
  | O, _ => x :: l
  | S m, y :: r => y :: insert_at m x r
  | S _, [] => [x]
  end.

(* _dbus_list_insert_before_link at the link of before_owner; at the end if there is none *)
Fixpoint insert_before (before : option N) (o : owner) (q : queue) : queue :=
  match q with
  | [] => [o]
  | x :: r => match before with
              | Some c => if o_conn x =? c then o :: x :: r else x :: insert_before before o r
              | None => x :: insert_before before o r
              end
  end.

Definition head_conn (q : queue) : option N := match q with [] => None | x :: _ => Some (o_conn x) end.

Definition do_action (a : action) (b : bus) : option (bus * list hook) :=
  match a with
  | AUidInc => Some (with_uidcount b (b_uidcount b + 1), [])
  | AComplete c => Some (with_conns b (set_active (b_conns b) c), [])
  | ACreateOwn k c flags =>
      match lookup (b_services b) k with
      | Some _ => None
      | None => Some (mkBus (own_add (b_conns b) c k) (b_services b ++ [(k, [new_owner c flags])]) (b_pending b)
                            (b_next b) (b_maxnames b) (b_maxrules b) (b_maxreplies b) (b_uidcount b) (b_maxconns b),
                      [HCancelOwner k c])
      end
  | AAddOwner k c flags =>
      match lookup (b_services b) k with
      | Some ((h :: t) as q) =>
          match find_owner q c with
          | Some _ => None
          | None =>
              let o := new_owner c flags in
              let q' := if has_flag flags DBUS_NAME_FLAG_REPLACE_EXISTING
                        then h :: o :: t                       (* _dbus_list_insert_after (first link) *)
                        else q ++ [o] in                       (* _dbus_list_append *)
              Some (mkBus (own_add (b_conns b) c k) (set_queue (b_services b) k q') (b_pending b)
                          (b_next b) (b_maxnames b) (b_maxrules b) (b_maxreplies b) (b_uidcount b) (b_maxconns b),
                    [HCancelOwner k c])
          end
      | _ => None
      end
  | AMoveRefresh k c flags =>
      match lookup (b_services b) k with
      | Some q =>
          match find_owner q c with
          | None => None
          | Some o =>
              if has_flag flags DBUS_NAME_FLAG_REPLACE_EXISTING then
                match remove_first (is_conn c) q with
                | h :: t => Some (with_services b (set_queue (b_services b) k (h :: set_flags o flags :: t)), [])
                | [] => None                                   (* _dbus_assert (link != NULL) *)
                end
              else Some (with_services b (set_queue (b_services b) k (refresh_first q c flags)), [])
          end
      | None => None
      end
  | ASetFlags k flags =>
      match lookup (b_services b) k with
      | Some (p :: w) => Some (with_services b (set_queue (b_services b) k (set_flags p flags :: w)), [])
      | _ => None
      end
  | AUnlinkWaiter k c =>
      match lookup (b_services b) k with
      | Some q =>
          match find_owner q c with
          | None => None                                       (* _dbus_list_unlink (NULL) *)
          | Some _ => Some (mkBus (own_del (b_conns b) c k) (put_queue (b_services b) k (remove_first (is_conn c) q)) (b_pending b)
                                  (b_next b) (b_maxnames b) (b_maxrules b) (b_maxreplies b) (b_uidcount b) (b_maxconns b), [])
          end
      | None => None
      end
  | ARemovePrimary k =>
      match lookup (b_services b) k with
      | Some (p :: rest) => Some (with_services b (put_queue (b_services b) k rest),
                                  [HRestoreRemoved k p (head_conn rest) (slot_of (b_services b) k)])
      | _ => None
      end
  | ASwap k =>
      match lookup (b_services b) k with
      | Some (p :: n :: rest) => Some (with_services b (set_queue (b_services b) k (n :: p :: rest)), [HRestoreSwapped k p (Some (o_conn n))])
      | _ => None
      end
  | AAddRule c r => Some (with_conns b (rules_add (b_conns b) c r), [HRemoveRule c r])
  | ARemoveRule c r =>
      match find_conn (b_conns b) c with
      | Some cn => if existsb (N.eqb r) (c_rules cn) then Some (with_conns b (rules_del (b_conns b) c r), []) else None
      | None => None
      end
  | AExpect p => Some (with_pending b (p :: b_pending b), [HCancelPending p])         (* bus_expire_list_add: prepend *)
  | AConsume p =>
      if existsb (pend_eqb p) (b_pending b)
      then Some (with_pending b (remove_first (pend_eqb p) (b_pending b)), [HRestorePending p])
      else None
  end.

(* restore_ownership (bus/services.c): a service that lost its last owner
   is put back into the hash; a link to the owner that is still in the list
   (bus_service_swap_owner only moved it) is taken out; the owner goes back in
   front of before_owner.  The connection's list of owned services was never
   touched (the hook data holds a reference to the owner). *)
Definition restore_ownership (k : key) (o : owner) (before : option N) (slot : nat) (moved : bool) (b : bus) : option bus :=
  match lookup (b_services b) k with
  | None => Some (with_services b (insert_at slot (k, [o]) (b_services b)))
  | Some q =>
      let q1 := if moved then remove_last (is_conn (o_conn o)) q else q in
      Some (with_services b (set_queue (b_services b) k (insert_before before o q1)))
  end.

(* what bus_transaction_cancel_and_free does for one hook (cancel function, then free function) *)
Definition cancel_hook (h : hook) (b : bus) : option bus :=
  match h with
  | HCancelOwner k c =>
      (* cancel_ownership: bus_service_unlink_owner, bus_service_unlink if that was the last owner;
         the free function drops the last reference: bus_connection_remove_owned_service *)
      let ss := match lookup (b_services b) k with
                | Some q => put_queue (b_services b) k (remove_last (is_conn c) q)
                | None => b_services b
                end in
      Some (mkBus (own_del (b_conns b) c k) ss (b_pending b) (b_next b) (b_maxnames b) (b_maxrules b) (b_maxreplies b) (b_uidcount b) (b_maxconns b))
  | HRestoreRemoved k o before slot => restore_ownership k o before slot false b
  | HRestoreSwapped k o before => restore_ownership k o before O true b
  | HRemoveRule c r => Some (with_conns b (rules_del (b_conns b) c r))
  | HCancelPending p =>
      if existsb (pend_eqb p) (b_pending b) then Some (with_pending b (remove_first (pend_eqb p) (b_pending b)))
      else None                                  (* "pending reply did not exist to be cancelled" *)
  | HRestorePending p => Some (with_pending b (p :: b_pending b))     (* bus_expire_list_add_link: prepend *)
  end.

(* what bus_transaction_execute_and_free does for one hook (free function only) *)
Definition free_hook (h : hook) (b : bus) : bus :=
  match h with
  | HRestoreRemoved k o _ _ => with_conns b (own_del (b_conns b) (o_conn o) k)   (* last unref: bus_connection_remove_owned_service *)
  | _ => b
  end.

(* hooks are kept newest first and run in that order *)
Fixpoint cancel_all (hs : list hook) (b : bus) : option bus :=
  match hs with
  | [] => Some b
  | h :: r => match cancel_hook h b with Some b' => cancel_all r b' | None => None end
  end.

Fixpoint free_all (hs : list hook) (b : bus) : bus :=
  match hs with
  | [] => b
  | h :: r => free_all r (free_hook h b)
  end.

(* ---- programs ---------------------------------------------------------------------- *)
Inductive prog (A : Type) : Type :=
| Ret (a : A)
| Fail (e : err)
| Stop
| Alloc (k : prog A)
| Stage (o : out) (k : prog A)
| Get (k : bus -> prog A)
| Act (a : action) (k : prog A).
Arguments Ret {A} a.
Arguments Fail {A} e.
Arguments Stop {A}.
Arguments Alloc {A} k.
Arguments Stage {A} o k.
Arguments Get {A} k.
Arguments Act {A} a k.

Fixpoint bind {A B} (p : prog A) (f : A -> prog B) : prog B :=
  match p with
  | Ret a => f a
  | Fail e => Fail e
  | Stop => Stop
  | Alloc k => Alloc (bind k f)
  | Stage o k => Stage o (bind k f)
  | Get k => Get (fun b => bind (k b) f)
  | Act a k => Act a (bind k f)
  end.

Notation "x <- p ;; q" := (bind p (fun x => q)) (at level 61, p at next level, right associativity).
Notation "p ;;; q" := (bind p (fun _ => q)) (at level 61, right associativity).

Definition alloc : prog unit := Alloc (Ret tt).
Definition stage (o : out) : prog unit := Stage o (Ret tt).
Definition act (a : action) : prog unit := Act a (Ret tt).
Definition get : prog bus := Get (fun b => Ret b).

Fixpoint allocs (n : nat) : prog unit :=
  match n with O => Ret tt | S m => Alloc (allocs m) end.

(* ---- interpretation ------------------------------------------------------------------ *)
Record st := mkSt {
  s_bus : bus;
  s_msgs : list out;        (* staged messages, in the order of the bus_transaction_send calls *)
  s_hooks : list hook;      (* transaction->cancel_hooks, newest first *)
  s_i : N                   (* allocations made so far *)
}.

Inductive res (A : Type) : Type :=
| Ok (a : A) (s : st)
| Oom (s : st)
| Err (e : err) (s : st)
| Halt.
Arguments Ok {A} a s.
Arguments Oom {A} s.
Arguments Err {A} e s.
Arguments Halt {A}.

(* bus_transaction_send: MessageToSend, dbus_connection_preallocate_send, the
   prepend to d->transaction_messages, and - for the first message to this
   connection in this transaction - the prepend to transaction->connections *)
Definition stage_cost (staged : list out) (o : out) : nat :=
  if existsb (fun x => fst x =? fst o) staged then 3%nat else 4%nat.

(* does one of the n allocations i, i+1, ... fail? *)
Fixpoint any_fail (F : N -> bool) (i : N) (n : nat) : bool :=
  match n with O => false | S m => F i || any_fail F (i + 1) m end.

Fixpoint interp {A} (F : N -> bool) (p : prog A) (s : st) : res A :=
  match p with
  | Ret a => Ok a s
  | Fail e => Err e s
  | Stop => Halt
  | Alloc k =>
      if F (s_i s) then Oom (mkSt (s_bus s) (s_msgs s) (s_hooks s) (s_i s + 1))
      else interp F k (mkSt (s_bus s) (s_msgs s) (s_hooks s) (s_i s + 1))
  | Stage o k =>
      let n := stage_cost (s_msgs s) o in
      if any_fail F (s_i s) n then Oom (mkSt (s_bus s) (s_msgs s) (s_hooks s) (s_i s + N.of_nat n))
      else interp F k (mkSt (s_bus s) (s_msgs s ++ [o]) (s_hooks s) (s_i s + N.of_nat n))
  | Get k => interp F (k (s_bus s)) s
  | Act a k =>
      match do_action a (s_bus s) with
      | None => Halt
      | Some (b', hs) => interp F k (mkSt b' (s_msgs s) (hs ++ s_hooks s) (s_i s))
      end
  end.

(* ---- bus_dispatch around a handler ------------------------------------------------------ *)
Inductive outcome :=
| OOk (b : bus) (o : list out)     (* state afterwards, messages sent (per-connection order is the list order) *)
| OStop.                           (* assertion failure / abort of the daemon, or outside the model *)

(* bus_transaction_send_from_driver: set_sender, set_destination (active
   connections only), [capture: no monitors], [policy: allows], bus_transaction_send *)
Definition send_from_driver (active : bool) (c : N) (m : msg) : prog unit :=
  alloc ;;; (if active then alloc else Ret tt) ;;; stage (c, m).

(* bus_transaction_send_error_reply: dbus_message_new_error, send_from_driver *)
Definition error_reply (active : bool) (c : N) (e : err) : prog unit :=
  alloc ;;; send_from_driver active c (MError e).

Definition is_active (b : bus) (c : N) : bool :=
  match find_conn (b_conns b) c with Some cn => c_active cn | None => false end.

(* bus_transaction_cancel_and_free after the preallocated NoMemory error went out *)
Definition cancelled (c : N) (s : st) : outcome :=
  match cancel_all (s_hooks s) (s_bus s) with
  | Some b => OOk b [(c, MError ENoMemory)]
  | None => OStop
  end.

(* bus_transaction_execute_and_free *)
Definition executed (s : st) : outcome := OOk (free_all (s_hooks s) (s_bus s)) (s_msgs s).

(* bus_dispatch: the part before the handler (remove_unknown_fields /
   set_container_instance, bus_transaction_new, dbus_message_set_sender) and
   the out: label *)
Definition run_request (F : N -> bool) (c : N) (handler : prog unit) (b : bus) : outcome :=
  match interp F (allocs 3 ;;; handler) (mkSt b [] [] 0) with
  | Ok _ s => executed s
  | Oom s => cancelled c s
  | Err e s =>
      match interp F (error_reply (is_active (s_bus s) c) c e) s with
      | Ok _ s' => executed s'
      | Oom s' => cancelled c s'
      | Err _ _ => OStop
      | Halt => OStop
      end
  | Halt => OStop
  end.
