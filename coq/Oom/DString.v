(* DBusString (dbus/dbus-string.c) with its capacity and its single fallible
   allocation, as an executable model.  Model only, no proofs.

   A string is its contents (real->len bytes) and real->allocated.  Every
   function returns (succeeded?, string afterwards, allocation counter): the
   string is returned ALSO on failure, because the C code works in place and
   "returns FALSE => the string is what it was" is the thing to be proved,
   not assumed.  Allocation i fails iff [F i].

   Mirrored, in the order of dbus-string.c:
     reallocate_for_length, set_length, open_gap,
     _dbus_string_insert_bytes, _dbus_string_insert_byte,
     _dbus_string_lengthen, _dbus_string_shorten, _dbus_string_set_length,
     align_insert_point_then_open_gap, _dbus_string_align_length,
     _dbus_string_alloc_space, append / _dbus_string_append_len,
     _dbus_string_insert_2/4/8_aligned, _dbus_string_insert_alignment,
     _dbus_string_append_byte, delete / _dbus_string_delete,
     copy / _dbus_string_copy_len, _dbus_string_replace_len
   and, built from them as dbus-marshal-header.c does:
     reserve_header_padding, correct_header_padding, the append_failed
     cleanup of write_basic_field, the commit step of
     _dbus_type_reader_set_basic (replacement_block_replace), and
     _dbus_header_set_field_basic around them.

   Bytes that C leaves uninitialised (the tail exposed by growing the length)
   are the marker JUNK (not a byte value); nothing that is proved depends on
   them and the correspondence run masks them.  The NUL after the contents and
   the alignment offset of the block are not modelled (the C code keeps
   _DBUS_STRING_ALLOCATION_PADDING = 8 spare bytes for them, which is [PAD]).
   [exact] is the test-build behaviour of reallocate_for_length
   (DBUS_ENABLE_EMBEDDED_TESTS and assertions: grow to exactly what is needed,
   "so that we go through all malloc failure codepaths"); otherwise the
   allocation doubles. *)
From DV Require Export Lib.Base.
From Coq Require Export PeanoNat.
Local Open Scope nat_scope.

Definition PAD : nat := 8.                               (* _DBUS_STRING_ALLOCATION_PADDING *)
Definition MAXLEN : N := (2147483647 - 8)%N.             (* _DBUS_STRING_MAX_LENGTH = _DBUS_INT32_MAX - padding *)
Definition JUNK : N := 256%N.                            (* an uninitialised byte *)

Record dstr := mkD { d_bytes : bytes; d_alloc : nat }.
Definition dlen (s : dstr) : nat := length (d_bytes s).

Definition too_long (n : nat) : bool := (MAXLEN <? N.of_nat n)%N.

(* _DBUS_ALIGN_VALUE *)
Definition align_value (p a : nat) : nat := ((p + a - 1) / a) * a.

Section Str.
  Variable exact : bool.
  Variable F : N -> bool.

  Definition new_allocated (a newlen : nat) : nat :=
    let dbl := if exact then 0
               else if ((MAXLEN + 8) / 2 <? N.of_nat a)%N then N.to_nat (MAXLEN + 8) else a * 2 in
    Nat.max dbl (newlen + PAD).

  (* reallocate_for_length: dbus_realloc may fail; contents are kept *)
  Definition reallocate_for_length (i : N) (s : dstr) (newlen : nat) : bool * dstr * N :=
    if F i then (false, s, (i + 1)%N)
    else (true, mkD (d_bytes s) (new_allocated (d_alloc s) newlen), (i + 1)%N).

  (* real->len = new_length: a shorter string is cut, a longer one exposes uninitialised bytes *)
  Definition resize (b : bytes) (n : nat) : bytes := firstn n b ++ repeat JUNK (n - length b).

  Definition set_length (i : N) (s : dstr) (newlen : nat) : bool * dstr * N :=
    if too_long newlen then (false, s, i)
    else if d_alloc s - PAD <? newlen then
      match reallocate_for_length i s newlen with
      | (false, s', i') => (false, s', i')
      | (true, s', i') => (true, mkD (resize (d_bytes s') newlen) (d_alloc s'), i')
      end
    else (true, mkD (resize (d_bytes s) newlen) (d_alloc s), i).

  (* open_gap: lengthen, then memmove the tail up; the gap keeps whatever was there *)
  Definition open_gap (i : N) (len : nat) (s : dstr) (at_ : nat) : bool * dstr * N :=
    if len =? 0 then (true, s, i)
    else if (MAXLEN - N.of_nat (dlen s) <? N.of_nat len)%N then (false, s, i)
    else match set_length i s (dlen s + len) with
         | (false, s', i') => (false, s', i')
         | (true, s', i') =>
             let r := d_bytes s' in
             (true, mkD (firstn at_ r ++ firstn len (skipn at_ r) ++ skipn at_ (d_bytes s)) (d_alloc s'), i')
         end.

  (* write [new] over the bytes starting at [at_] (memset / memcpy / memmove into a place that exists) *)
  Definition overwrite (b : bytes) (at_ : nat) (new : bytes) : bytes :=
    firstn at_ b ++ new ++ skipn (at_ + length new) b.

  Definition put (s : dstr) (at_ : nat) (new : bytes) : dstr := mkD (overwrite (d_bytes s) at_ new) (d_alloc s).

  Definition insert_bytes (i : N) (s : dstr) (at_ n : nat) (byte : N) : bool * dstr * N :=
    if n =? 0 then (true, s, i)
    else match open_gap i n s at_ with
         | (false, s', i') => (false, s', i')
         | (true, s', i') => (true, put s' at_ (repeat byte n), i')
         end.

  Definition insert_byte (i : N) (s : dstr) (at_ : nat) (byte : N) : bool * dstr * N :=
    match open_gap i 1 s at_ with
    | (false, s', i') => (false, s', i')
    | (true, s', i') => (true, put s' at_ [byte], i')
    end.

  Definition lengthen (i : N) (s : dstr) (n : nat) : bool * dstr * N :=
    if (MAXLEN - N.of_nat (dlen s) <? N.of_nat n)%N then (false, s, i)
    else set_length i s (dlen s + n).

  (* _dbus_string_shorten: set_length to something smaller cannot fail and its result is ignored *)
  Definition shorten (s : dstr) (n : nat) : dstr := mkD (firstn (dlen s - n) (d_bytes s)) (d_alloc s).

  (* align_insert_point_then_open_gap; also returns the aligned insert point *)
  Definition align_then_open_gap (i : N) (s : dstr) (at_ alignment gap_size : nat) : bool * dstr * N * nat :=
    let gap_pos := align_value at_ alignment in
    let new_len := dlen s + (gap_pos - at_) + gap_size in
    if too_long new_len then (false, s, i, at_)
    else
      let delta := new_len - dlen s in
      if delta =? 0 then (true, s, i, at_)
      else match open_gap i delta s at_ with
           | (false, s', i') => (false, s', i', at_)
           | (true, s', i') =>
               let s'' := if gap_size <? delta then put s' at_ (repeat 0%N (gap_pos - at_)) else s' in
               (true, s'', i', gap_pos)
           end.

  Definition align_length (i : N) (s : dstr) (alignment : nat) : bool * dstr * N :=
    match align_then_open_gap i s (dlen s) alignment 0 with (ok, s', i', _) => (ok, s', i') end.

  (* _dbus_string_alloc_space: lengthen, then shorten again *)
  Definition alloc_space (i : N) (s : dstr) (extra : nat) : bool * dstr * N :=
    match lengthen i s extra with
    | (false, s', i') => (false, s', i')
    | (true, s', i') => (true, shorten s' extra, i')
    end.

  (* append / _dbus_string_append_len *)
  Definition append (i : N) (s : dstr) (buf : bytes) : bool * dstr * N :=
    if length buf =? 0 then (true, s, i)
    else match lengthen i s (length buf) with
         | (false, s', i') => (false, s', i')
         | (true, s', i') => (true, put s' (dlen s' - length buf) buf, i')
         end.

  (* _dbus_string_insert_2/4/8_aligned: [octets] has the length of the alignment *)
  Definition insert_aligned (i : N) (s : dstr) (at_ : nat) (octets : bytes) : bool * dstr * N :=
    match align_then_open_gap i s at_ (length octets) (length octets) with
    | (false, s', i', _) => (false, s', i')
    | (true, s', i', pos) => (true, put s' pos octets, i')
    end.

  Definition insert_alignment (i : N) (s : dstr) (at_ alignment : nat) : bool * dstr * N * nat :=
    align_then_open_gap i s at_ alignment 0.

  Definition append_byte (i : N) (s : dstr) (byte : N) : bool * dstr * N :=
    match set_length i s (dlen s + 1) with
    | (false, s', i') => (false, s', i')
    | (true, s', i') => (true, put s' (dlen s' - 1) [byte], i')
    end.

  (* delete *)
  Definition delete (s : dstr) (start len : nat) : dstr :=
    mkD (firstn start (d_bytes s) ++ skipn (start + len) (d_bytes s)) (d_alloc s).

  (* copy: open_gap in the destination, then memmove from the source *)
  Definition copy (i : N) (src : bytes) (start len : nat) (dest : dstr) (at_ : nat) : bool * dstr * N :=
    if len =? 0 then (true, dest, i)
    else match open_gap i len dest at_ with
         | (false, d', i') => (false, d', i')
         | (true, d', i') => (true, put d' at_ (firstn len (skipn start src)), i')
         end.

  (* _dbus_string_replace_len *)
  Definition replace_len (i : N) (src : bytes) (start len : nat) (dest : dstr) (at_ rlen : nat) : bool * dstr * N :=
    if len =? rlen then (true, put dest at_ (firstn len (skipn start src)), i)
    else if len <? rlen then
      (true, delete (put dest at_ (firstn len (skipn start src))) (at_ + len) (rlen - len), i)
    else
      (* "First of all we check if destination string can be enlarged as required, then we overwrite previous bytes" *)
      match copy i src (start + rlen) (len - rlen) dest (at_ + rlen) with
      | (false, d', i') => (false, d', i')
      | (true, d', i') => (true, put d' at_ (firstn rlen (skipn start src)), i')
      end.

  (* the same with the two steps in the other order (what seeded defect C14_2 did): kept to show
     that the "unchanged on failure" theorem is a statement about this order *)
  Definition replace_len_swapped (i : N) (src : bytes) (start len : nat) (dest : dstr) (at_ rlen : nat) : bool * dstr * N :=
    if len =? rlen then (true, put dest at_ (firstn len (skipn start src)), i)
    else if len <? rlen then
      (true, delete (put dest at_ (firstn len (skipn start src))) (at_ + len) (rlen - len), i)
    else
      copy i src (start + rlen) (len - rlen) (put dest at_ (firstn rlen (skipn start src))) (at_ + rlen).

  (* ---- one operation on one string, for uniform statements and for the correspondence run --- *)
  Inductive sop :=
  | OLengthen (n : nat)
  | OShorten (n : nat)
  | OSetLength (n : nat)
  | OInsertBytes (at_ n : nat) (byte : N)
  | OInsertByte (at_ : nat) (byte : N)
  | OAlignLength (alignment : nat)
  | OInsertAligned (at_ : nat) (octets : bytes)
  | OInsertAlignment (at_ alignment : nat)
  | OAllocSpace (n : nat)
  | OAppend (buf : bytes)
  | OAppendByte (byte : N)
  | ODelete (start len : nat)
  | OCopyLen (src : bytes) (start len at_ : nat)
  | OReplaceLen (src : bytes) (start len at_ rlen : nat).

  Definition run_sop (i : N) (s : dstr) (op : sop) : bool * dstr * N :=
    match op with
    | OLengthen n => lengthen i s n
    | OShorten n => (true, shorten s n, i)
    | OSetLength n => set_length i s n
    | OInsertBytes at_ n byte => insert_bytes i s at_ n byte
    | OInsertByte at_ byte => insert_byte i s at_ byte
    | OAlignLength a => align_length i s a
    | OInsertAligned at_ octets => insert_aligned i s at_ octets
    | OInsertAlignment at_ a => match insert_alignment i s at_ a with (ok, s', i', _) => (ok, s', i') end
    | OAllocSpace n => alloc_space i s n
    | OAppend buf => append i s buf
    | OAppendByte byte => append_byte i s byte
    | ODelete start len => (true, delete s start len, i)
    | OCopyLen src start len at_ => copy i src start len s at_
    | OReplaceLen src start len at_ rlen => replace_len i src start len s at_ rlen
    end.

  (* the _dbus_assert preconditions of the public functions *)
  Definition sop_pre (s : dstr) (op : sop) : bool :=
    match op with
    | OLengthen _ | OSetLength _ | OAllocSpace _ | OAppend _ | OAppendByte _ => true
    | OShorten n => n <=? dlen s
    | OInsertBytes at_ _ _ | OInsertByte at_ _ => at_ <=? dlen s
    | OAlignLength a => (1 <=? a) && (a <=? 8)
    | OInsertAligned at_ octets => (at_ <=? dlen s) && ((length octets =? 2) || (length octets =? 4) || (length octets =? 8))
    | OInsertAlignment at_ a => (at_ <=? dlen s) && (1 <=? a) && (a <=? 8)
    | ODelete start len => (start <=? dlen s) && (len <=? dlen s - start)
    | OCopyLen src start len at_ => (start <=? length src) && (len <=? length src - start) && (at_ <=? dlen s)
    | OReplaceLen src start len at_ rlen =>
        (start <=? length src) && (len <=? length src - start) && (at_ <=? dlen s) && (rlen <=? dlen s - at_)
    end.

  (* ---- dbus-marshal-header.c on top ------------------------------------------------------------- *)
  (* A header is its data string and header->padding (0..7 bytes after the last field). *)
  Record hdr := mkH { h_data : dstr; h_padding : nat }.

  (* reserve_header_padding: lengthen to MAX_POSSIBLE_HEADER_PADDING = 7 *)
  Definition reserve_header_padding (i : N) (h : hdr) : bool * hdr * N :=
    match lengthen i (h_data h) (7 - h_padding h) with
    | (false, s', i') => (false, mkH s' (h_padding h), i')
    | (true, s', i') => (true, mkH s' 7, i')
    end.

  (* correct_header_padding: shorten by the padding, align the length to 8 ("couldn't pad header
     though enough padding was preallocated" if that fails: None) *)
  Definition correct_header_padding (i : N) (h : hdr) : option (hdr * N) :=
    let s1 := shorten (h_data h) (h_padding h) in
    match align_length i s1 8 with
    | (true, s2, i') => Some (mkH s2 (dlen s2 - dlen s1), i')
    | (false, _, _) => None
    end.

  (* a sequence of string operations that stops at the first failure *)
  Fixpoint run_sops (i : N) (s : dstr) (ops : list sop) : bool * dstr * N :=
    match ops with
    | [] => (true, s, i)
    | op :: more => match run_sop i s op with
                    | (false, s', i') => (false, s', i')
                    | (true, s', i') => run_sops i' s' more
                    end
    end.

  (* write_basic_field: the writer inserts the new (code, variant) struct at the end of the
     fields (the operations [ops], all of them insertions at or after [start]); on failure the
     append_failed path deletes whatever was inserted: everything from [start] up to the padding *)
  Definition write_basic_field (i : N) (h : hdr) (ops : list sop) : bool * hdr * N :=
    let s := h_data h in
    let start := dlen s - h_padding h in
    let padding := dlen s - start in
    match run_sops i s ops with
    | (true, s', i') => (true, mkH s' (h_padding h), i')
    | (false, s', i') => (false, mkH (delete s' start (dlen s' - start - padding)) (h_padding h), i')
    end.

  (* _dbus_type_reader_set_basic for a value of variable length: everything is prepared in a
     separate replacement string ([alloc_before] allocations there), then
     replacement_block_replace moves it into place with _dbus_string_replace_len *)
  Fixpoint skip_allocs (i : N) (n : nat) : bool * N :=
    match n with
    | O => (true, i)
    | S m => if F i then (false, (i + 1)%N) else skip_allocs (i + 1)%N m
    end.

  Definition set_basic_field (i : N) (h : hdr) (alloc_before : nat) (block : bytes) (at_ oldlen : nat) : bool * hdr * N :=
    match skip_allocs i alloc_before with
    | (false, i') => (false, h, i')
    | (true, i') =>
        match replace_len i' block 0 (length block) (h_data h) at_ oldlen with
        | (ok, s', i'') => (ok, mkH s' (h_padding h), i'')
        end
    end.

  Inductive hedit :=
  | HAppend (ops : list sop)                                   (* the field is not there yet *)
  | HReplace (alloc_before : nat) (block : bytes) (at_ oldlen : nat).   (* it is: replace its block *)

  (* _dbus_header_set_field_basic; [fixed] = with correct_header_padding on the failure paths
     (commit 813204b, finding F14.2), without = as the code was *)
  Definition header_set_field (fixed : bool) (i : N) (h : hdr) (e : hedit) : option (bool * hdr * N) :=
    match reserve_header_padding i h with
    | (false, h1, i1) => Some (false, h1, i1)
    | (true, h1, i1) =>
        let r := match e with
                 | HAppend ops => write_basic_field i1 h1 ops
                 | HReplace n block at_ oldlen => set_basic_field i1 h1 n block at_ oldlen
                 end in
        match r with
        | (false, h2, i2) =>
            if fixed then match correct_header_padding i2 h2 with Some (h3, i3) => Some (false, h3, i3) | None => None end
            else Some (false, h2, i2)
        | (true, h2, i2) =>
            match correct_header_padding i2 h2 with Some (h3, i3) => Some (true, h3, i3) | None => None end
        end
    end.

  (* ---- DBusMessage: header, body and the locked flag (dbus/dbus-message.c) ------------------------ *)
  Record dmsg := mkM { m_header : hdr; m_body : dstr; m_locked : bool }.

  (* _dbus_string_init = _dbus_string_init_preallocated (0): one dbus_malloc *)
  Definition string_init (i : N) : bool * dstr * N :=
    if F i then (false, mkD [] 0, (i + 1)%N) else (true, mkD [] PAD, (i + 1)%N).

  Definition with_locked (m : dmsg) (l : bool) : dmsg := mkM (m_header m) (m_body m) l.

  (* dbus_message_marshal: temporary string, lock the message (so that the body length is in the header;
     the header bytes of the model always have it), copy header and body, _dbus_string_steal_data (which
     allocates the empty block left behind), and put the locked flag back - [restore_on_failure] = also
     on the three failure exits, as the code does; without it is seeded defect C14_5 *)
  Definition msg_marshal (restore_on_failure : bool) (i : N) (m : dmsg) : bool * dmsg * N * bytes :=
    match string_init i with
    | (false, _, i1) => (false, m, i1, [])
    | (true, tmp, i1) =>
        let was_locked := m_locked m in
        let m1 := with_locked m true in                                   (* dbus_message_lock *)
        let failed_exit := if restore_on_failure then with_locked m1 was_locked else m1 in
        let hb := d_bytes (h_data (m_header m)) in
        match copy i1 hb 0 (length hb) tmp 0 with
        | (false, _, i2) => (false, failed_exit, i2, [])
        | (true, t1, i2) =>
            let bb := d_bytes (m_body m) in
            match copy i2 bb 0 (length bb) t1 (dlen t1) with
            | (false, _, i3) => (false, failed_exit, i3, [])
            | (true, t2, i3) =>
                if F i3 then (false, failed_exit, (i3 + 1)%N, [])
                else (true, with_locked m1 was_locked, (i3 + 1)%N, d_bytes t2)
            end
        end
    end.

  (* dbus_message_set_destination & co.: refused on a locked message (_dbus_return_val_if_fail (!message->locked)),
     otherwise _dbus_header_set_field_basic *)
  Definition msg_set_field (i : N) (m : dmsg) (e : hedit) : option (bool * dmsg * N) :=
    if m_locked m then Some (false, m, i)
    else match header_set_field true i (m_header m) e with
         | Some (ok, h', i') => Some (ok, mkM h' (m_body m) (m_locked m), i')
         | None => None
         end.
End Str.
