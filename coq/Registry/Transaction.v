(* The transaction layer that carries the driver's messages (bus/connection.c):

     bus_transaction_send            [tsend]   prepend a MessageToSend to the recipient's
                                               d->transaction_messages; if it is the recipient's first
                                               message in this transaction, prepend the recipient to
                                               transaction->connections; disconnected recipients are skipped
     connection_execute_transaction  [exec_conn]  walk d->transaction_messages from the LAST link to the
                                               first, sending and unlinking the entries of this transaction
     bus_transaction_execute_and_free [texec]  pop transaction->connections from the front
     connection_cancel_transaction / bus_transaction_cancel_and_free [tcancel]  unlink without sending

   Registry/Registry.v abstracts all this by [deliver] ("per-transaction FIFO").
   Proofs/TransactionProofs.v shows what that abstraction rests on: whatever the
   interleaving of recipients, every connection receives exactly the messages staged
   for it, in the order of the bus_transaction_send calls, and messages of other
   transactions waiting in the same lists are left alone. *)
From DV Require Export Lib.Base Registry.RegTypes.
Local Open Scope N_scope.

(* MessageToSend: (transaction, message); the list is d->transaction_messages, newest first *)
Definition pend := list (N * msg).

Record tstate := mkT {
  tp : N -> pend;        (* transaction_messages of every connection *)
  tc : list N            (* transaction->connections of THIS transaction, newest first *)
}.

Definition of_trans (tid : N) (e : N * msg) : bool := fst e =? tid.

(* bus_transaction_send (transaction, NULL, destination, message) *)
Definition tsend (connected : N -> bool) (tid : N) (ts : tstate) (o : out) : tstate :=
  let c := fst o in
  if negb (connected c) then ts                          (* "silently ignore disconnected destinations" *)
  else
    let old := tp ts c in
    let tp' := fun x => if x =? c then (tid, snd o) :: old else tp ts x in
    (* "See if we already had this destination in the list for this transaction" *)
    if existsb (of_trans tid) old then mkT tp' (tc ts) else mkT tp' (c :: tc ts).

(* connection_execute_transaction: "Send the queue in order (FIFO)": link = last; ...; link = prev *)
Fixpoint exec_walk (tid : N) (from_last : pend) : list msg :=
  match from_last with
  | [] => []
  | e :: prev => if of_trans tid e then snd e :: exec_walk tid prev else exec_walk tid prev
  end.

Definition exec_conn (tid : N) (p : pend) : list msg * pend :=
  (exec_walk tid (rev p), filter (fun e => negb (of_trans tid e)) p).

(* bus_transaction_execute_and_free: while ((connection = _dbus_list_pop_first (&transaction->connections))) *)
Fixpoint texec_conns (tid : N) (cs : list N) (p : N -> pend) : list out * (N -> pend) :=
  match cs with
  | [] => ([], p)
  | c :: r =>
      let (ms, rest) := exec_conn tid (p c) in
      let (o, p') := texec_conns tid r (fun x => if x =? c then rest else p x) in
      (map (fun m => (c, m)) ms ++ o, p')
  end.

Definition texec (tid : N) (ts : tstate) : list out * (N -> pend) := texec_conns tid (tc ts) (tp ts).

(* bus_transaction_cancel_and_free: the same walk, nothing is sent *)
Fixpoint tcancel_conns (tid : N) (cs : list N) (p : N -> pend) : N -> pend :=
  match cs with
  | [] => p
  | c :: r => tcancel_conns tid r (fun x => if x =? c then filter (fun e => negb (of_trans tid e)) (p c) else p x)
  end.

Definition tcancel (tid : N) (ts : tstate) : N -> pend := tcancel_conns tid (tc ts) (tp ts).

(* a transaction that has just been created: nothing of it is staged anywhere *)
Definition fresh (tid : N) (ts : tstate) : Prop := tc ts = [] /\ forall c e, In e (tp ts c) -> of_trans tid e = false.

Definition stage_all (connected : N -> bool) (tid : N) (ts : tstate) (ms : list out) : tstate :=
  fold_left (tsend connected tid) ms ts.
