(* Model of the name registry of the bus daemon, written after the C control
   flow of

     bus/services.c   bus_registry_acquire_service, bus_registry_ensure,
                      bus_registry_release_service, bus_service_add_owner,
                      bus_service_swap_owner, bus_service_remove_owner,
                      bus_owner_set_flags, _bus_service_find_owner_link,
                      bus_service_list_queued_owners, bus_registry_list_services
     bus/driver.c     bus_driver_handle_hello / _acquire_service / _release_service /
                      _get_service_owner / _service_exists / _list_services /
                      _list_queued_owners, bus_driver_send_service_owner_changed /
                      _lost / _acquired (emission order)
     bus/connection.c bus_connection_disconnected (release loop, last owned first),
                      bus_connection_add/remove_owned_service, bus_transaction_send
                      (messages to a disconnected connection are dropped)
     bus/bus.c        bus_context_check_security_policy (only Hello before registration)

   Model only (no proofs here).  Out of model: OOM paths and their
   cancel/restore hooks, activation, SELinux/AppArmor, the <policy> "own"
   rules (the check runs a permissive configuration), connection-count limits. *)
From DV Require Export Lib.Base Gen.Tables Wire.Names Registry.RegTypes.
Local Open Scope N_scope.

(* BusConnectionData, the part the registry touches *)
Record conn := mkConn {
  c_id : N;
  c_active : bool;            (* d->name != NULL: Hello has been handled *)
  c_match : bool;             (* has a match rule selecting NameOwnerChanged *)
  c_owned : list key          (* d->services_owned, in list order *)
}.

Record bus := mkBus {
  b_conns : list conn;
  b_services : list (key * queue);   (* registry->service_hash (order is not observable) *)
  b_next : N;                        (* id the next connection gets *)
  b_limit : N                        (* limits.max_services_per_connection *)
}.

Definition init_bus (limit : N) : bus := mkBus [] [] 0 limit.

(* ---- small list plumbing ------------------------------------------------ *)
Fixpoint lookup (ss : list (key * queue)) (k : key) : option queue :=
  match ss with
  | [] => None
  | (k', q) :: r => if key_eqb k k' then Some q else lookup r k
  end.

(* replace the queue of an existing service in place *)
Fixpoint set_queue (ss : list (key * queue)) (k : key) (q : queue) : list (key * queue) :=
  match ss with
  | [] => []
  | (k', q') :: r => if key_eqb k k' then (k', q) :: r else (k', q') :: set_queue r k q
  end.

(* bus_service_unlink: drop the service from the hash *)
Fixpoint del_service (ss : list (key * queue)) (k : key) : list (key * queue) :=
  match ss with
  | [] => []
  | (k', q') :: r => if key_eqb k k' then r else (k', q') :: del_service r k
  end.

(* store the queue a service has after an operation; an empty queue means the service is unlinked *)
Definition put_queue (ss : list (key * queue)) (k : key) (q : queue) : list (key * queue) :=
  match q with [] => del_service ss k | _ => set_queue ss k q end.

Fixpoint find_conn (cs : list conn) (c : N) : option conn :=
  match cs with
  | [] => None
  | x :: r => if c_id x =? c then Some x else find_conn r c
  end.

Fixpoint upd_conn (cs : list conn) (c : N) (f : conn -> conn) : list conn :=
  match cs with
  | [] => []
  | x :: r => if c_id x =? c then f x :: r else x :: upd_conn r c f
  end.

Fixpoint del_conn (cs : list conn) (c : N) : list conn :=
  match cs with
  | [] => []
  | x :: r => if c_id x =? c then r else x :: del_conn r c
  end.

(* _dbus_list_remove_last (&d->services_owned, service) *)
Fixpoint remove_last (k : key) (l : list key) : list key :=
  match l with
  | [] => []
  | x :: r => if existsb (key_eqb k) r then x :: remove_last k r
              else if key_eqb k x then r else x :: r
  end.

(* bus_connection_add_owned_service / bus_connection_remove_owned_service *)
Definition own_add (cs : list conn) (c : N) (k : key) : list conn :=
  upd_conn cs c (fun x => mkConn (c_id x) (c_active x) (c_match x) (c_owned x ++ [k])).
Definition own_del (cs : list conn) (c : N) (k : key) : list conn :=
  upd_conn cs c (fun x => mkConn (c_id x) (c_active x) (c_match x) (remove_last k (c_owned x))).

(* ---- flags --------------------------------------------------------------- *)
Definition has_flag (flags f : N) : bool := negb (N.land flags f =? 0).

(* bus_owner_set_flags *)
Definition set_flags (o : owner) (flags : N) : owner :=
  mkOwner (o_conn o) (has_flag flags DBUS_NAME_FLAG_ALLOW_REPLACEMENT) (has_flag flags DBUS_NAME_FLAG_DO_NOT_QUEUE).

(* ---- queue operations ----------------------------------------------------- *)
(* _bus_service_find_owner_link *)
Fixpoint find_owner (q : queue) (c : N) : option owner :=
  match q with
  | [] => None
  | o :: r => if o_conn o =? c then Some o else find_owner r c
  end.

(* _dbus_list_unlink of the link found by _bus_service_find_owner_link *)
Fixpoint unlink_conn (q : queue) (c : N) : queue :=
  match q with
  | [] => []
  | o :: r => if o_conn o =? c then r else o :: unlink_conn r c
  end.

(* bus_owner_set_flags on the link found by _bus_service_find_owner_link, in place *)
Fixpoint refresh_first (q : queue) (c : N) (flags : N) : queue :=
  match q with
  | [] => []
  | o :: r => if o_conn o =? c then set_flags o flags :: r else o :: refresh_first r c flags
  end.

Definition is_nil {A} (l : list A) : bool := match l with [] => true | _ => false end.

(* bus_service_add_owner.  Result: new queue, whether a new BusOwner was
   created (it is then added to the connection's services_owned), messages.
   None where the C code runs into _dbus_assert (link != NULL). *)
Definition add_owner (k : key) (q : queue) (c : N) (flags : N) : option (queue * bool * list emit) :=
  let acq := if is_nil q then [EUni c (MAcquired k)] else [] in
  match find_owner q c with
  | None =>
      let o := set_flags (mkOwner c false false) flags in
      if negb (has_flag flags DBUS_NAME_FLAG_REPLACE_EXISTING) || is_nil q
      then Some (q ++ [o], true, acq)                                  (* _dbus_list_append *)
      else match q with
           | h :: t => Some (h :: o :: t, true, acq)                   (* _dbus_list_insert_after (first link) *)
           | [] => None
           end
  | Some o =>
      if has_flag flags DBUS_NAME_FLAG_REPLACE_EXISTING then
        match unlink_conn q c with
        | h :: t => Some (h :: set_flags o flags :: t, false, acq)     (* unlink, insert after the first link *)
        | [] => None                                                   (* _dbus_assert (link != NULL) *)
        end
      else Some (refresh_first q c flags, false, acq)
  end.

(* messages of a change of primary owner from [c] to the head of [rest] *)
Definition handover (k : key) (c : N) (rest : queue) : list emit :=
  match rest with
  | [] => [EUni c (MLost k); EBcast (MNOC k (Some c) None)]
  | n :: _ => [EUni c (MLost k); EBcast (MNOC k (Some c) (Some (o_conn n))); EUni (o_conn n) (MAcquired k)]
  end.

(* bus_service_remove_owner.  An empty result queue means bus_service_unlink.
   None where the C code would dereference a NULL link / assert. *)
Definition remove_owner (k : key) (q : queue) (c : N) : option (queue * list emit) :=
  match q with
  | [] => None
  | p :: rest =>
      if o_conn p =? c then Some (rest, handover k c rest)
      else match find_owner q c with
           | None => None
           | Some _ => Some (unlink_conn q c, [])        (* not the primary owner: just leave the queue *)
           end
  end.

(* bus_service_swap_owner: the primary owner becomes the second entry *)
Definition swap_owner (k : key) (q : queue) (c : N) : option (queue * list emit) :=
  match q with
  | p :: n :: rest =>
      if o_conn p =? c then Some (n :: p :: rest, handover k c (n :: rest))
      else None                                           (* "Tried to swap a non primary owner" *)
  | _ => None                                             (* "... no other owners in the queue" *)
  end.

(* ---- bus_registry_acquire_service / _release_service --------------------- *)
Inductive reg_result :=
| RErr (e : err)
| ROk (conns : list conn) (services : list (key * queue)) (code : N) (es : list emit)
| RFault.

Definition starts_with_colon (s : bytes) : bool := match s with x :: _ => x =? COLON | [] => false end.

(* the three name checks shared by acquire and release, in the C order *)
Definition name_refused (name : bytes) : bool :=
  negb (validate_bus_name name) || starts_with_colon name || bytes_eqb name DBUS_SERVICE_DBUS_str.

Definition acquire_service (b : bus) (cn : conn) (name : bytes) (flags : N) : reg_result :=
  let c := c_id cn in
  if negb (validate_bus_name name) then RErr EInvalidArgs else
  if starts_with_colon name then RErr EInvalidArgs else
  if bytes_eqb name DBUS_SERVICE_DBUS_str then RErr EInvalidArgs else
  (* SELinux, AppArmor, bus_client_policy_check_can_own: permissive configuration *)
  let k := KW name in
  (* bus_registry_lookup, then the limit: only a caller that is not yet in the queue of the
     name (service == NULL || !bus_service_owner_in_queue) can be refused *)
  let holds := match lookup (b_services b) k with
               | Some q => match find_owner q c with Some _ => true | None => false end
               | None => false
               end in
  if (b_limit b <=? nlen (c_owned cn)) && negb holds then RErr ELimitsExceeded else
  let dnq := has_flag flags DBUS_NAME_FLAG_DO_NOT_QUEUE in
  let repl := has_flag flags DBUS_NAME_FLAG_REPLACE_EXISTING in
  match lookup (b_services b) k with
  | None =>
      (* bus_registry_ensure: NameOwnerChanged first, then add_owner (NameAcquired), then the hash insert *)
      match add_owner k [] c flags with
      | Some (q, _, es) =>
          ROk (own_add (b_conns b) c k) (b_services b ++ [(k, q)]) DBUS_REQUEST_NAME_REPLY_PRIMARY_OWNER
              (EBcast (MNOC k None (Some c)) :: es)
      | None => RFault
      end
  | Some [] => RFault                                   (* a service in the hash always has an owner *)
  | Some ((p :: waiting) as q) =>
      if o_conn p =? c then
        ROk (b_conns b) (set_queue (b_services b) k (set_flags p flags :: waiting)) DBUS_REQUEST_NAME_REPLY_ALREADY_OWNER []
      else if (dnq && negb (o_allow p)) || (dnq && negb repl) then
        (* "Since we can't be queued if we are already in the queue remove us" *)
        match find_owner q c with
        | Some _ => ROk (own_del (b_conns b) c k) (set_queue (b_services b) k (unlink_conn q c)) DBUS_REQUEST_NAME_REPLY_EXISTS []
        | None => ROk (b_conns b) (b_services b) DBUS_REQUEST_NAME_REPLY_EXISTS []
        end
      else if negb dnq && (negb repl || negb (o_allow p)) then
        match add_owner k q c flags with
        | Some (q', fresh, es) =>
            ROk (if fresh then own_add (b_conns b) c k else b_conns b) (set_queue (b_services b) k q')
                DBUS_REQUEST_NAME_REPLY_IN_QUEUE es
        | None => RFault
        end
      else
        (* replace the current owner: enqueue, then remove or swap the first one *)
        match add_owner k q c flags with
        | Some (q', fresh, es) =>
            let cs := if fresh then own_add (b_conns b) c k else b_conns b in
            if o_dnq p then
              match remove_owner k q' (o_conn p) with
              | Some (q'', es') =>
                  match q'' with
                  | n :: _ => if o_conn n =? c
                              then ROk (own_del cs (o_conn p) k) (put_queue (b_services b) k q'') DBUS_REQUEST_NAME_REPLY_PRIMARY_OWNER (es ++ es')
                              else RFault                     (* _dbus_assert (connection == primary owner) *)
                  | [] => RFault
                  end
              | None => RFault
              end
            else
              match swap_owner k q' (o_conn p) with
              | Some (q'', es') =>
                  match q'' with
                  | n :: _ => if o_conn n =? c
                              then ROk cs (set_queue (b_services b) k q'') DBUS_REQUEST_NAME_REPLY_PRIMARY_OWNER (es ++ es')
                              else RFault
                  | [] => RFault
                  end
              | None => RFault
              end
        | None => RFault
        end
  end.

Definition release_service (b : bus) (cn : conn) (name : bytes) : reg_result :=
  let c := c_id cn in
  if negb (validate_bus_name name) then RErr EInvalidArgs else
  if starts_with_colon name then RErr EInvalidArgs else
  if bytes_eqb name DBUS_SERVICE_DBUS_str then RErr EInvalidArgs else
  let k := KW name in
  match lookup (b_services b) k with
  | None => ROk (b_conns b) (b_services b) DBUS_RELEASE_NAME_REPLY_NON_EXISTENT []
  | Some q =>
      match find_owner q c with
      | None => ROk (b_conns b) (b_services b) DBUS_RELEASE_NAME_REPLY_NOT_OWNER []
      | Some _ =>
          match remove_owner k q c with
          | Some (q', es) => ROk (own_del (b_conns b) c k) (put_queue (b_services b) k q') DBUS_RELEASE_NAME_REPLY_RELEASED es
          | None => RFault
          end
      end
  end.

(* ---- delivery -------------------------------------------------------------- *)
(* bus_dispatch_matches for the driver's NameOwnerChanged: every active
   connection with a matching rule (the order among recipients is not observable) *)
Definition subscribers (cs : list conn) : list N :=
  map c_id (filter (fun x => c_active x && c_match x) cs).

Definition deliver1 (cs : list conn) (e : emit) : list out :=
  match e with
  | EUni c m => [(c, m)]
  | EBcast m => map (fun c => (c, m)) (subscribers cs)
  end.

(* per-transaction FIFO: bus_transaction_send keeps the order of the calls for each recipient *)
Definition deliver (cs : list conn) (es : list emit) : list out := flat_map (deliver1 cs) es.

(* ---- bus_connection_disconnected -------------------------------------------- *)
(* releases the owned services, last one first (the unique name, owned first, goes last);
   every iteration is its own transaction.  [ks] is the snapshot of services_owned,
   already reversed.  None = the C code would crash. *)
Fixpoint release_all (cs : list conn) (ss : list (key * queue)) (c : N) (ks : list key)
  : option (list conn * list (key * queue) * list emit) :=
  match ks with
  | [] => Some (cs, ss, [])
  | k :: more =>
      match lookup ss k with
      | None => None
      | Some q =>
          match remove_owner k q c with
          | None => None
          | Some (q', es) =>
              match release_all (own_del cs c k) (put_queue ss k q') c more with
              | None => None
              | Some (cs', ss', es') => Some (cs', ss', es ++ es')
              end
          end
      end
  end.

(* ---- one event ----------------------------------------------------------------- *)
Definition fault (b : bus) (c : N) : bus * list out := (b, [(c, MFault)]).

Definition with_services (b : bus) (cs : list conn) (ss : list (key * queue)) : bus :=
  mkBus cs ss (b_next b) (b_limit b).

Definition step (b : bus) (e : event) : bus * list out :=
  match e with
  | EvConnect =>
      (mkBus (b_conns b ++ [mkConn (b_next b) false false []]) (b_services b) (b_next b + 1) (b_limit b), [])
  | EvHello c =>
      match find_conn (b_conns b) c with
      | None => fault b c
      | Some cn =>
          if c_active cn then (b, [(c, MError EFailed)])          (* "Already handled an Hello message" *)
          else
            (* bus_connection_complete, welcome message, then bus_registry_ensure for the unique name *)
            match lookup (b_services b) (KU c) with
            | Some _ => fault b c                                  (* create_unique_client_name skips used names *)
            | None =>
                match add_owner (KU c) [] c 0 with
                | Some (q, _, es) =>
                    let cs := upd_conn (b_conns b) c (fun x => mkConn (c_id x) true (c_match x) (c_owned x ++ [KU c])) in
                    (with_services b cs (b_services b ++ [(KU c, q)]),
                     deliver cs (EUni c (MHelloReply c) :: EBcast (MNOC (KU c) None (Some c)) :: es))
                | None => fault b c
                end
            end
      end
  | EvAddMatch c =>
      match find_conn (b_conns b) c with
      | None => fault b c
      | Some cn =>
          if negb (c_active cn) then (b, [(c, MError EAccessDenied)])
          else (with_services b (upd_conn (b_conns b) c (fun x => mkConn (c_id x) (c_active x) true (c_owned x))) (b_services b),
                [(c, MAck)])
      end
  | EvRequest c name flags =>
      match find_conn (b_conns b) c with
      | None => fault b c
      | Some cn =>
          if negb (c_active cn) then (b, [(c, MError EAccessDenied)])
          else match acquire_service b cn name flags with
               | RErr e => (b, [(c, MError e)])
               | ROk cs ss code es => (with_services b cs ss, deliver cs (es ++ [EUni c (MReply code)]))
               | RFault => fault b c
               end
      end
  | EvRelease c name =>
      match find_conn (b_conns b) c with
      | None => fault b c
      | Some cn =>
          if negb (c_active cn) then (b, [(c, MError EAccessDenied)])
          else match release_service b cn name with
               | RErr e => (b, [(c, MError e)])
               | ROk cs ss code es => (with_services b cs ss, deliver cs (es ++ [EUni c (MReply code)]))
               | RFault => fault b c
               end
      end
  | EvDisconnect c =>
      match find_conn (b_conns b) c with
      | None => fault b c
      | Some cn =>
          (* match rules go first (bus_matchmaker_disconnected), then the names; nothing is
             delivered to the connection itself any more *)
          match release_all (b_conns b) (b_services b) c (rev (c_owned cn)) with
          | None => fault b c
          | Some (cs, ss, es) =>
              let cs' := del_conn cs c in
              (with_services b cs' ss, filter (fun o => negb (fst o =? c)) (deliver cs' es))
          end
      end
  end.

Fixpoint run (b : bus) (h : list event) : bus * list (list out) :=
  match h with
  | [] => (b, [])
  | e :: r => let (b1, o) := step b e in let (b2, os) := run b1 r in (b2, o :: os)
  end.

(* ---- the query methods ------------------------------------------------------------ *)
Definition is_bus_name (a : qarg) : bool :=
  match a with QS s => bytes_eqb s DBUS_SERVICE_DBUS_str | QU _ => false end.

(* bus_driver_handle_get_service_owner: None = error NameHasNoOwner *)
Definition get_name_owner (b : bus) (a : qarg) : option who :=
  match lookup (b_services b) (qkey a) with
  | None => if is_bus_name a then Some WBus else None
  | Some [] => None
  | Some (p :: _) => Some (WConn (o_conn p))
  end.

(* bus_driver_handle_service_exists *)
Definition name_has_owner (b : bus) (a : qarg) : bool :=
  if is_bus_name a then true
  else match lookup (b_services b) (qkey a) with Some _ => true | None => false end.

(* bus_driver_handle_list_queued_owners: None = error NameHasNoOwner *)
Definition list_queued_owners (b : bus) (a : qarg) : option (list who) :=
  match lookup (b_services b) (qkey a) with
  | None => if is_bus_name a then Some [WBus] else None
  | Some q => Some (map (fun o => WConn (o_conn o)) q)
  end.

(* bus_driver_handle_list_services: the bus itself (None) first, then the hash contents *)
Definition list_names (b : bus) : list (option key) :=
  None :: map (fun kq => Some (fst kq)) (b_services b).
