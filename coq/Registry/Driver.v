(* The bus driver around the name registry: what a client sees on the wire.

   Registry/Registry.v keeps names abstract (KU c = "the unique name of
   connection c") and assumes a permissive <policy>.  This layer puts the
   remaining deciding code into the model, following the C control flow:

     bus/driver.c   create_unique_client_name (":" major "." minor, static counters,
                    "while (TRUE) ... if (bus_registry_lookup (registry, str) == NULL) break"),
                    bus_driver_handle_hello (the part that picks the name),
                    bus_driver_handle_get_service_owner / _service_exists /
                    _list_queued_owners / _list_services on the RAW argument string
                    (no syntax check; the registry is a hash keyed by the string),
                    bus_driver_handle_reload_config (bus_context_reload_config: new
                    limits and new policy rules for every connection, registry untouched)
     bus/services.c bus_registry_acquire_service: the bus_client_policy_check_can_own
                    gate, between the three name checks and the limit
     bus/policy.c   bus_rules_check_can_own            = Policy.check_can_own (C06's model)
     dbus/dbus-string.c _dbus_string_append_int        = [dec] (non-negative ints)

   and renders every message with the strings that go on the wire (unique names
   as ":1.<minor>", no owner as ""), so that the correspondence run compares raw
   strings: nothing is mapped back to connection indices any more.

   The C registry is one hash table keyed by strings; here a string is resolved
   to a key ([resolve]) by comparing it with the unique names handed out so far.
   Proofs/DriverProofs.v shows that this loses nothing (the rendering of keys is
   injective on every reachable table, string lookup = key lookup). *)
From DV Require Export Lib.Base Gen.Tables Wire.Names Registry.RegTypes Registry.Registry.
From DV Require Policy.Policy.
Local Open Scope N_scope.

(* the policy rule record and bus_rules_check_can_own of the C06 model *)
Notation prule := Policy.Policy.rule.
Notation check_can_own := Policy.Policy.check_can_own.

(* ---- _dbus_string_append_int for a non-negative int: decimal digits, most significant first ---- *)
Fixpoint dec_fuel (fuel : nat) (n : N) (acc : bytes) : bytes :=
  match fuel with
  | O => acc                                            (* never reached: the fuel is n + 1 *)
  | S f => let acc' := (48 + n mod 10) :: acc in
           if n <? 10 then acc' else dec_fuel f (n / 10) acc'
  end.
Definition dec (n : N) : bytes := dec_fuel (S (N.to_nat n)) n [].

Definition INT_MAX : N := 2147483647.

(* appname:MAJOR-MINOR with next_major_number = 1 (it only changes when the minor counter overflows int) *)
Definition ustr (minor : N) : bytes := COLON :: 49 :: DOT :: dec minor.

Record dbus := mkD {
  d_bus : bus;                    (* connection table, registry, limit *)
  d_rules : list prule;           (* BusClientPolicy->rules of the connections (one uid: default + mandatory contexts) *)
  d_minor : N;                    (* static int next_minor_number *)
  d_unique : list (N * N)         (* connection -> minor number of the unique name it was given (kept for ever) *)
}.

Definition dinit (rules : list prule) (limit : N) : dbus := mkD (init_bus limit) rules 0 [].

Fixpoint assoc (c : N) (l : list (N * N)) : option N :=
  match l with
  | [] => None
  | (c', m) :: r => if c' =? c then Some m else assoc c r
  end.

(* bus_connection_get_name *)
Definition uname_of (d : dbus) (c : N) : option bytes := option_map ustr (assoc c (d_unique d)).

(* service->name *)
Definition kstr (d : dbus) (k : key) : option bytes :=
  match k with KW s => Some s | KU c => uname_of d c end.

(* the hash lookup by string: which key does this string denote? *)
Definition resolve (d : dbus) (s : bytes) : qarg :=
  match find (fun cm => bytes_eqb (ustr (snd cm)) s) (d_unique d) with
  | Some cm => QU (fst cm)
  | None => QS s
  end.

(* bus_registry_lookup (registry, str) != NULL *)
Definition name_in_use (d : dbus) (s : bytes) : bool :=
  match lookup (b_services (d_bus d)) (qkey (resolve d s)) with Some _ => true | None => false end.

(* ---- what goes on the wire ------------------------------------------------------------------- *)
Inductive werr := WInvalidArgs | WAccessDenied | WLimitsExceeded | WFailed | WNameHasNoOwner.

Inductive wmsg :=
| WHello (u : bytes)                    (* method return of Hello: the unique name *)
| WU32 (n : N)                          (* method return of RequestName / ReleaseName *)
| WAck                                  (* empty method return (AddMatch, ReloadConfig) *)
| WErr (e : werr)
| WAcquired (s : bytes)                 (* NameAcquired (s) *)
| WLost (s : bytes)                     (* NameLost (s) *)
| WNOC (s old new : bytes)              (* NameOwnerChanged (s, old, new); "" = no owner *)
| WStr (s : bytes)                      (* method return of GetNameOwner *)
| WBool (b : bool)                      (* method return of NameHasOwner *)
| WList (l : list bytes)                (* method return of ListQueuedOwners / ListNames *)
| WFault.

Definition wout := (N * wmsg)%type.

Definition rerr (e : err) : werr :=
  match e with EInvalidArgs => WInvalidArgs | EAccessDenied => WAccessDenied | ELimitsExceeded => WLimitsExceeded | EFailed => WFailed end.

(* old_owner ? old_owner : "" *)
Definition ostr (d : dbus) (o : option N) : option bytes :=
  match o with None => Some [] | Some c => uname_of d c end.

Definition render_msg (d : dbus) (m : msg) : wmsg :=
  match m with
  | MHelloReply c => match uname_of d c with Some u => WHello u | None => WFault end
  | MReply code => WU32 code
  | MAck => WAck
  | MError e => WErr (rerr e)
  | MAcquired k => match kstr d k with Some s => WAcquired s | None => WFault end
  | MLost k => match kstr d k with Some s => WLost s | None => WFault end
  | MNOC k old new =>
      match kstr d k, ostr d old, ostr d new with
      | Some s, Some a, Some b => WNOC s a b
      | _, _, _ => WFault
      end
  | MFault => WFault
  end.

Definition render (d : dbus) (o : list out) : list wout := map (fun x => (fst x, render_msg d (snd x))) o.

(* ---- events ----------------------------------------------------------------------------------------- *)
Inductive devent :=
| DReg (e : event)                                  (* Connect / Hello / AddMatch / RequestName / ReleaseName / Disconnect *)
| DGetNameOwner (c : N) (s : bytes)
| DNameHasOwner (c : N) (s : bytes)
| DListQueuedOwners (c : N) (s : bytes)
| DListNames (c : N)
| DReload (c : N) (rules : list prule) (limit : N).  (* ReloadConfig after the configuration file changed *)

Definition dfault (d : dbus) (c : N) : dbus * list wout := (d, [(c, WFault)]).

Definition with_bus (d : dbus) (b : bus) : dbus := mkD b (d_rules d) (d_minor d) (d_unique d).

(* a driver method that only reads the registry: the caller must have said Hello *)
Definition query (d : dbus) (c : N) (answer : wmsg) : dbus * list wout :=
  match find_conn (b_conns (d_bus d)) c with
  | None => dfault d c
  | Some cn => if c_active cn then (d, [(c, answer)]) else (d, [(c, WErr WAccessDenied)])
  end.

Definition who_str (d : dbus) (w : who) : option bytes :=
  match w with WBus => Some DBUS_SERVICE_DBUS_str | WConn c => uname_of d c end.

(* all-or-nothing rendering of a list *)
Fixpoint all_some {A} (l : list (option A)) : option (list A) :=
  match l with
  | [] => Some []
  | None :: _ => None
  | Some x :: r => match all_some r with Some r' => Some (x :: r') | None => None end
  end.

Definition dstep (d : dbus) (e : devent) : dbus * list wout :=
  let b := d_bus d in
  match e with
  | DReg (EvHello c) =>
      match find_conn (b_conns b) c with
      | Some cn =>
          if c_active cn then (d, render d (snd (step b (EvHello c))))
          else if INT_MAX <? d_minor d then dfault d c            (* next_minor_number would wrap: next major; out of model *)
          else if name_in_use d (ustr (d_minor d)) then dfault d c  (* the loop would try the next number; never happens *)
          else
            let (b', o) := step b (EvHello c) in
            let d' := mkD b' (d_rules d) (d_minor d + 1) (d_unique d ++ [(c, d_minor d)]) in
            (d', render d' o)
      | None => dfault d c
      end
  | DReg (EvRequest c name flags) =>
      match find_conn (b_conns b) c with
      | Some cn =>
          if c_active cn && negb (name_refused name) then
            (* bus_client_policy_check_can_own, after the name checks and before the limit *)
            match check_can_own (d_rules d) name with
            | None => dfault d c
            | Some false => (d, [(c, WErr WAccessDenied)])
            | Some true => let (b', o) := step b (EvRequest c name flags) in let d' := with_bus d b' in (d', render d' o)
            end
          else let (b', o) := step b (EvRequest c name flags) in let d' := with_bus d b' in (d', render d' o)
      | None => dfault d c
      end
  | DReg e0 =>
      (* the unique name of a connection that is going away is still needed for its last signals:
         d_unique never forgets *)
      let (b', o) := step b e0 in let d' := with_bus d b' in (d', render d' o)
  | DGetNameOwner c s =>
      query d c (match get_name_owner b (resolve d s) with
                 | None => WErr WNameHasNoOwner
                 | Some w => match who_str d w with
                             | Some u => WStr u
                             | None => WErr WFailed            (* "Could not determine unique name" *)
                             end
                 end)
  | DNameHasOwner c s => query d c (WBool (name_has_owner b (resolve d s)))
  | DListQueuedOwners c s =>
      query d c (match list_queued_owners b (resolve d s) with
                 | None => WErr WNameHasNoOwner
                 | Some l => match all_some (map (who_str d) l) with Some us => WList us | None => WFault end
                 end)
  | DListNames c =>
      query d c (match all_some (map (fun k => match k with None => Some DBUS_SERVICE_DBUS_str | Some k => kstr d k end) (list_names b)) with
                 | Some l => WList l
                 | None => WFault
                 end)
  | DReload c rules limit =>
      match find_conn (b_conns b) c with
      | None => dfault d c
      | Some cn =>
          if c_active cn
          then (mkD (mkBus (b_conns b) (b_services b) (b_next b) limit) rules (d_minor d) (d_unique d), [(c, WAck)])
          else (d, [(c, WErr WAccessDenied)])
      end
  end.

Fixpoint drun (d : dbus) (h : list devent) : dbus * list (list wout) :=
  match h with
  | [] => (d, [])
  | e :: r => let (d1, o) := dstep d e in let (d2, os) := drun d1 r in (d2, o :: os)
  end.
