(* Vocabulary shared by the registry model (Registry/Registry.v) and its
   specification (Spec/RegistrySpec.v): names, queue entries, events and the
   messages the bus driver emits.  No behaviour here. *)
From DV Require Export Lib.Base.
Local Open Scope N_scope.

(* A bus name as the registry sees it.  Unique names are kept abstract:
   [KU c] is "the unique name the bus assigned to connection c" (connection
   ids are never reused, see [b_next]); [KW s] is the string s.  The check's
   canonicaliser maps ":1.N" strings to connection indices. *)
Inductive key := KU (c : N) | KW (s : bytes).

Definition key_eqb (a b : key) : bool :=
  match a, b with
  | KU x, KU y => x =? y
  | KW x, KW y => bytes_eqb x y
  | _, _ => false
  end.

(* BusOwner: connection, allow_replacement, do_not_queue (from its latest request) *)
Record owner := mkOwner { o_conn : N; o_allow : bool; o_dnq : bool }.
Definition queue := list owner.

Inductive err := EInvalidArgs | EAccessDenied | ELimitsExceeded | EFailed.

Inductive msg :=
| MHelloReply (c : N)                     (* method return of Hello, carrying c's unique name *)
| MReply (code : N)                       (* method return of RequestName / ReleaseName *)
| MAck                                    (* empty method return (AddMatch) *)
| MError (e : err)
| MAcquired (k : key)                     (* NameAcquired, unicast *)
| MLost (k : key)                         (* NameLost, unicast *)
| MNOC (k : key) (old new : option N)     (* NameOwnerChanged (name, old owner, new owner), broadcast *)
| MFault.                                 (* the C code would have hit an assertion / ill-formed event *)

(* what a transaction stages: unicast to one connection or broadcast to the
   connections whose match rules select NameOwnerChanged *)
Inductive emit := EUni (c : N) (m : msg) | EBcast (m : msg).

(* one delivered message: (receiving connection, message) *)
Definition out := (N * msg)%type.

Inductive event :=
| EvConnect                                       (* a new socket; gets the next connection id *)
| EvHello (c : N)
| EvAddMatch (c : N)                              (* AddMatch for NameOwnerChanged *)
| EvRequest (c : N) (name : bytes) (flags : N)    (* RequestName *)
| EvRelease (c : N) (name : bytes)                (* ReleaseName *)
| EvDisconnect (c : N).                           (* socket closed *)

(* argument of the query methods: some connection's unique name, or a string
   that is not the unique name of any connection *)
Inductive qarg := QU (c : N) | QS (s : bytes).
Definition qkey (a : qarg) : key := match a with QU c => KU c | QS s => KW s end.

(* an owner as reported by the query methods *)
Inductive who := WBus | WConn (c : N).

Definition is_reply (m : msg) : bool :=
  match m with MHelloReply _ | MReply _ | MAck | MError _ => true | _ => false end.
