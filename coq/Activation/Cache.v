(* Activation model (package `activation`, property C19), the bus's service-file cache.

   Executable model of how the table of activatable names arises from the
   configured service directories and the files in them:

     bus/activation.c  bus_activation_reload (fresh tables, update_directory for
                       every configured directory in order), update_directory
                       (readdir order; only *.service; known file name ->
                       check_service_file, otherwise bus_desktop_file_load +
                       update_desktop_file_entry; failures skip the file),
                       update_desktop_file_entry (Name and Exec required, User
                       and SystemdService optional; new file: strict naming for
                       directories flagged so, "already exists" if the name is in
                       the table; known file: old name removed, new name must be
                       free, fields replaced; mtime recorded),
                       check_service_file (file gone -> entry dropped; newer
                       mtime -> reloaded through update_desktop_file_entry, a
                       failure keeps the old entry), update_service_cache,
                       activation_find_entry (hit -> check_service_file, miss ->
                       rescan every directory, look again)
     bus/desktop-file.c via Activation/Helper.v (desktop_load, get_string)

   No proofs in this file.  A directory is what readdir and stat show: the files
   in listing order with modification time and contents, or None when it cannot
   be opened.  Directories are identified by their position in the configured
   list (the configuration parser removes duplicates). *)
From DV Require Import Lib.Base Gen.ActivationTables Activation.Helper.
Local Open Scope N_scope.

Record file := mkFile { fl_mtime : N; fl_content : bytes }.
Definition listing := option (list (bytes * file)).          (* one directory *)
Definition fsys := list listing.                              (* the configured directories, in order *)

(* BusActivationEntry *)
Record sentry := mkSentry {
  se_name : bytes; se_exec : bytes; se_user : option bytes; se_systemd : option bytes;
  se_mtime : N; se_dir : N; se_file : bytes }.

(* BusActivation.entries (by name) and the BusServiceDirectory.entries tables (by directory and file name);
   the C tables share entry objects, the model keeps two copies and updates both *)
Record cache := mkCache { by_name : list sentry; by_file : list sentry }.

Definition empty_cache : cache := mkCache [] [].

Definition KEY_SYSTEMD : bytes := SERVICE_SYSTEMD.

Definition lookup_name (n : bytes) (l : list sentry) : option sentry := find (fun e => bytes_eqb e.(se_name) n) l.
Definition lookup_file (d : N) (f : bytes) (l : list sentry) : option sentry :=
  find (fun e => (e.(se_dir) =? d) && bytes_eqb e.(se_file) f) l.
Definition remove_name (n : bytes) (l : list sentry) : list sentry := filter (fun e => negb (bytes_eqb e.(se_name) n)) l.
Definition remove_file (d : N) (f : bytes) (l : list sentry) : list sentry :=
  filter (fun e => negb ((e.(se_dir) =? d) && bytes_eqb e.(se_file) f)) l.
Definition replace_file (d : N) (f : bytes) (en : sentry) (l : list sentry) : list sentry :=
  map (fun e => if (e.(se_dir) =? d) && bytes_eqb e.(se_file) f then en else e) l.

(* _dbus_string_ends_with_c_str *)
Definition ends_with (suffix s : bytes) : bool :=
  Nat.leb (length suffix) (length s) && bytes_eqb (skipn (length s - length suffix)%nat s) suffix.

(* what update_desktop_file_entry reads from a file that bus_desktop_file_load accepted *)
Definition parse_entry (content : bytes) : option (bytes * bytes * option bytes * option bytes) :=
  match desktop_load content with
  | LOk d =>
      match get_string d SECTION KEY_NAME, get_string d SECTION KEY_EXEC with
      | Some n, Some e => Some (n, e, get_string d SECTION KEY_USER, get_string d SECTION KEY_SYSTEMD)
      | _, _ => None
      end
  | _ => None
  end.

(* bus_desktop_file_load + update_desktop_file_entry for file [fname] of directory [d]; the flag tells success *)
Definition update_file (c : cache) (d : N) (strict : bool) (fname : bytes) (f : file) : cache * bool :=
  match parse_entry f.(fl_content) with
  | None => (c, false)
  | Some (n, e, u, sy) =>
      let en := mkSentry n e u sy f.(fl_mtime) d fname in
      match lookup_file d fname c.(by_file) with
      | None =>                                            (* New file *)
          if negb (bytes_eqb (n ++ DOT_SERVICE) fname) && strict then (c, false)        (* "should have been named" *)
          else match lookup_name n c.(by_name) with
               | Some _ => (c, false)                      (* "already exists in activation entry list" *)
               | None => (mkCache (c.(by_name) ++ [en]) (c.(by_file) ++ [en]), true)
               end
      | Some old =>                                        (* Just update the entry *)
          let bn := remove_name old.(se_name) c.(by_name) in
          match lookup_name n bn with
          | Some _ => (mkCache bn c.(by_file), false)      (* "new service name ... is already in cache, ignoring" *)
          | None => (mkCache (bn ++ [en]) (replace_file d fname en c.(by_file)), true)
          end
      end
  end.

Definition stat_file (fs : fsys) (d : N) (fname : bytes) : option file :=
  match nth (N.to_nat d) fs None with
  | None => None
  | Some files => match find (fun p => bytes_eqb (fst p) fname) files with
                  | Some p => Some (snd p)
                  | None => None
                  end
  end.

(* check_service_file: the cache afterwards and *updated_entry *)
Definition check_file (fs : fsys) (c : cache) (e : sentry) : cache * option sentry :=
  match stat_file fs e.(se_dir) e.(se_file) with
  | None => (mkCache (remove_name e.(se_name) c.(by_name)) (remove_file e.(se_dir) e.(se_file) c.(by_file)), None)
  | Some f =>
      if e.(se_mtime) <? f.(fl_mtime) then
        match update_file c e.(se_dir) false e.(se_file) f with
        | (c', true) => (c', lookup_file e.(se_dir) e.(se_file) c'.(by_file))     (* the same object, fields replaced *)
        | (c', false) => (c', Some e)                                             (* the old object is handed back *)
        end
      else (c, Some e)
  end.

(* the while loop of update_directory *)
Fixpoint update_files (fs : fsys) (c : cache) (d : N) (strict : bool) (files : list (bytes * file)) : cache :=
  match files with
  | [] => c
  | (fname, f) :: r =>
      if negb (ends_with DOT_SERVICE fname) then update_files fs c d strict r
      else match lookup_file d fname c.(by_file) with
           | Some e => update_files fs (fst (check_file fs c e)) d strict r
           | None => update_files fs (fst (update_file c d strict fname f)) d strict r
           end
  end.

Definition update_directory (fs : fsys) (c : cache) (d : N) (strict : bool) : cache :=
  match nth (N.to_nat d) fs None with
  | None => c                                              (* cannot be opened: skipped *)
  | Some files => update_files fs c d strict files
  end.

(* update_service_cache / the loop of bus_activation_reload: [flags] = STRICT_NAMING per configured directory *)
Fixpoint update_all (fs : fsys) (c : cache) (d : N) (flags : list bool) : cache :=
  match flags with
  | [] => c
  | s :: r => update_all fs (update_directory fs c d s) (d + 1) r
  end.

Definition reload (flags : list bool) (fs : fsys) : cache := update_all fs empty_cache 0 flags.

(* activation_find_entry: None = ServiceUnknown *)
Definition find_entry (flags : list bool) (fs : fsys) (c : cache) (n : bytes) : cache * option sentry :=
  match lookup_name n c.(by_name) with
  | None => let c' := update_all fs c 0 flags in (c', lookup_name n c'.(by_name))
  | Some e => check_file fs c e
  end.
