(* Activation model (package `activation`, property C19), bus side.

   Executable model of the bookkeeping in bus/activation.c together with the
   places that call into it:

     bus/dispatch.c    bus_dispatch: destination lookup; a message to a name
                       without owner is handed to bus_activation_activate_service
                       unless NO_AUTO_START is set (then NameHasNoOwner); the
                       error reply at `out:`
     bus/driver.c      bus_driver_handle_activate_service (StartServiceByName),
                       bus_driver_handle_hello (bus_registry_ensure for the
                       unique name)
     bus/activation.c  bus_activation_activate_service (limit, service lookup,
                       activation-time policy check, ALREADY_RUNNING, join an
                       existing pending activation or create one and spawn,
                       cancel_pending_activation on a command line that does
                       not parse), bus_activation_service_created,
                       bus_activation_send_pending_auto_activation_messages,
                       try_send_activation_failure / pending_activation_failed,
                       pending_activation_finished_cb (exit status 0 ignored;
                       fan-out to every pending activation with the same Exec),
                       pending_activation_timed_out
     bus/services.c    bus_registry_ensure (calls ..._service_created),
                       bus_registry_acquire_service (always ends with
                       ..._send_pending_auto_activation_messages), release,
                       and what a disconnect does to names (primary owner only:
                       every RequestName in this model carries DO_NOT_QUEUE)

   No proofs in this file.  Connections are numbered in the order of their
   Hello (the number stands for the unique name ":1.<c>"); well-known names
   and Exec command lines are numbered by the test universe.  A message is
   carried opaquely: (sender, serial) identify it, [class] is what the policy
   looks at.  [e_id] is a ghost field: the number of the ESend/EStart event
   that produced the entry; the implementation has no such field and nothing
   in the model branches on it. *)
From DV Require Import Lib.Base.
Local Open Scope N_scope.

(* ---------------------------------------------------------------- data *)
Inductive bname := Wk (k : N) | Uq (c : N).     (* well-known name number k / unique name of connection c *)

Definition bname_eqb (a b : bname) : bool :=
  match a, b with
  | Wk x, Wk y => x =? y
  | Uq x, Uq y => x =? y
  | _, _ => false
  end.

Inductive err := EServiceUnknown | ENameHasNoOwner | EAccessDenied | ELimitsExceeded | ESpawnInvalidArgs
               | EChildExited | EChildSignaled | EExecFailed | ETimedOut | ENotSupported.

(* what the babysitter reports about the started process *)
Inductive child_result := Exited (status : N) | Signaled | ExecFailed.

(* BusActivationEntry: Name, Exec (numbered: equal numbers = strcmp-equal
   strings) and whether _dbus_shell_parse_argv accepts the Exec line
   (see Activation/Helper.v: shell_parse) *)
Record service := mkService { sv_name : bname; sv_exec : N; sv_parse_ok : bool }.

Record cfg := mkCfg {
  services : list service;            (* BusActivation.entries at start-up: the .service files in the configured directories, in loading order *)
  max_pending : N;                    (* limits.max_pending_activations *)
  pol_activate : bname -> N -> bool;  (* bus_context_check_security_policy with no recipient: destination name, message class *)
  pol_deliver : list N -> N -> bool;  (* ... with the recipient: well-known names it owns, message class *)
  msg_reply : N -> bool;              (* the message is a method call without NO_REPLY_EXPECTED: the bus records a pending reply *)
  msg_fd : N -> bool;                 (* the message carries a unix file descriptor *)
  max_replies : N                     (* limits.max_replies_per_connection *)
}.

(* BusPendingActivationEntry *)
Record entry := mkEntry { e_id : N; e_conn : N; e_serial : N; e_auto : bool; e_class : N }.

(* BusPendingActivation; [p_sid] stands for the babysitter *)
Record pending := mkPending { p_name : bname; p_exec : N; p_sid : N; p_entries : list entry }.

Record state := mkState {
  st_conns : list N;             (* connections that completed Hello and are still connected *)
  st_next_conn : N;              (* connections->next_minor_id *)
  st_owners : list (N * N);      (* well-known name k -> primary owner *)
  st_pend : list pending;        (* BusActivation.pending_activations, in order of creation *)
  st_next_sid : N;               (* number of processes started so far *)
  st_next_id : N;                (* ghost: number of ESend/EStart events so far *)
  st_services : list service;    (* BusActivation.entries: what activation_find_entry finds, i.e. the .service files
                                    currently in the configured directories (the cache is refreshed on every lookup:
                                    check_service_file / update_service_cache, and rebuilt by bus_activation_reload) *)
  st_fdok : list N;              (* connections that negotiated unix-fd passing (dbus_connection_can_send_type) *)
  st_replies : list (N * N) }.   (* BusConnections.pending_replies: (caller, callee) of every method call passed on with a
                                    reply expected and not yet answered (the harness's services never answer) *)


(* bus_activation_new *)
Definition start (cf : cfg) : state := mkState [] 0 [] [] 0 0 cf.(services) [] [].

Inductive out :=
| OSpawn (sid : N) (n : bname) (exec : N)               (* _dbus_spawn_async_with_babysitter *)
| OKill (sid : N)                                       (* _dbus_babysitter_kill_child *)
| OFwd (rcpt id from serial : N)                        (* the message (from, serial) is passed on to rcpt *)
| OErr (rcpt id serial : N) (e : err)                   (* error reply to rcpt for its message serial *)
| OStarted (rcpt id serial code : N)                    (* StartServiceByName reply: 1 SUCCESS, 2 ALREADY_RUNNING *)
| ODrv (rcpt serial code : N)                           (* RequestName / ReleaseName reply *)
| OGone (id : N).                                       (* ghost: the entry is discarded without a message because its sender has
                                                           disconnected (bus_pending_activation_entry_free); not observable *)

Inductive event :=
| EConnect (fd : bool)                                   (* a new connection completes Hello; fd: it negotiated unix-fd passing *)
| ESend (c serial : N) (dest : bname) (noauto : bool) (cl : N)   (* c sends a message to a name *)
| EStart (c serial : N) (n : bname)                     (* c calls StartServiceByName(n) *)
| ERequest (c serial k : N)                             (* c calls RequestName(k, DO_NOT_QUEUE) *)
| ERelease (c serial k : N)                             (* c calls ReleaseName(k) *)
| EDisconnect (c : N)
| EChild (sid : N) (r : child_result)                   (* the babysitter of process sid reports *)
| ETimeout (sid : N)                                    (* the activation timeout of the pending activation with babysitter sid fires *)
| EReload (c serial : N)                                (* c calls ReloadConfig (SIGHUP does the same without the reply):
                                                           bus_context_reload_config -> bus_activation_reload *)
| ESetServices (svcs : list service).                   (* .service files are installed in / removed from the configured directories
                                                           (and the directory watch makes the bus reload) *)

(* ---------------------------------------------------------------- lookups *)
Definition connected (st : state) (c : N) : bool := existsb (N.eqb c) st.(st_conns).

Fixpoint assoc (k : N) (l : list (N * N)) : option N :=
  match l with
  | [] => None
  | (k', v) :: r => if k' =? k then Some v else assoc k r
  end.

(* bus_registry_lookup + primary owner *)
Definition owner_of (st : state) (n : bname) : option N :=
  match n with
  | Uq c => if connected st c then Some c else None
  | Wk k => assoc k st.(st_owners)
  end.

Definition names_of (owners : list (N * N)) (c : N) : list N :=
  map fst (filter (fun p => snd p =? c) owners).

Definition find_pending (n : bname) (l : list pending) : option pending :=
  find (fun p => bname_eqb p.(p_name) n) l.

Definition find_sid (sid : N) (l : list pending) : option pending :=
  find (fun p => p.(p_sid) =? sid) l.

(* activation_find_entry *)
Definition find_service (st : state) (n : bname) : option service :=
  find (fun s => bname_eqb s.(sv_name) n) st.(st_services).

(* BusActivation.n_pending_activations *)
Definition n_pending (l : list pending) : N :=
  fold_right (fun p a => nlen p.(p_entries) + a) 0 l.

Fixpoint add_entry (n : bname) (e : entry) (l : list pending) : list pending :=
  match l with
  | [] => []
  | p :: r => if bname_eqb p.(p_name) n
              then mkPending p.(p_name) p.(p_exec) p.(p_sid) (p.(p_entries) ++ [e]) :: r
              else p :: add_entry n e r
  end.

Definition remove_name (n : bname) (l : list pending) : list pending :=
  filter (fun p => negb (bname_eqb p.(p_name) n)) l.

Definition set_pend (st : state) (l : list pending) : state :=
  mkState st.(st_conns) st.(st_next_conn) st.(st_owners) l st.(st_next_sid) st.(st_next_id) st.(st_services) st.(st_fdok) st.(st_replies).

(* ---------------------------------------------------------------- the three fan-outs *)
(* bus_activation_service_created: a success reply for every StartServiceByName caller still connected *)
Definition created_outs (st : state) (p : pending) : list out :=
  flat_map (fun e => if connected st e.(e_conn) && negb e.(e_auto)
                     then [OStarted e.(e_conn) e.(e_id) e.(e_serial) 1] else []) p.(p_entries).

(* bus_dispatch_matches for the addressed recipient o, as far as it can refuse: first the unix-fd capability of the
   recipient (NotSupported), then bus_context_check_security_policy: send / receive rules (AccessDenied), then
   bus_connections_expect_reply: a method call that expects a reply takes one of the caller's
   max_replies_per_connection slots (LimitsExceeded when none is left).
   [replies] = pending replies so far; returns the pending replies afterwards and what is sent *)
Definition count_replies (c : N) (l : list (N * N)) : N := nlen (filter (fun p => fst p =? c) l).

Definition deliver (cf : cfg) (names : list N) (fdok : bool) (replies : list (N * N))
                   (o id from serial cl : N) : list (N * N) * out :=
  if cf.(msg_fd) cl && negb fdok then (replies, OErr from id serial ENotSupported) else
  if negb (cf.(pol_deliver) names cl) then (replies, OErr from id serial EAccessDenied) else
  if cf.(msg_reply) cl && (cf.(max_replies) <=? count_replies from replies) then (replies, OErr from id serial ELimitsExceeded) else
  ((if cf.(msg_reply) cl then (from, o) :: replies else replies), OFwd o id from serial).

(* bus_activation_send_pending_auto_activation_messages: resume bus_dispatch_matches for every held message, in list
   order; a refusal is answered to the sender of that message and the loop carries on *)
Fixpoint replay (cf : cfg) (st : state) (names : list N) (fdok : bool) (o : N) (replies : list (N * N)) (es : list entry)
  : list (N * N) * list out :=
  match es with
  | [] => (replies, [])
  | e :: r =>
      if e.(e_auto) && connected st e.(e_conn) then
        let '(replies1, x) := deliver cf names fdok replies o e.(e_id) e.(e_conn) e.(e_serial) e.(e_class) in
        let '(replies2, xs) := replay cf st names fdok o replies1 r in (replies2, x :: xs)
      else if connected st e.(e_conn) then replay cf st names fdok o replies r
      else let '(replies2, xs) := replay cf st names fdok o replies r in (replies2, OGone e.(e_id) :: xs)
  end.

Definition fd_capable (st : state) (c : N) : bool := existsb (N.eqb c) st.(st_fdok).

Definition replay_outs (cf : cfg) (st : state) (o : N) (p : pending) : list (N * N) * list out :=
  replay cf st (names_of st.(st_owners) o) (fd_capable st o) o st.(st_replies) p.(p_entries).

Definition set_replies (st : state) (l : list (N * N)) : state :=
  mkState st.(st_conns) st.(st_next_conn) st.(st_owners) st.(st_pend) st.(st_next_sid) st.(st_next_id) st.(st_services) st.(st_fdok) l.

(* try_send_activation_failure *)
Definition fail_outs (st : state) (er : err) (p : pending) : list out :=
  flat_map (fun e => if connected st e.(e_conn) then [OErr e.(e_conn) e.(e_id) e.(e_serial) er] else [OGone e.(e_id)]) p.(p_entries).

(* ---------------------------------------------------------------- bus_activation_activate_service *)
Definition activate (cf : cfg) (st : state) (c id serial : N) (n : bname) (auto : bool) (cl : N) : state * list out :=
  if cf.(max_pending) <=? n_pending st.(st_pend) then (st, [OErr c id serial ELimitsExceeded]) else
  match find_service st n with
  | None => (st, [OErr c id serial EServiceUnknown])
  | Some sv =>
    if auto && negb (cf.(pol_activate) n cl) then (st, [OErr c id serial EAccessDenied]) else
    if negb auto && (match owner_of st n with Some _ => true | None => false end) then (st, [OStarted c id serial 2]) else
    let e := mkEntry id c serial auto cl in
    match find_pending n st.(st_pend) with
    | Some _ => (set_pend st (add_entry n e st.(st_pend)), [])            (* was_pending_activation *)
    | None =>
      if sv.(sv_parse_ok) then
        let sid := st.(st_next_sid) in
        (mkState st.(st_conns) st.(st_next_conn) st.(st_owners)
                 (st.(st_pend) ++ [mkPending n sv.(sv_exec) sid [e]]) (sid + 1) st.(st_next_id) st.(st_services) st.(st_fdok) st.(st_replies),
         [OSpawn sid n sv.(sv_exec)])
      else (st, [OErr c id serial ESpawnInvalidArgs])                     (* cancel_pending_activation *)
    end
  end.

(* bus_dispatch for a message with a destination other than the bus driver *)
Definition send (cf : cfg) (st : state) (c id serial : N) (dest : bname) (noauto : bool) (cl : N) : state * list out :=
  match owner_of st dest with
  | Some o => let '(replies, x) := deliver cf (names_of st.(st_owners) o) (fd_capable st o) st.(st_replies) o id c serial cl in
              (set_replies st replies, [x])
  | None => if noauto then (st, [OErr c id serial ENameHasNoOwner])
            else activate cf st c id serial dest true cl
  end.

(* tail of bus_registry_acquire_service: the held messages of name n go to the primary owner o, the pending activation is dropped *)
Definition resolve (cf : cfg) (st : state) (n : bname) (o : N) : state * list out :=
  match find_pending n st.(st_pend) with
  | None => (st, [])
  | Some p => let '(replies, outs) := replay_outs cf st o p in
              (set_replies (set_pend st (remove_name n st.(st_pend))) replies, outs)
  end.

Definition created (st : state) (n : bname) : list out :=
  match find_pending n st.(st_pend) with
  | None => []
  | Some p => created_outs st p
  end.

Definition child_error (r : child_result) : option err :=
  match r with
  | Exited 0 => None
  | Exited _ => Some EChildExited
  | Signaled => Some EChildSignaled
  | ExecFailed => Some EExecFailed
  end.

Definition bump_id (st : state) : state :=
  mkState st.(st_conns) st.(st_next_conn) st.(st_owners) st.(st_pend) st.(st_next_sid) (st.(st_next_id) + 1) st.(st_services) st.(st_fdok) st.(st_replies).

Definition step (cf : cfg) (st : state) (e : event) : state * list out :=
  match e with
  | EConnect fd =>
      let c := st.(st_next_conn) in
      let st1 := mkState (st.(st_conns) ++ [c]) (c + 1) st.(st_owners) st.(st_pend) st.(st_next_sid) st.(st_next_id) st.(st_services)
                         (if fd then c :: st.(st_fdok) else st.(st_fdok)) st.(st_replies) in
      (* bus_driver_handle_hello: bus_registry_ensure -> bus_activation_service_created for the unique name;
         bus_registry_acquire_service is not involved, so nothing is replayed and nothing is removed *)
      (st1, created st1 (Uq c))
  | ESend c serial dest noauto cl =>
      if connected st c then send cf (bump_id st) c st.(st_next_id) serial dest noauto cl
      else (bump_id st, [OGone st.(st_next_id)])       (* cannot happen on a bus; keeps the numbering of calls syntactic *)
  | EStart c serial n =>
      if connected st c then activate cf (bump_id st) c st.(st_next_id) serial n false 0
      else (bump_id st, [OGone st.(st_next_id)])
  | ERequest c serial k =>
      if connected st c then
        match assoc k st.(st_owners) with
        | Some o =>
            let '(st1, outs) := resolve cf st (Wk k) o in
            (st1, outs ++ [ODrv c serial (if o =? c then 4 else 3)])         (* ALREADY_OWNER / EXISTS *)
        | None =>
            let cr := created st (Wk k) in                                    (* bus_registry_ensure *)
            let st1 := mkState st.(st_conns) st.(st_next_conn) ((k, c) :: st.(st_owners)) st.(st_pend) st.(st_next_sid) st.(st_next_id) st.(st_services) st.(st_fdok) st.(st_replies) in
            let '(st2, outs) := resolve cf st1 (Wk k) c in
            (st2, cr ++ outs ++ [ODrv c serial 1])                            (* PRIMARY_OWNER *)
        end
      else (st, [])
  | ERelease c serial k =>
      if connected st c then
        match assoc k st.(st_owners) with
        | Some o =>
            if o =? c then
              (mkState st.(st_conns) st.(st_next_conn) (filter (fun p => negb (fst p =? k)) st.(st_owners)) st.(st_pend) st.(st_next_sid) st.(st_next_id) st.(st_services) st.(st_fdok) st.(st_replies),
               [ODrv c serial 1])                                             (* RELEASED *)
            else (st, [ODrv c serial 3])                                      (* NOT_OWNER *)
        | None => (st, [ODrv c serial 2])                                     (* NON_EXISTENT *)
        end
      else (st, [])
  | EDisconnect c =>
      (mkState (filter (fun x => negb (x =? c)) st.(st_conns)) st.(st_next_conn)
               (filter (fun p => negb (snd p =? c)) st.(st_owners)) st.(st_pend) st.(st_next_sid) st.(st_next_id) st.(st_services)
               st.(st_fdok)
               (* bus_connection_drop_pending_replies: calls of c are forgotten; callers waiting for c get NoReply (C09) *)
               (filter (fun p => negb ((fst p =? c) || (snd p =? c))) st.(st_replies)), [])
  | EChild sid r =>
      match find_sid sid st.(st_pend), child_error r with
      | Some p, Some er =>
          (* every other pending activation with the same Exec first, then this one *)
          let same := filter (fun q => q.(p_exec) =? p.(p_exec)) st.(st_pend) in
          let others := filter (fun q => negb (q.(p_sid) =? sid)) same in
          (set_pend st (filter (fun q => negb (q.(p_exec) =? p.(p_exec))) st.(st_pend)),
           flat_map (fail_outs st er) (others ++ [p]))
      | _, _ => (st, [])
      end
  | ETimeout sid =>
      match find_sid sid st.(st_pend) with
      | Some p => (set_pend st (filter (fun q => negb (q.(p_sid) =? sid)) st.(st_pend)), OKill sid :: fail_outs st ETimedOut p)
      | None => (st, [])
      end
  | EReload c serial =>
      (* bus_activation_reload rebuilds `entries` and `directories` from the same directories; `pending_activations`
         is created once in bus_activation_new ("we don't want to lose pending activations on reload") *)
      if connected st c then (st, [ODrv c serial 0]) else (st, [])
  | ESetServices svcs =>
      (mkState st.(st_conns) st.(st_next_conn) st.(st_owners) st.(st_pend) st.(st_next_sid) st.(st_next_id) svcs st.(st_fdok) st.(st_replies), [])
  end.

Fixpoint run (cf : cfg) (st : state) (h : list event) : state * list (list out) :=
  match h with
  | [] => (st, [])
  | e :: r => let '(st1, o) := step cf st e in
              let '(st2, os) := run cf st1 r in (st2, o :: os)
  end.

(* events that the harness never produces: actor not connected *)
Definition wf_event (st : state) (e : event) : bool :=
  match e with
  | EConnect _ | EChild _ _ | ETimeout _ | ESetServices _ => true
  | ESend c _ _ _ _ | EStart c _ _ | ERequest c _ _ | ERelease c _ _ | EDisconnect c | EReload c _ => connected st c
  end.

(* the sids of the pending activations, oldest first (the driver's "all timeouts fire" tick) *)
Definition pending_sids (st : state) : list N := map p_sid st.(st_pend).

(* ---------------------------------------------------------------- the policy text used by the correspondence run
   class 0: nothing applies
   class 1: <deny send_member="SendDenied"/>                  refused whenever the sender's policy is consulted
   class 2: <deny receive_member="RecvDenied"/>               refused only once there is a recipient
   class 3: <deny send_destination="t.N9" send_member="ViaN9"/>
            without a recipient the rule compares the message's DESTINATION with t.N9;
            with a recipient it asks whether the recipient owns t.N9 *)
(* a message class as the correspondence run writes it: policy class + 4 * (carries a unix fd) + 8 * (reply expected) *)
Definition pclass (cl : N) : N := cl mod 4.
Definition std_activate (n : bname) (cl : N) : bool :=
  negb (pclass cl =? 1) && negb ((pclass cl =? 3) && bname_eqb n (Wk 9)).
Definition std_deliver (names : list N) (cl : N) : bool :=
  negb (pclass cl =? 1) && negb (pclass cl =? 2) && negb ((pclass cl =? 3) && existsb (N.eqb 9) names).
Definition std_reply (cl : N) : bool := N.testbit cl 3.
Definition std_fd (cl : N) : bool := N.testbit cl 2.
Definition std_cfg2 (svs : list service) (maxp maxrep : N) : cfg := mkCfg svs maxp std_activate std_deliver std_reply std_fd maxrep.
Definition std_cfg (svs : list service) (maxp : N) : cfg := std_cfg2 svs maxp 1000.
