(* Activation model (package `activation`, property C19), helper side.

   Executable model of the decision chain of the setuid activation helper:

     bus/activation-helper.c   run_launch_helper: check_bus_name, check_dbus_user,
                               launch_bus_name = desktop_file_for_name (first
                               configured directory in which <name>.service
                               loads), get_parameters_for_service =
                               check_service_name (Name must be strcmp-equal to
                               the requested name), Exec, User;
                               exec_for_correct_user = switch_user,
                               _dbus_shell_parse_argv, execv
     bus/activation-helper-bin.c  convert_error_to_exit_code
     bus/desktop-file.c        bus_desktop_file_load (size limit, UTF-8,
                               parse_section_start, is_blank_line,
                               parse_comment_or_blank, parse_key_value,
                               unescape_string), bus_desktop_file_get_string
                               (first section of that name, first line with
                               that key)
     dbus/dbus-string.c        _dbus_string_find_eol
     dbus/dbus-shell.c         tokenize_command_line, _dbus_shell_unquote
                               (with unquote_string_inplace),
                               _dbus_shell_parse_argv

   No proofs in this file.  Strings are byte lists; C strings are byte lists
   that are cut at the first 0 where the C code would stop there. *)
From DV Require Import Lib.Base Gen.Tables Gen.ActivationTables Wire.Utf8 Wire.Names.
Local Open Scope N_scope.

(* ---------------------------------------------------------------- desktop-file.c *)
Record dline := mkLine { l_key : bytes; l_val : bytes }.
Record dsection := mkSection { s_name : bytes; s_lines : list dline }.
Definition desktop := list dsection.                 (* sections in file order, lines in file order *)

Inductive load_res := LOk (d : desktop) | LErr | LFuel.

(* _dbus_string_find_eol: the text up to the first "\r\n", "\r" or "\n", and what follows that line end *)
Fixpoint take_line (s : bytes) : bytes * bytes :=
  match s with
  | [] => ([], [])
  | c :: r =>
      if c =? 13 then (match r with
                       | d :: r' => if d =? 10 then ([], r') else ([], r)
                       | [] => ([], [])
                       end)
      else if c =? 10 then ([], r)
      else let '(l, r') := take_line r in (c :: l, r')
  end.

(* is_blank_line: scans to the next '\n' or NUL (not to the next line end!) *)
Fixpoint is_blank (s : bytes) : bool :=
  match s with
  | [] => true
  | c :: r => if (c =? 0) || (c =? 10) then true
              else if (c =? 32) || (c =? 9) || (c =? 13) || (c =? 12) then is_blank r
              else false
  end.

(* valid[c] & VALID_KEY_CHAR: the table is regenerated from bus/desktop-file.c (tools/gen/activation.py); [A-Za-z0-9-] *)
Definition key_char (c : N) : bool := tbl tbl_desktop_key_char c.

(* is_valid_section_name *)
Definition section_char (c : N) : bool :=
  negb ((c <=? 31) || (127 <=? c) || (c =? 91) || (c =? 93)).

(* unescape_string *)
Fixpoint unescape (s : bytes) : option bytes :=
  match s with
  | [] => Some []
  | c :: r =>
      if c =? 0 then None
      else if c =? 92 then
        match r with
        | [] => None
        | d :: r' =>
            let k := if d =? 115 then Some 32          (* \s *)
                     else if d =? 116 then Some 9      (* \t *)
                     else if d =? 110 then Some 10     (* \n *)
                     else if d =? 114 then Some 13     (* \r *)
                     else if d =? 92 then Some 92      (* \\ *)
                     else None in
            match k, unescape r' with
            | Some x, Some t => Some (x :: t)
            | _, _ => None
            end
        end
      else match unescape r with Some t => Some (c :: t) | None => None end
  end.

Fixpoint span (f : N -> bool) (s : bytes) : bytes * bytes :=
  match s with
  | [] => ([], [])
  | c :: r => if f c then let '(a, b) := span f r in (c :: a, b) else ([], s)
  end.

Definition skip_spaces (s : bytes) : bytes := snd (span (fun c => c =? 32) s).

(* parse_section_start on one line: Some name / None = syntax error *)
Definition parse_section (line : bytes) : option bytes :=
  if nlen line <=? 2 then None else
  match line with
  | [] => None
  | _ :: r =>
      if last r 0 =? 93 then
        let name := removelast r in
        if forallb section_char name then Some name else None
      else None
  end.

Inductive kv_res := KvLine (l : dline) | KvSkip | KvErr.

(* parse_key_value on one line *)
Definition parse_kv (line : bytes) : kv_res :=
  let '(key, r) := span key_char line in
  match key with
  | [] => KvErr                                        (* Empty key name *)
  | _ =>
      match r with
      | c :: _ => if c =? 91 then KvSkip else          (* Key[locale]: ignored *)
          match skip_spaces r with
          | [] => KvErr                                (* No '=' in key/value pair *)
          | d :: r2 => if d =? 61 then
                         match unescape (skip_spaces r2) with
                         | Some v => KvLine (mkLine key v)
                         | None => KvErr
                         end
                       else KvErr                      (* Invalid characters in key name *)
          end
      | [] => KvErr                                    (* No '=' in key/value pair *)
      end
  end.

Definition close_section (cur : option (bytes * list dline)) (done : list dsection) : list dsection :=
  match cur with
  | Some (n, ls) => mkSection n (rev ls) :: done
  | None => done
  end.

(* the while loop of bus_desktop_file_load; [cur] = the open section with its lines reversed, [done] = closed sections reversed *)
Fixpoint dloop (fuel : nat) (s : bytes) (cur : option (bytes * list dline)) (done : list dsection) : load_res :=
  match fuel with
  | O => LFuel
  | S fuel' =>
      match s with
      | [] => LOk (rev (close_section cur done))
      | c :: _ =>
          let '(line, rest) := take_line s in
          if c =? 91 then
            match parse_section line with
            | Some n => dloop fuel' rest (Some (n, [])) (close_section cur done)
            | None => LErr
            end
          else if is_blank s || (c =? 35) then dloop fuel' rest cur done
          else match cur with
               | None => LErr                          (* key=value before [Section] *)
               | Some (n, ls) =>
                   match parse_kv line with
                   | KvLine l => dloop fuel' rest (Some (n, l :: ls)) done
                   | KvSkip => dloop fuel' rest cur done
                   | KvErr => LErr
                   end
               end
      end
  end.

Definition MAX_DESKTOP_SIZE : N := DESKTOP_MAX_SIZE.   (* generated: _DBUS_ONE_KILOBYTE * 128 *)

(* bus_desktop_file_load on the contents of an existing, readable file *)
Definition desktop_load (content : bytes) : load_res :=
  if MAX_DESKTOP_SIZE <? nlen content then LErr else
  match validate_utf8 content with
  | Some true => dloop (S (length content)) content None []
  | Some false => LErr
  | None => LFuel
  end.

(* bus_desktop_file_get_string: lookup_section + lookup_line, first match each *)
Definition get_string (d : desktop) (section key : bytes) : option bytes :=
  match find (fun s => bytes_eqb s.(s_name) section) d with
  | None => None
  | Some s => match find (fun l => bytes_eqb l.(l_key) key) s.(s_lines) with
              | None => None
              | Some l => Some l.(l_val)
              end
  end.

Definition SECTION : bytes := SERVICE_SECTION.   (* generated from bus/desktop-file.h: "D-BUS Service" *)
Definition KEY_NAME : bytes := SERVICE_NAME.     (* "Name" *)
Definition KEY_EXEC : bytes := SERVICE_EXEC.     (* "Exec" *)
Definition KEY_USER : bytes := SERVICE_USER.     (* "User" *)
Definition DOT_SERVICE : bytes := [46;115;101;114;118;105;99;101].              (* ".service" *)

(* ---------------------------------------------------------------- dbus-shell.c *)
(* current_quote of tokenize_command_line; '#' is split in two: just seen / skipping the comment *)
Inductive qmode := QNone | QBackslash | QHashPending | QComment | QQuote (q : N).

(* tokenize_command_line; [cur] = current_token reversed, [acc] = tokens reversed; None = "Unclosed quotes in command line".
   The final delimit_token is unconditional, so the last token may be empty. *)
Fixpoint tokenize (p : bytes) (m : qmode) (quoted : bool) (cur : bytes) (acc : list bytes) : option (list bytes) :=
  match p with
  | [] => match m with
          | QNone | QComment => Some (rev (rev cur :: acc))
          | _ => None
          end
  | c :: r =>
      let quoted' := if c =? 92 then negb quoted else false in
      match m with
      | QBackslash =>
          if c =? 10 then tokenize r QNone quoted' cur acc
          else tokenize r QNone quoted' (c :: 92 :: cur) acc
      | QHashPending | QComment =>
          if c =? 10 then tokenize r QNone false cur acc
          else tokenize r QComment quoted cur acc
      | QQuote q =>
          let m' := if (c =? q) && negb ((q =? 34) && quoted) then QNone else m in
          tokenize r m' quoted' (c :: cur) acc
      | QNone =>
          if c =? 10 then tokenize r QNone quoted' [] (rev cur :: acc)
          else if (c =? 32) || (c =? 9) then
            match cur with
            | [] => tokenize r QNone quoted' cur acc
            | _ => tokenize r QNone quoted' [] (rev cur :: acc)
            end
          else if (c =? 39) || (c =? 34) then tokenize r (QQuote c) quoted' (c :: cur) acc
          else if c =? 35 then tokenize r QHashPending quoted' cur acc
          else if c =? 92 then tokenize r QBackslash quoted' cur acc
          else tokenize r QNone quoted' (c :: cur) acc
      end
  end.

(* _dbus_shell_unquote with unquote_string_inplace, as one pass; None = NULL (reported as out of memory by the caller) *)
Inductive umode := UNone | UEsc | UDq | UDqEsc | USq.

Definition dq_escapable (c : N) : bool := (c =? 34) || (c =? 92) || (c =? 96) || (c =? 36) || (c =? 10).

Fixpoint unquote (s : bytes) (m : umode) (acc : bytes) : option bytes :=
  match s with
  | [] => match m with
          | UNone | UEsc => Some (rev acc)
          | _ => None
          end
  | c :: r =>
      match m with
      | UNone => if c =? 92 then unquote r UEsc acc
                 else if c =? 34 then unquote r UDq acc
                 else if c =? 39 then unquote r USq acc
                 else unquote r UNone (c :: acc)
      | UEsc => if c =? 10 then unquote r UNone acc else unquote r UNone (c :: acc)
      | UDq => if c =? 34 then unquote r UNone acc
               else if c =? 92 then unquote r UDqEsc acc
               else unquote r UDq (c :: acc)
      | UDqEsc => if dq_escapable c then unquote r UDq (c :: acc)
                  else unquote r UDq (c :: 92 :: acc)
      | USq => if c =? 39 then unquote r UNone acc else unquote r USq (c :: acc)
      end
  end.

Fixpoint map_opt {A B} (f : A -> option B) (l : list A) : option (list B) :=
  match l with
  | [] => Some []
  | x :: r => match f x, map_opt f r with
              | Some y, Some t => Some (y :: t)
              | _, _ => None
              end
  end.

(* a C string: everything before the first 0 *)
Fixpoint cstr (s : bytes) : bytes :=
  match s with
  | [] => []
  | c :: r => if c =? 0 then [] else c :: cstr r
  end.

Inductive sh_res := ShOk (argv : list bytes) | ShErr | ShNoMem.

(* _dbus_shell_parse_argv *)
Definition shell_parse (command_line : bytes) : sh_res :=
  match tokenize (cstr command_line) QNone false [] [] with
  | None => ShErr
  | Some toks => match map_opt (fun t => unquote t UNone []) toks with
                 | Some argv => ShOk argv
                 | None => ShNoMem
                 end
  end.

(* ---------------------------------------------------------------- activation-helper.c *)
Definition dir := list (bytes * bytes).        (* a configured service directory: file name -> contents of the readable regular files in it *)

Fixpoint lookup_file (fname : bytes) (d : dir) : option bytes :=
  match d with
  | [] => None
  | (n, c) :: r => if bytes_eqb n fname then Some c else lookup_file fname r
  end.

Record henv := mkHenv {
  h_dirs : list dir;               (* <servicedir>s of the configuration, in order, duplicates removed *)
  h_perm_ok : bool;                (* check_permissions: the configured <user> exists, is the caller, and euid is 0 *)
  h_user_ok : bytes -> bool }.     (* switch_user succeeds for this User *)

(* BUS_SPAWN_EXIT_CODE_* (generated from bus/activation-exit-codes.h) *)
Definition EXIT_GENERIC : N := EXIT_CODE_GENERIC_FAILURE.
Definition EXIT_NO_MEMORY : N := EXIT_CODE_NO_MEMORY.
Definition EXIT_SETUP_FAILED : N := EXIT_CODE_SETUP_FAILED.
Definition EXIT_NAME_INVALID : N := EXIT_CODE_NAME_INVALID.
Definition EXIT_SERVICE_NOT_FOUND : N := EXIT_CODE_SERVICE_NOT_FOUND.
Definition EXIT_PERMISSIONS_INVALID : N := EXIT_CODE_PERMISSIONS_INVALID.
Definition EXIT_FILE_INVALID : N := EXIT_CODE_FILE_INVALID.
Definition EXIT_INVALID_ARGS : N := EXIT_CODE_INVALID_ARGS.

Inductive hres :=
| HExit (code : N)                          (* the helper exits with this status without calling execv *)
| HExec (argv : list bytes) (user : bytes)  (* execv (argv[0], argv) as [user] *)
| HFault.                                   (* out of fuel in the model; excluded by the theorems *)

Inductive found_res := Found (d : desktop) | NotFound | FFault.

(* desktop_file_for_name: the first directory in which the file loads *)
Fixpoint find_desktop (fname : bytes) (dirs : list dir) : found_res :=
  match dirs with
  | [] => NotFound
  | d :: r =>
      match lookup_file fname d with
      | None => find_desktop fname r
      | Some content =>
          match desktop_load content with
          | LOk df => Found df
          | LErr => find_desktop fname r
          | LFuel => FFault
          end
      end
  end.

(* run_launch_helper, then convert_error_to_exit_code *)
Definition helper (env : henv) (name : bytes) : hres :=
  if negb (validate_bus_name name) then HExit EXIT_NAME_INVALID else        (* check_bus_name *)
  if negb env.(h_perm_ok) then HExit EXIT_PERMISSIONS_INVALID else          (* check_dbus_user *)
  match find_desktop (name ++ DOT_SERVICE) env.(h_dirs) with               (* desktop_file_for_name *)
  | FFault => HFault
  | NotFound => HExit EXIT_SERVICE_NOT_FOUND
  | Found df =>
      match get_string df SECTION KEY_NAME with                             (* check_service_name *)
      | None => HExit EXIT_GENERIC
      | Some n =>
          if negb (bytes_eqb n name) then HExit EXIT_FILE_INVALID else
          match get_string df SECTION KEY_EXEC with
          | None => HExit EXIT_GENERIC
          | Some ex =>
              match get_string df SECTION KEY_USER with
              | None => HExit EXIT_GENERIC
              | Some user =>
                  if negb (env.(h_user_ok) user) then HExit EXIT_SETUP_FAILED else   (* switch_user *)
                  match shell_parse ex with
                  | ShErr => HExit EXIT_INVALID_ARGS
                  | ShNoMem => HExit EXIT_NO_MEMORY
                  | ShOk argv => HExec argv user
                  end
              end
          end
      end
  end.
