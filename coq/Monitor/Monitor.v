(* Monitor model (package `monitor`, property C18).

   Executable model of the message bus as far as monitors are concerned
   (dbus 1.13.18):

     bus/driver.c      bus_driver_handle_message (privilege, signature)
                       + bus_driver_handle_become_monitor (flags,
                       rule parsing loop)                         -> become_monitor_call, parse_all
                       bus_driver_handle_become_monitor (ack)    -> become_monitor
                       bus_driver_handle_hello / send_welcome    -> connect
                       bus_driver_handle_acquire_service,
                       bus_driver_handle_release_service         -> request_name, release_name
                       bus_driver_handle_add_match               -> add_match
                       bus_driver_send_service_owner_changed,
                       _service_lost, _service_acquired          -> noc_item, lost_item, acquired_item
                       bus_driver_handle_message (unknown member)-> driver_generic
     bus/connection.c  bus_connection_be_monitor                 -> become_monitor (second half)
                       bus_transaction_capture                   -> capture
                       bus_transaction_capture_error_reply       -> refusal_item
                       bus_transaction_send_from_driver          -> from_driver
                       bus_transaction_send_error_reply          -> error_reply
                       bus_connection_disconnected               -> disconnect
                       bus_connection_drop_pending_replies,
                       bus_pending_reply_expired                 -> drop_pending, noreply_items
                       bus_connections_expect_reply/_check_reply -> expect_reply, check_reply
     bus/dispatch.c    bus_dispatch                              -> step (ESend), dispatch, no_owner, "monitor sends" test
                       bus_dispatch_matches, send_one_message    -> deliver, fanout
     bus/activation.c  bus_activation_activate_service (auto
                       activation: service file lookup, send
                       policy, hold), bus_activation_send_pending_
                       auto_activation_messages                  -> no_owner, release_held, resume_all
     bus/signals.c     match_rule_matches (keys type, sender,
                       destination, interface, member, eavesdrop)-> fmatch
                       bus_matchmaker_get_recipients             -> get_recipients
                       bus_matchmaker_disconnected (on the
                       monitor matchmaker)                       -> mm_disconnected
     bus/services.c    bus_registry_acquire_service (flags 0 and
                       DO_NOT_QUEUE), bus_service_remove_owner   -> request_name, remove_owner
     bus/bus.c         bus_context_check_security_policy under the
                       generated policy (everything allowed except
                       send_interface=t.DenySend and
                       receive_interface=t.DenyRecv, which also
                       hit messages without INTERFACE)           -> deny_send, deny_recv, check_policy
     dbus/dbus-connection.c  _dbus_connection_peer_filter_unlocked_no_update
                       and the UnknownMethod default of
                       dbus_connection_dispatch, as they act on
                       the bus's own side of a client connection -> local_reply

   No proofs in this file.

   Representation.  Connections are numbered by the bus in order of arrival
   (the number stands for the unique name).  Well-known names, interfaces,
   members and error names are numbered by the test universe (constants below).
   The registry is ONE list of (name, connection) links in the order the links
   were made: the owner queue of a name is the sub-list with that name (primary
   owner first: without REPLACE_EXISTING links are only appended), and
   BusConnectionData.services_owned of a connection is the sub-list with that
   connection (bus_owner_new appends to both lists at the same moment).

   Every message the bus handles becomes one [item]: who sent it, whom it is
   addressed to, the message as it leaves the bus (SENDER overwritten), the
   monitors that get a copy ([i_cap], from bus_transaction_capture), the
   addressed recipient if it is queued for it ([i_direct]) and the ordinary
   match-rule recipients ([i_match]).  [i_own] is the registry at the moment
   of the capture (what sender= / destination= keys of filters are evaluated
   against).  Per-connection output is the flattening [outs]. *)
From DV Require Import Lib.Base.
Local Open Scope N_scope.

(* ---------------------------------------------------------------- names and messages *)
Definition cid := N.

Inductive name :=
| NDriver                 (* org.freedesktop.DBus *)
| NUniq (c : cid)         (* unique name of connection c *)
| NWk (n : N).            (* well-known name number n *)

Definition name_eqb (a b : name) : bool :=
  match a, b with
  | NDriver, NDriver => true
  | NUniq x, NUniq y => x =? y
  | NWk x, NWk y => x =? y
  | _, _ => false
  end.

(* the four message types the specification defines (the only ones a match rule can name) ... *)
Inductive ktype := KCall | KReturn | KError | KSignal.
(* ... and the type byte of a message, which may be any other non-zero value (DBUS_NUM_MESSAGE_TYPES and up) *)
Inductive mtype := TKnown (k : ktype) | TOther (n : N).
Notation TCall := (TKnown KCall).
Notation TReturn := (TKnown KReturn).
Notation TError := (TKnown KError).
Notation TSignal := (TKnown KSignal).
Definition ktype_eqb (a b : ktype) : bool :=
  match a, b with
  | KCall, KCall | KReturn, KReturn | KError, KError | KSignal, KSignal => true
  | _, _ => false
  end.
Definition mtype_eqb (a b : mtype) : bool :=
  match a, b with
  | TKnown x, TKnown y => ktype_eqb x y
  | TOther x, TOther y => x =? y
  | _, _ => false
  end.

(* the SENDER header field as a recipient reads it *)
Inductive sname :=
| SNone                   (* no SENDER field (answers made by libdbus on the bus's side of the socket) *)
| SDriver                 (* org.freedesktop.DBus *)
| SConn (c : cid).        (* unique name of c *)

Inductive arg := AName (n : name) | AEmpty | ANum (k : N).

(* interface / member / error-name codes *)
Definition I_NONE : N := 0.
Definition I_DBUS : N := 1.          (* org.freedesktop.DBus *)
Definition I_PEER : N := 2.          (* org.freedesktop.DBus.Peer *)
Definition I_MONITORING : N := 3.    (* org.freedesktop.DBus.Monitoring *)
Definition I_DENY_SEND : N := 4.     (* t.DenySend: <deny send_interface=.../> *)
Definition I_DENY_RECV : N := 5.     (* t.DenyRecv: <deny receive_interface=.../> *)
Definition M_NONE : N := 0.
Definition M_HELLO : N := 1.
Definition M_REQUEST_NAME : N := 2.
Definition M_RELEASE_NAME : N := 3.
Definition M_ADD_MATCH : N := 4.
Definition M_BECOME_MONITOR : N := 5.
Definition M_GET_ID : N := 6.
Definition M_NAME_OWNER_CHANGED : N := 7.
Definition M_NAME_LOST : N := 8.
Definition M_NAME_ACQUIRED : N := 9.
Definition M_PING : N := 10.
Definition M_GET_MACHINE_ID : N := 11.
Definition M_GENERIC : N := 20.      (* members >= 20 are nobody's built-in methods *)
Definition E_NONE : N := 0.
Definition E_ACCESS_DENIED : N := 1.
Definition E_SERVICE_UNKNOWN : N := 2.
Definition E_NAME_HAS_NO_OWNER : N := 3.
Definition E_NO_REPLY : N := 4.
Definition E_UNKNOWN_METHOD : N := 5.
Definition E_UNKNOWN_INTERFACE : N := 6.
Definition E_INVALID_ARGS : N := 7.
Definition E_MATCH_RULE_INVALID : N := 8.

Record bmsg := mkB {
  b_type : mtype;
  b_sender : sname;
  b_dest : option name;        (* DESTINATION *)
  b_iface : N;                 (* 0 = field absent *)
  b_member : N;                (* 0 = field absent *)
  b_serial : N;                (* client messages only; 0 on bus-made messages (not compared) *)
  b_rserial : N;               (* REPLY_SERIAL, 0 = absent *)
  b_err : N;                   (* ERROR_NAME code, 0 = absent *)
  b_noreply : bool;            (* NO_REPLY_EXPECTED *)
  b_noauto : bool;             (* NO_AUTO_START *)
  b_args : list arg }.         (* body of bus-made messages; [] for client messages (opaque) *)

Definition stamp (c : cid) (m : bmsg) : bmsg :=      (* dbus_message_set_sender in bus_dispatch *)
  mkB (b_type m) (SConn c) (b_dest m) (b_iface m) (b_member m) (b_serial m) (b_rserial m) (b_err m)
      (b_noreply m) (b_noauto m) (b_args m).

(* ---------------------------------------------------------------- filters (match rules) *)
Record flt := mkFilter {
  f_type : option ktype;
  f_sender : option name;
  f_dest : option name;
  f_iface : option N;
  f_member : option N }.

Definition empty_filter : flt := mkFilter None None None None None.     (* the rule "" *)

(* ---------------------------------------------------------------- state *)
Definition registry := list (name * cid).

(* BusPendingReply: will_get_reply, will_send_reply (NULL once the callee left), reply_serial *)
Record pend := mkPend { p_get : cid; p_send : option cid; p_serial : N }.

Record state := mkState {
  st_conns : list cid;                  (* completed (active) connections, monitors included *)
  st_next : N;                          (* next unique-name number *)
  st_own : registry;
  st_rules : list (cid * flt);       (* ordinary matchmaker, oldest first *)
  st_mrules : list (cid * flt);      (* connections->monitor_matchmaker *)
  st_mons : list cid;                   (* connections->monitors *)
  st_pend : list pend;                  (* connections->pending_replies, first link first *)
  st_unpriv : list cid;                 (* connections whose uid is neither root nor the bus's own *)
  st_held : list (name * cid * bmsg) }. (* activation->pending_activations: (service name, sender, message) entries, oldest first *)

Definition init : state := mkState [] 0 [] [] [] [] [] [] [].

(* a state that differs from [S] in the first seven fields only *)
Notation upd S a b c d e f g := (mkState a b c d e f g (st_unpriv S) (st_held S)).

Definition memN (c : cid) (l : list cid) : bool := existsb (N.eqb c) l.
Definition connected (st : state) (c : cid) : bool := memN c (st_conns st).
Definition is_monitor (st : state) (c : cid) : bool := memN c (st_mons st).     (* link_in_monitors != NULL *)

(* ---------------------------------------------------------------- registry *)
(* bus_registry_lookup + bus_service_get_primary_owners_connection *)
Fixpoint primary (own : registry) (n : name) : option cid :=
  match own with
  | [] => None
  | (k, c) :: rest => if name_eqb k n then Some c else primary rest n
  end.

(* connection_is_primary_owner (bus/signals.c) *)
Definition is_primary (own : registry) (c : cid) (n : name) : bool :=
  match primary own n with Some o => o =? c | None => false end.

Definition queue (own : registry) (n : name) : list cid :=
  map snd (filter (fun p => name_eqb (fst p) n) own).
Definition owned (own : registry) (c : cid) : list name :=      (* d->services_owned *)
  map fst (filter (fun p => snd p =? c) own).
Definition unlink (own : registry) (n : name) (c : cid) : registry :=
  filter (fun p => negb (name_eqb (fst p) n && (snd p =? c))) own.

(* ---------------------------------------------------------------- matching *)
Definition opt_type_ok (f : option ktype) (t : mtype) : bool :=
  match f with None => true | Some x => mtype_eqb (TKnown x) t end.
(* a rule key on a string header field: the field must be present and equal *)
Definition opt_code_ok (f : option N) (v : N) : bool :=
  match f with None => true | Some x => negb (v =? 0) && (x =? v) end.

(* match_rule_matches.  [from] = sender connection (None: the bus driver), [addr] = addressed recipient. *)
Definition fmatch (own : registry) (eaves : bool) (f : flt) (from addr : option cid) (m : bmsg) : bool :=
  opt_type_ok (f_type f) (b_type m) &&
  opt_code_ok (f_iface f) (b_iface m) &&
  opt_code_ok (f_member f) (b_member m) &&
  (match f_sender f with
   | None => true
   | Some s => match from with
               | None => name_eqb s NDriver
               | Some c => is_primary own c s
               end
   end) &&
  (match f_dest f with
   | Some d => match b_dest m with
               | None => false
               | Some md => eaves && (match addr with
                                      | None => name_eqb d md
                                      | Some a => is_primary own a d
                                      end)
               end
   | None => eaves || (match b_dest m with None => true | Some _ => false end)
   end).

(* get_recipients_from_list: [seen] is the delivery stamp *)
Fixpoint recips (own : registry) (eaves : bool) (rules : list (cid * flt)) (from addr : option cid) (m : bmsg)
         (seen : list cid) : list cid :=
  match rules with
  | [] => []
  | (o, f) :: rest =>
      if fmatch own eaves f from addr m && negb (memN o seen)
      then o :: recips own eaves rest from addr m (o :: seen)
      else recips own eaves rest from addr m seen
  end.

(* BusMatchmaker keeps one rule list per (rule type, rule interface) pool, each in insertion order; a rule lives in the
   pool chosen by its own type= and interface= keys.  Here: ONE insertion-ordered list, a pool is the sub-list of its
   members (as in coq/Match/Bus.v). *)
Definition opt_k_same (a b : option ktype) : bool :=
  match a, b with None, None => true | Some x, Some y => ktype_eqb x y | _, _ => false end.
Definition opt_N_same (a b : option N) : bool :=
  match a, b with None, None => true | Some x, Some y => x =? y | _, _ => false end.
Definition in_pool (t : option ktype) (i : option N) (r : cid * flt) : bool :=
  opt_k_same (f_type (snd r)) t && opt_N_same (f_iface (snd r)) i.
Definition pool (rules : list (cid * flt)) (t : option ktype) (i : option N) : list (cid * flt) := filter (in_pool t i) rules.

(* the successive get_recipients_from_list calls share the delivery stamp *)
Fixpoint passes (own : registry) (eaves : bool) (pools : list (list (cid * flt))) (from addr : option cid) (m : bmsg)
         (seen : list cid) : list cid :=
  match pools with
  | [] => []
  | p :: ps => let l := recips own eaves p from addr m seen in
               l ++ passes own eaves ps from addr m (l ++ seen)
  end.

(* bus_matchmaker_get_recipients: the rules without type and interface; those with just the message's interface (if it
   has one); and, only if the message type is one of the four defined ones, those with just its type and those with both *)
Definition get_recipients (own : registry) (eaves : bool) (rules : list (cid * flt)) (from addr : option cid) (m : bmsg) : list cid :=
  let has_iface := negb (b_iface m =? 0) in
  let neither := pool rules None None in
  let just_iface := if has_iface then pool rules None (Some (b_iface m)) else [] in
  let just_type := match b_type m with TKnown k => pool rules (Some k) None | TOther _ => [] end in
  let both := match b_type m with
              | TKnown k => if has_iface then pool rules (Some k) (Some (b_iface m)) else []
              | TOther _ => []
              end in
  passes own eaves [neither; just_iface; just_type; both] from addr m (match addr with Some a => [a] | None => [] end).

(* bus_transaction_capture *)
Definition capture (st : state) (from addr : option cid) (m : bmsg) : list cid :=
  match st_mons st with
  | [] => []                                              (* shortcut: connections->monitors == NULL *)
  | _ => get_recipients (st_own st) true (st_mrules st) from addr m
  end.

(* ---------------------------------------------------------------- items *)
Record item := mkItem {
  i_own : registry;
  i_from : option cid;
  i_addr : option cid;
  i_msg : bmsg;
  i_local : bool;               (* handled on the bus's side of the socket by libdbus itself, bus_dispatch never ran *)
  i_cap : list cid;
  i_direct : option cid;
  i_match : list cid;
  i_resumed : bool }.           (* a held message whose dispatch is resumed (captured when it was received, not again) *)

Definition mk_item (st : state) (from addr : option cid) (m : bmsg) (direct : option cid) (mt : list cid) : item :=
  mkItem (st_own st) from addr m false (capture st from addr m) direct mt false.

Inductive kind := KCapture | KDirect | KMatch | KLocal.
Definition out := list (cid * kind * bmsg).

Definition item_outs (it : item) : out :=
  map (fun x => (x, KCapture, i_msg it)) (i_cap it) ++
  (match i_direct it with Some r => [(r, (if i_local it then KLocal else KDirect), i_msg it)] | None => [] end) ++
  map (fun r => (r, KMatch, i_msg it)) (i_match it).
Definition outs (l : list item) : out := flat_map item_outs l.

(* ---------------------------------------------------------------- bus-made messages *)
Definition drv_msg (t : mtype) (dest : option name) (iface member rserial err : N) (args : list arg) : bmsg :=
  mkB t SDriver dest iface member 0 rserial err true false args.

Definition opt_arg (o : option cid) : arg := match o with Some c => AName (NUniq c) | None => AEmpty end.

Definition noc_msg (n : name) (old new : option cid) : bmsg :=
  drv_msg TSignal None I_DBUS M_NAME_OWNER_CHANGED 0 0 [AName n; opt_arg old; opt_arg new].
Definition lost_msg (c : cid) (n : name) : bmsg :=
  drv_msg TSignal (Some (NUniq c)) I_DBUS M_NAME_LOST 0 0 [AName n].
Definition acquired_msg (c : cid) (n : name) : bmsg :=
  drv_msg TSignal (Some (NUniq c)) I_DBUS M_NAME_ACQUIRED 0 0 [AName n].
Definition reply_msg (c : cid) (rserial : N) (args : list arg) : bmsg :=
  drv_msg TReturn (Some (NUniq c)) 0 0 rserial 0 args.
Definition error_msg (c : cid) (rserial e : N) : bmsg :=
  drv_msg TError (Some (NUniq c)) 0 0 rserial e [].

(* bus_transaction_send_from_driver: capture, then queue for [r] unless its socket is gone *)
Definition from_driver (st : state) (r : cid) (m : bmsg) : item :=
  mk_item st None (Some r) m (if connected st r then Some r else None) [].

(* bus_transaction_send_error_reply *)
Definition error_reply (st : state) (c : cid) (m : bmsg) (e : N) : item :=
  from_driver st c (error_msg c (b_serial m) e).

(* bus_transaction_capture_error_reply as used by send_one_message: the error exists for monitors only *)
Definition refusal_item (st : state) (from : option cid) (m : bmsg) : item :=
  let dest := match from with Some c => Some (NUniq c) | None => Some NDriver end in
  mk_item st None from (drv_msg TError dest 0 0 (b_serial m) E_ACCESS_DENIED []) None [].

(* ---------------------------------------------------------------- policy *)
(* bus_client_policy_check_can_send / _can_receive under the generated policy: everything is allowed, then
   <deny send_interface="t.DenySend"/> and <deny receive_interface="t.DenyRecv"/>.  A deny rule naming an
   interface also applies to messages WITHOUT an INTERFACE field, and (requested_reply defaults to false on
   deny rules) is skipped for a requested reply. *)
Definition unknown_type (m : bmsg) : bool := match b_type m with TKnown _ => false | TOther _ => true end.
(* "Message bus will not accept messages of unknown type": the first test of bus_context_check_security_policy *)
Definition deny_send (m : bmsg) (requested : bool) : bool :=
  unknown_type m || (((b_iface m =? I_NONE) || (b_iface m =? I_DENY_SEND)) && negb requested).
Definition deny_recv (m : bmsg) (requested : bool) : bool :=
  ((b_iface m =? I_NONE) || (b_iface m =? I_DENY_RECV)) && negb requested.

(* bus_dispatch_matches, second half: the ordinary match rules (never eavesdropping: AddMatch with
   eavesdrop='true' is outside the model), each recipient through send_one_message *)
Definition fanout (st : state) (from addr : option cid) (m : bmsg) : list cid * list item :=
  let rs := get_recipients (st_own st) false (st_rules st) from addr m in
  if (match from with Some _ => deny_send m false | None => false end) || deny_recv m false
  then ([], map (fun _ => refusal_item st from m) rs)
  else (rs, []).

(* ---------------------------------------------------------------- pending replies *)
Definition pend_match (g sd s : N) (p : pend) : bool :=
  (p_serial p =? s) && (p_get p =? g) && (match p_send p with Some x => x =? sd | None => false end).

(* bus_connections_expect_reply (max_replies_per_connection is not reached by the histories considered) *)
Definition expect_reply (pl : list pend) (g sd : cid) (m : bmsg) : list pend * option N :=
  if b_noreply m then (pl, None)
  else if existsb (pend_match g sd (b_serial m)) pl then (pl, Some E_ACCESS_DENIED)
  else (mkPend g (Some sd) (b_serial m) :: pl, None).

(* bus_connections_check_reply: unlink the first matching entry *)
Fixpoint check_reply (l : list pend) (sd g s : N) : option (list pend) :=
  match l with
  | [] => None
  | p :: l' => if pend_match g sd s p then Some l'
               else match check_reply l' sd g s with Some r => Some (p :: r) | None => None end
  end.

(* bus_context_check_security_policy (sender c active, addressed = proposed = r) *)
Definition check_policy (pl : list pend) (c r : cid) (m : bmsg) : list pend * option N :=
  if unknown_type m then (pl, Some E_ACCESS_DENIED) else       (* refused before the reply bookkeeping is touched *)
  let '(pl1, requested) :=
    if b_rserial m =? 0 then (pl, false)
    else match check_reply pl c r (b_rserial m) with Some pl' => (pl', true) | None => (pl, false) end in
  if deny_send m requested || deny_recv m requested then (pl1, Some E_ACCESS_DENIED)
  else match b_type m with
       | TCall => expect_reply pl1 c r m
       | _ => (pl1, None)
       end.

(* bus_connection_drop_pending_replies followed by the zero-interval expiry: entries whose caller is c
   vanish, entries whose callee is c are answered NoReply, first link first *)
Definition involves (c : cid) (p : pend) : bool :=
  (p_get p =? c) || (match p_send p with Some s => s =? c | None => false end).
Definition drop_pending (pl : list pend) (c : cid) : list pend := filter (fun p => negb (involves c p)) pl.
Definition orphaned (pl : list pend) (c : cid) : list pend :=
  filter (fun p => negb (p_get p =? c) && (match p_send p with Some s => s =? c | None => false end)) pl.

Definition set_pend (st : state) (pl : list pend) : state :=
  upd st (st_conns st) (st_next st) (st_own st) (st_rules st) (st_mrules st) (st_mons st) pl.
Definition set_own (st : state) (own : registry) : state :=
  upd st (st_conns st) (st_next st) own (st_rules st) (st_mrules st) (st_mons st) (st_pend st).

(* bus_pending_reply_send_no_reply, one transaction per entry *)
Definition noreply_items (st : state) (c : cid) : state * list item :=
  let st' := set_pend st (drop_pending (st_pend st) c) in
  (st', map (fun p => from_driver st' (p_get p) (error_msg (p_get p) (p_serial p) E_NO_REPLY)) (orphaned (st_pend st) c)).

(* ---------------------------------------------------------------- name ownership *)
Definition noc_item (st : state) (n : name) (old new : option cid) : item :=
  let m := noc_msg n old new in
  let '(rs, refused) := fanout st None None m in
  mk_item st None None m None rs.

(* bus_service_remove_owner: the signals are staged while c is still in the queue *)
Definition remove_owner (st : state) (c : cid) (n : name) : state * list item :=
  let st' := set_own st (unlink (st_own st) n c) in
  match queue (st_own st) n with
  | p :: rest =>
      if p =? c then
        (st', from_driver st c (lost_msg c n) ::
              match rest with
              | [] => [noc_item st n (Some c) None]
              | w :: _ => [noc_item st n (Some c) (Some w); from_driver st w (acquired_msg w n)]
              end)
      else (st', [])
  | [] => (st', [])
  end.

Fixpoint release_all (st : state) (c : cid) (ns : list name) : state * list item :=
  match ns with
  | [] => (st, [])
  | n :: rest =>
      let '(st1, i1) := remove_owner st c n in
      let '(st2, i2) := release_all st1 c rest in
      (st2, i1 ++ i2)
  end.

(* ---------------------------------------------------------------- match rule bookkeeping *)
Definition has_rule (rules : list (cid * flt)) (c : cid) : bool := existsb (fun r => fst r =? c) rules.
Definition drop_rules (rules : list (cid * flt)) (c : cid) : list (cid * flt) :=
  filter (fun r => negb (fst r =? c)) rules.

(* rule_list_remove_by_connection on the monitor matchmaker: the connection's own rules and every rule
   that names its unique name as sender or destination *)
Definition names_uniq (o : option name) (c : cid) : bool :=
  match o with Some (NUniq x) => x =? c | _ => false end.
Definition mm_disconnected (rules : list (cid * flt)) (c : cid) : list (cid * flt) :=
  filter (fun r => negb ((fst r =? c) || names_uniq (f_sender (snd r)) c || names_uniq (f_dest (snd r)) c)) rules.
(* On the ordinary matchmaker only the connection's own rules are modelled as removed: a surviving rule
   naming a unique name nobody owns any more can never match again (no eavesdropping ordinary rules). *)

(* ---------------------------------------------------------------- events *)
Inductive event :=
| EConnect (priv : bool)                                 (* new connection: authentication (uid root / bus owner or not) and Hello *)
| EDisconnect (c : cid)                                  (* c's socket closes *)
| ESend (c : cid) (m : bmsg)                             (* c writes m (SENDER as written is ignored) *)
| ERequestName (c : cid) (serial : N) (n : N) (dnq : bool)   (* flags 0 or DBUS_NAME_FLAG_DO_NOT_QUEUE *)
| EReleaseName (c : cid) (serial : N) (n : N)
| EAddMatch (c : cid) (serial : N) (f : flt)
| EGetId (c : cid) (serial : N)
| EBecomeMonitor (c : cid) (serial : N) (sig_ok : bool) (flags : N) (rs : list (option flt)).
    (* body signature is "asu" or not; the flags word; each rule string as bus_match_rule_parse sees it: None = does not parse *)

Definition actor (e : event) : option cid :=
  match e with
  | EConnect _ => None
  | EDisconnect c | ESend c _ | ERequestName c _ _ _ | EReleaseName c _ _ | EAddMatch c _ _ | EGetId c _
  | EBecomeMonitor c _ _ _ _ => Some c
  end.

(* the message a driver-method event puts on the wire *)
Definition call_msg (c : cid) (serial iface member : N) : bmsg :=
  mkB TCall (SConn c) (Some NDriver) iface member serial 0 0 false false [].

Definition wire_msg (e : event) : option bmsg :=
  match e with
  | EConnect _ | EDisconnect _ => None
  | ESend c m => Some (stamp c m)
  | ERequestName c s _ _ => Some (call_msg c s I_DBUS M_REQUEST_NAME)
  | EReleaseName c s _ => Some (call_msg c s I_DBUS M_RELEASE_NAME)
  | EAddMatch c s _ => Some (call_msg c s I_DBUS M_ADD_MATCH)
  | EGetId c s => Some (call_msg c s I_DBUS M_GET_ID)
  | EBecomeMonitor c s _ _ _ => Some (call_msg c s I_MONITORING M_BECOME_MONITOR)
  end.

(* ---------------------------------------------------------------- what libdbus answers by itself *)
(* a message without DESTINATION on interface Peer is answered by _dbus_connection_peer_filter_... before
   any filter (bus_dispatch) runs; any other non-signal without DESTINATION is left "not yet handled" by
   bus_dispatch and, if it is a method call, bounced with UnknownMethod by dbus_connection_dispatch *)
Definition peer_local (m : bmsg) : bool :=
  match b_dest m with None => b_iface m =? I_PEER | Some _ => false end.
Definition unrouted (m : bmsg) : bool :=
  match b_dest m with None => negb (mtype_eqb (b_type m) TSignal) | Some _ => false end.

Definition local_answer (m : bmsg) : option bmsg :=
  if peer_local m then
    if mtype_eqb (b_type m) TCall && (b_member m =? M_PING)
    then Some (mkB TReturn SNone None 0 0 0 (b_serial m) 0 true false [])
    else if mtype_eqb (b_type m) TCall && (b_member m =? M_GET_MACHINE_ID)
    then Some (mkB TReturn SNone None 0 0 0 (b_serial m) 0 true false [AEmpty])
    else Some (mkB TError SNone None 0 0 0 (b_serial m) E_UNKNOWN_METHOD true false [])
  else if mtype_eqb (b_type m) TCall
    then Some (mkB TError SNone None 0 0 0 (b_serial m) E_UNKNOWN_METHOD true false [])
    else None.

Definition local_items (st : state) (c : cid) (m : bmsg) : list item :=
  mkItem (st_own st) (Some c) None m true [] None [] false ::
  match local_answer m with
  | Some r => [mkItem (st_own st) None (Some c) r true [] (Some c) [] false]
  | None => []
  end.

(* ---------------------------------------------------------------- bus_dispatch for an ordinary sender *)
(* the message as captured on entry to the driver / on lookup failure: nobody is addressed *)
Definition entry_item (st : state) (c : cid) (m : bmsg) : item := mk_item st (Some c) None m None [].

(* a driver method: capture, send policy, handler.  After a successful handler bus_dispatch_matches
   (connection, NULL, message) runs over the ordinary rules; the message has a DESTINATION, so no
   non-eavesdropping rule selects anybody. *)
Definition to_driver (st : state) (c : cid) (m : bmsg) (handler : state * list item) : state * list item :=
  if deny_send m false then (st, [entry_item st c m; error_reply st c m E_ACCESS_DENIED])
  else let '(st', l) := handler in (st', entry_item st c m :: l).

(* bus_driver_handle_message for members the driver does not implement *)
Definition driver_generic (st : state) (c : cid) (m : bmsg) : state * list item :=
  match b_type m with
  | TCall => (st, [error_reply st c m (if (b_iface m =? I_NONE) || (b_iface m =? I_DBUS)
                                      then E_UNKNOWN_METHOD else E_UNKNOWN_INTERFACE)])
  | _ => (st, [])
  end.

(* bus_dispatch_matches (transaction, sender c, addressed recipient r, m): policy, queue for r, ordinary rules; on a
   refusal the error goes back to c.  [resumed] = the call comes from bus_activation_send_pending_auto_activation_messages
   ("resume dispatching where we left off in bus_dispatch()"): the message was captured when it was received and is not
   captured again. *)
Definition deliver (st : state) (c r : cid) (m : bmsg) (resumed : bool) : state * list item :=
  let '(pl, verdict) := check_policy (st_pend st) c r m in
  let st' := set_pend st pl in
  let it := fun d mt => if resumed then mkItem (st_own st) (Some c) (Some r) m false [] d mt true
                        else mk_item st (Some c) (Some r) m d mt in
  match verdict with
  | Some e => (st', [it None []; error_reply st' c m e])
  | None =>
      let '(rs, refused) := fanout st' (Some c) (Some r) m in
      (st', it (Some r) rs :: refused)
  end.

(* service files exist for the well-known names numbered 4 and up (Exec is a program that exits with status 0 without
   ever claiming the name, so the activation stays pending until somebody else acquires the name) *)
Definition activatable (d : name) : bool := match d with NWk k => 4 <=? k | _ => false end.

Definition set_held (st : state) (h : list (name * cid * bmsg)) : state :=
  mkState (st_conns st) (st_next st) (st_own st) (st_rules st) (st_mrules st) (st_mons st) (st_pend st) (st_unpriv st) h.

(* bus_dispatch, destination without owner: capture, then NameHasNoOwner (NO_AUTO_START) or
   bus_activation_activate_service: no service file -> ServiceUnknown; send policy; else the message is held *)
Definition no_owner (st : state) (c : cid) (d : name) (m : bmsg) : state * list item :=
  if b_noauto m then (st, [entry_item st c m; error_reply st c m E_NAME_HAS_NO_OWNER])
  else if negb (activatable d) then (st, [entry_item st c m; error_reply st c m E_SERVICE_UNKNOWN])
  else if deny_send m false then (st, [entry_item st c m; error_reply st c m E_ACCESS_DENIED])
  else (set_held st (st_held st ++ [(d, c, m)]), [entry_item st c m]).

Definition dispatch (st : state) (c : cid) (m : bmsg) : state * list item :=
  match b_dest m with
  | None =>                                   (* a broadcast signal *)
      let '(rs, refused) := fanout st (Some c) None m in
      (st, mk_item st (Some c) None m None rs :: refused)
  | Some NDriver => to_driver st c m (driver_generic st c m)
  | Some d =>
      match primary (st_own st) d with
      | None => no_owner st c d m
      | Some r => deliver st c r m false
      end
  end.

(* bus_activation_send_pending_auto_activation_messages: the entries held for the name, oldest first, to its new
   primary owner; entries of senders that have left are skipped; the pending activation is then forgotten *)
Fixpoint resume_all (st : state) (r : cid) (l : list (name * cid * bmsg)) : state * list item :=
  match l with
  | [] => (st, [])
  | (_, c, m) :: rest =>
      if connected st c then
        let '(st1, i1) := deliver st c r m true in
        let '(st2, i2) := resume_all st1 r rest in
        (st2, i1 ++ i2)
      else resume_all st r rest
  end.

Definition held_for (nm : name) (h : name * cid * bmsg) : bool := name_eqb (fst (fst h)) nm.

Definition release_held (st : state) (nm : name) : state * list item :=
  match primary (st_own st) nm with
  | None => (st, [])
  | Some r => resume_all (set_held st (filter (fun h => negb (held_for nm h)) (st_held st))) r
                         (filter (held_for nm) (st_held st))
  end.

(* ---------------------------------------------------------------- driver methods *)
Definition request_name (st : state) (c : cid) (serial n : N) (dnq : bool) : state * list item :=
  let nm := NWk n in
  let '(st', l, code) :=
    match queue (st_own st) nm with
    | [] =>                                   (* bus_registry_ensure + bus_service_add_owner *)
        (set_own st (st_own st ++ [(nm, c)]),
         [noc_item st nm None (Some c); from_driver st c (acquired_msg c nm)], 1)
    | p :: _ =>
        if p =? c then (st, [], 4)                                                   (* ALREADY_OWNER *)
        else if dnq then (set_own st (unlink (st_own st) nm c), [], 3)               (* EXISTS *)
        else if memN c (queue (st_own st) nm) then (st, [], 2)                       (* IN_QUEUE, flags refreshed *)
        else (set_own st (st_own st ++ [(nm, c)]), [], 2)                            (* IN_QUEUE *)
    end in
  let '(st'', l2) := release_held st' nm in          (* end of bus_registry_acquire_service *)
  (st'', l ++ l2 ++ [from_driver st'' c (reply_msg c serial [ANum code])]).

Definition release_name (st : state) (c : cid) (serial n : N) : state * list item :=
  let nm := NWk n in
  let '(st', l, code) :=
    match queue (st_own st) nm with
    | [] => (st, [], 2)                                                              (* NON_EXISTENT *)
    | q => if memN c q then let '(st1, l1) := remove_owner st c nm in (st1, l1, 1)   (* RELEASED *)
           else (st, [], 3)                                                          (* NOT_OWNER *)
    end in
  (st', l ++ [from_driver st' c (reply_msg c serial [ANum code])]).

Definition add_match (st : state) (c : cid) (serial : N) (f : flt) : state * list item :=
  let st' := upd st (st_conns st) (st_next st) (st_own st) (st_rules st ++ [(c, f)]) (st_mrules st) (st_mons st) (st_pend st) in
  (st', [from_driver st' c (reply_msg c serial [])]).

Definition get_id (st : state) (c : cid) (serial : N) : state * list item :=
  (st, [from_driver st c (reply_msg c serial [AEmpty])]).

(* bus_driver_handle_become_monitor + bus_connection_be_monitor *)
Definition become_monitor (st : state) (c : cid) (serial : N) (fs : list flt) : state * list item :=
  let fs' := match fs with [] => [empty_filter] | _ => fs end in              (* zero-length array becomes [""] *)
  let ack := from_driver st c (reply_msg c serial []) in                      (* the ack is staged first *)
  let st1 := upd st (st_conns st) (st_next st) (st_own st) (st_rules st)
                     (st_mrules st ++ map (fun f => (c, f)) fs') (st_mons st) (st_pend st) in   (* bcd_add_monitor_rules *)
  let '(st2, rel) := release_all st1 c (owned (st_own st1) c) in              (* services_owned, first to last *)
  let st3 := upd st2 (st_conns st2) (st_next st2) (st_own st2) (drop_rules (st_rules st2) c)
                     (st_mrules st2) (st_mons st2 ++ [c]) (st_pend st2) in    (* ordinary rules go, link_in_monitors set *)
  let '(st4, nr) := noreply_items st3 c in                                    (* bus_connection_drop_pending_replies *)
  (st4, ack :: rel ++ nr).

(* bus_driver_handle_message (METHOD_FLAG_PRIVILEGED, signature "asu") and the first half of
   bus_driver_handle_become_monitor: every refusal happens before anything is changed *)
Fixpoint parse_all (rs : list (option flt)) : option (list flt) :=
  match rs with
  | [] => Some []
  | None :: _ => None                                   (* bus_match_rule_parse fails: MatchRuleInvalid *)
  | Some f :: rest => match parse_all rest with Some l => Some (f :: l) | None => None end
  end.

Definition become_monitor_call (st : state) (c : cid) (serial : N) (sig_ok : bool) (flags : N) (rs : list (option flt))
  : state * list item :=
  let m := call_msg c serial I_MONITORING M_BECOME_MONITOR in
  if memN c (st_unpriv st) then (st, [error_reply st c m E_ACCESS_DENIED])        (* bus_driver_check_caller_is_privileged *)
  else if negb sig_ok then (st, [error_reply st c m E_INVALID_ARGS])              (* dbus_message_has_signature (message, "asu") *)
  else if negb (flags =? 0) then (st, [error_reply st c m E_INVALID_ARGS])        (* "does not support any flags yet" *)
  else match parse_all rs with
       | None => (st, [error_reply st c m E_MATCH_RULE_INVALID])
       | Some fs => become_monitor st c serial fs
       end.

(* bus_driver_handle_hello: the Hello call is captured before the connection has a name, but the message
   object handed to monitors is the one whose SENDER handle_hello later sets to the new unique name *)
Definition connect (st : state) (priv : bool) : state * list item :=
  let c := st_next st in
  let hello := call_msg c 1 I_DBUS M_HELLO in
  let i0 := mk_item st (Some c) None hello None [] in
  let st1 := upd st (st_conns st ++ [c]) (st_next st + 1) (st_own st) (st_rules st) (st_mrules st) (st_mons st) (st_pend st) in
  let welcome := from_driver st1 c (reply_msg c 1 [AName (NUniq c)]) in
  let noc := noc_item st1 (NUniq c) None (Some c) in
  let acq := from_driver st1 c (acquired_msg c (NUniq c)) in
  let st2 := set_own st1 (st_own st1 ++ [(NUniq c, c)]) in
  (mkState (st_conns st2) (st_next st2) (st_own st2) (st_rules st2) (st_mrules st2) (st_mons st2) (st_pend st2)
           (if priv then st_unpriv st2 else st_unpriv st2 ++ [c]) (st_held st2),
   [i0; welcome; noc; acq]).

(* bus_connection_disconnected *)
Definition disconnect (st : state) (c : cid) : state * list item :=
  if is_monitor st c then
    (* no names to release; the pending replies are dropped as for everybody (a monitor normally has none) *)
    noreply_items (upd st (filter (fun x => negb (x =? c)) (st_conns st)) (st_next st) (st_own st) (st_rules st)
                          (mm_disconnected (st_mrules st) c) (filter (fun x => negb (x =? c)) (st_mons st)) (st_pend st)) c
  else
    let st1 := upd st (filter (fun x => negb (x =? c)) (st_conns st)) (st_next st) (st_own st)
                       (drop_rules (st_rules st) c) (st_mrules st) (st_mons st) (st_pend st) in
    let '(st2, rel) := release_all st1 c (rev (owned (st_own st1) c)) in       (* _dbus_list_get_last first *)
    let '(st3, nr) := noreply_items st2 c in
    (st3, rel ++ nr).

(* ---------------------------------------------------------------- step *)
(* events whose actor is not connected, or that carry serial 0, are not expressible on a socket; generic
   method calls to the driver must use a member the driver does not implement and not one of its other
   interfaces (other message types are ignored by the driver whatever they carry) *)
Definition wf_msg (m : bmsg) : bool :=
  negb (b_serial m =? 0) &&
  (match b_dest m with
   | Some NDriver => negb (mtype_eqb (b_type m) TCall) ||
                     ((M_GENERIC <=? b_member m) && negb (b_iface m =? I_PEER) && negb (b_iface m =? I_MONITORING))
   | _ => true
   end) &&
  (match b_type m with                       (* required header fields: anything else is a corrupt message *)
   | TCall => negb (b_member m =? 0)
   | TSignal => negb (b_member m =? 0) && negb (b_iface m =? 0)
   | TReturn => negb (b_rserial m =? 0)
   | TError => negb (b_rserial m =? 0) && negb (b_err m =? 0)
   | TOther n => 5 <=? n                      (* 0 is DBUS_MESSAGE_TYPE_INVALID (corrupt), 1..4 are the known types *)
   end).

Definition wf_event (st : state) (e : event) : bool :=
  match e with
  | EConnect _ => true
  | EDisconnect c => connected st c
  | ESend c m => connected st c && wf_msg m
  | ERequestName c s _ _ | EReleaseName c s _ | EAddMatch c s _ | EGetId c s | EBecomeMonitor c s _ _ _ =>
      connected st c && negb (s =? 0)
  end.

Definition step (st : state) (e : event) : state * list item :=
  if negb (wf_event st e) then (st, []) else
  match e with
  | EConnect priv => connect st priv
  | EDisconnect c => disconnect st c
  | _ =>
    match actor e, wire_msg e with
    | Some c, Some m =>
        if peer_local m then (st, local_items st c m)                 (* libdbus answers before bus_dispatch runs *)
        else if is_monitor st c then disconnect st c                  (* "Monitors aren't meant to send messages to us" *)
        else if unrouted m then (st, local_items st c m)
        else match e with
             | ESend _ _ => dispatch st c m
             | ERequestName _ s n dnq => to_driver st c m (request_name st c s n dnq)
             | EReleaseName _ s n => to_driver st c m (release_name st c s n)
             | EAddMatch _ s f => to_driver st c m (add_match st c s f)
             | EGetId _ s => to_driver st c m (get_id st c s)
             | EBecomeMonitor _ s sig_ok flags rs => to_driver st c m (become_monitor_call st c s sig_ok flags rs)
             | _ => (st, [])
             end
    | _, _ => (st, [])
    end
  end.

Fixpoint run (st : state) (h : list event) : state * list (list item) :=
  match h with
  | [] => (st, [])
  | e :: h' => let '(st1, i1) := step st e in
               let '(st2, tr) := run st1 h' in
               (st2, i1 :: tr)
  end.
