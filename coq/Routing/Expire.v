(* Expiry machinery behind NoReply (package `routing`, property C09), over an EXPLICIT time input.

     bus/expirelist.h  ELAPSED_MILLISECONDS_SINCE                      elapsed_us (exact, in microseconds)
     bus/expirelist.c  do_expiration_with_monotonic_time               do_exp, do_expiration
                       bus_expire_timeout_set_interval                 set_interval
                       bus_expirelist_expire / expire_timeout_handler  expire
                       bus_expire_list_add / _add_link                 add
                       bus_expire_list_remove / _remove_link / _unlink remove
                       bus_expire_list_recheck_immediately             recheck
     bus/connection.c  bus_connection_drop_pending_replies (added := 0,0 + recheck)   mark
     dbus/dbus-timeout.c  _dbus_timeout_restart / _disable / _restarted   (fields of [timer])
     dbus/dbus-mainloop.c check_timeout (incl. the "system clock set backward" branch)   check_timeout
                          _dbus_loop_iterate, the two passes over the timeouts, for this one timeout   iterate

   Times are (tv_sec, tv_usec) pairs as in the C code.  The C code computes the elapsed time in double precision
   milliseconds; all comparisons made with it are exact for |values| < 2^53 and are written here on integers
   (microseconds).  [int] truncation of a positive double is Z.quot.  expire_func (bus_pending_reply_expired) is taken to
   succeed (its only failure is out of memory).  No proofs in this file. *)
From Coq Require Import ZArith List Bool.
Import ListNotations.
Local Open Scope Z_scope.

Record tv := mkTv { tv_sec : Z; tv_usec : Z }.
Definition us (t : tv) : Z := tv_sec t * 1000000 + tv_usec t.

(* BusExpireItem; added = (0,0) means "expire at the next walk" *)
Record item := mkItem { it_id : Z; it_added : tv }.
(* DBusTimeout + TimeoutCallback.last_tv_* *)
Record timer := mkTimer { tm_enabled : bool; tm_interval : Z; tm_needs_restart : bool; tm_last : tv }.
(* BusExpireList *)
Record xlist := mkX { x_items : list item; x_timer : timer; x_after : Z }.

Definition INT_MAX : Z := 2147483647.

(* bus_expire_list_new: timer created with an irrelevant interval, disabled *)
Definition xinit (after : Z) : xlist := mkX [] (mkTimer false 100 false (mkTv 0 0)) after.

(* ELAPSED_MILLISECONDS_SINCE * 1000 *)
Definition elapsed_us (added now : tv) : Z :=
  (tv_sec now - tv_sec added) * 1000000 + (tv_usec now - tv_usec added).

Definition is_marked (it : item) : bool := (tv_sec (it_added it) =? 0) && (tv_usec (it_added it) =? 0).

(* the test in do_expiration_with_monotonic_time *)
Definition due (after : Z) (now : tv) (it : item) : bool :=
  is_marked it || ((0 <? after) && (after * 1000 <=? elapsed_us (it_added it) now)).

(* the while loop: (items kept, ids expired in list order, min_wait_time, items_to_expire) *)
Fixpoint do_exp (after : Z) (now : tv) (l : list item) (minw : Z) (waiting : bool) : list item * list Z * Z * bool :=
  match l with
  | [] => ([], [], minw, waiting)
  | it :: l' =>
      if due after now it then
        let '(kept, ex, mw, w) := do_exp after now l' minw waiting in (kept, it_id it :: ex, mw, w)
      else if 0 <? after then
        let to_wait_us := after * 1000 - elapsed_us (it_added it) now in
        let minw' := if to_wait_us <? minw * 1000 then Z.quot to_wait_us 1000 else minw in
        let '(kept, ex, mw, w) := do_exp after now l' minw' true in (it :: kept, ex, mw, w)
      else
        let '(kept, ex, mw, w) := do_exp after now l' minw waiting in (it :: kept, ex, mw, w)
  end.

(* do_expiration_with_monotonic_time: next_interval *)
Definition do_expiration (after : Z) (now : tv) (l : list item) : list item * list Z * Z :=
  let '(kept, ex, mw, w) := do_exp after now l (3600 * 1000) false in
  (kept, ex, if w then mw else -1).

(* bus_expire_timeout_set_interval *)
Definition set_interval (tm : timer) (next : Z) : timer :=
  if 0 <=? next then mkTimer true next true (tm_last tm)          (* _dbus_timeout_restart *)
  else if tm_enabled tm then mkTimer false (tm_interval tm) (tm_needs_restart tm) (tm_last tm)   (* _dbus_timeout_disable *)
  else tm.

(* bus_expirelist_expire (called from the timeout handler) at clock reading [now] *)
Definition expire (x : xlist) (now : tv) : xlist * list Z :=
  match x_items x with
  | [] => (mkX [] (set_interval (x_timer x) (-1)) (x_after x), [])
  | _ => let '(kept, ex, next) := do_expiration (x_after x) now (x_items x) in
         (mkX kept (set_interval (x_timer x) next) (x_after x), ex)
  end.

(* bus_expire_list_add: prepend; arm the timer if it is not running *)
Definition add (x : xlist) (it : item) : xlist :=
  mkX (it :: x_items x) (if tm_enabled (x_timer x) then x_timer x else set_interval (x_timer x) 0) (x_after x).

Fixpoint remove_id (l : list item) (id : Z) : list item :=
  match l with [] => [] | it :: l' => if it_id it =? id then l' else it :: remove_id l' id end.
Definition remove (x : xlist) (id : Z) : xlist := mkX (remove_id (x_items x) id) (x_timer x) (x_after x).

Definition recheck (x : xlist) : xlist := mkX (x_items x) (set_interval (x_timer x) 0) (x_after x).

(* the callee left: added := (0,0), bus_expire_list_recheck_immediately *)
Definition mark (x : xlist) (id : Z) : xlist :=
  recheck (mkX (map (fun it => if it_id it =? id then mkItem id (mkTv 0 0) else it) (x_items x)) (x_timer x) (x_after x)).

(* check_timeout: (milliseconds remaining, timer with last possibly reset) *)
Definition check_timeout (now : tv) (tm : timer) : Z * timer :=
  let interval := tm_interval tm in
  let interval_seconds := Z.quot interval 1000 in
  let interval_milliseconds := Z.rem interval 1000 in
  let exp_sec0 := tv_sec (tm_last tm) + interval_seconds in
  let exp_usec0 := tv_usec (tm_last tm) + interval_milliseconds * 1000 in
  let '(exp_sec, exp_usec) := if 1000000 <=? exp_usec0 then (exp_sec0 + 1, exp_usec0 - 1000000) else (exp_sec0, exp_usec0) in
  let sec_remaining := exp_sec - tv_sec now in
  let msec_remaining := Z.quot (exp_usec - tv_usec now) 1000 in
  let timeout :=
    if (sec_remaining <? 0) || ((sec_remaining =? 0) && (msec_remaining <? 0)) then 0
    else let '(sr, mr) := if msec_remaining <? 0 then (sec_remaining - 1, msec_remaining + 1000) else (sec_remaining, msec_remaining) in
         if (Z.quot INT_MAX 1000 <? sr) || (INT_MAX <? mr) then INT_MAX else sr * 1000 + mr in
  if interval <? timeout
  then (interval, mkTimer (tm_enabled tm) interval (tm_needs_restart tm) now)      (* "System clock set backward! Resetting timeout." *)
  else (timeout, tm).

(* _dbus_loop_iterate as far as this timeout is concerned: the pass before poll() reads the clock as t1, the pass after
   poll() as t2, and the handler, if invoked, as t3 *)
Definition iterate (x : xlist) (t1 t2 t3 : tv) : xlist * list Z :=
  let tm := x_timer x in
  let tm1 :=
    if tm_enabled tm then
      let tmr := if tm_needs_restart tm then mkTimer true (tm_interval tm) false t1 else tm in
      snd (check_timeout t1 tmr)
    else tm in
  if tm_enabled tm1 then
    let '(rem, tm2) := check_timeout t2 tm1 in
    if rem =? 0 then
      expire (mkX (x_items x) (mkTimer (tm_enabled tm2) (tm_interval tm2) (tm_needs_restart tm2) t2) (x_after x)) t3
    else (mkX (x_items x) tm2 (x_after x), [])
  else (mkX (x_items x) tm1 (x_after x), []).

(* one operation on the list, as the correspondence harness drives it *)
Inductive xop :=
| XAdd (id : Z) (added : tv)
| XRemove (id : Z)
| XMark (id : Z)
| XIter (t1 t2 t3 : tv).

Definition xstep (x : xlist) (o : xop) : xlist * list Z :=
  match o with
  | XAdd id a => (add x (mkItem id a), [])
  | XRemove id => (remove x id, [])
  | XMark id => (mark x id, [])
  | XIter t1 t2 t3 => iterate x t1 t2 t3
  end.

Fixpoint xrun (x : xlist) (ops : list xop) : xlist * list (list Z) :=
  match ops with
  | [] => (x, [])
  | o :: ops' => let '(x1, ex) := xstep x o in let '(x2, exs) := xrun x1 ops' in (x2, ex :: exs)
  end.
