(* Routing model (package `routing`, properties C09 and C05).

   Executable model of the unicast path of the message bus:

     bus/dispatch.c    bus_dispatch (destination lookup, addressed recipient,
                       error reply at `out:`), bus_dispatch_matches (first part:
                       gate, fd capability test, single send)
     bus/bus.c         bus_context_check_security_policy as far as
                       requested_reply, the send/receive verdict and the
                       recording of the reply expectation are concerned
     bus/connection.c  bus_connections_expect_reply, bus_connections_check_reply,
                       bus_pending_reply_expired, bus_connection_drop_pending_replies,
                       bus_connection_disconnected (names, pending replies)
     bus/expirelist.c  do_expiration_with_monotonic_time
     bus/services.c    bus_registry_acquire_service / release_service /
                       bus_service_add_owner / swap_owner / remove_owner
                       (only what decides who the primary owner is)

   No proofs in this file.  Connections are numbered by the bus in order of
   arrival (the number stands for the unique name); well-known names are
   numbered by the test universe.  A message is carried opaquely ([m_token]
   stands for path/interface/member/body); the bus never edits anything but
   SENDER, which is represented by the [from] argument of [OFwd]. *)
From DV Require Import Lib.Base.
Local Open Scope N_scope.

(* ---------------------------------------------------------------- data *)
Inductive mtype := TCall | TReturn | TError | TSignal | TOther (k : N).   (* TOther k: a message type the bus does not know (k > 4) *)
Inductive dest := DUnique (c : N) | DName (n : N).

Record msg := mkMsg {
  m_type : mtype;
  m_noreply : bool;        (* DBUS_HEADER_FLAG_NO_REPLY_EXPECTED *)
  m_noauto : bool;         (* DBUS_HEADER_FLAG_NO_AUTO_START *)
  m_serial : N;
  m_rserial : N;           (* REPLY_SERIAL, 0 = field absent (dbus_message_get_reply_serial) *)
  m_dest : dest;
  m_nfds : N;              (* number of unix fds attached *)
  m_token : N }.

Inductive err := EAccessDenied | ELimitsExceeded | ENotSupported | ENoReply | ENameHasNoOwner | EServiceUnknown.

(* what a connection reads from its socket *)
Inductive omsg :=
| OFwd (from : N) (m : msg)        (* message [m] forwarded to its addressed recipient, SENDER := unique name of [from] *)
| OEav (from : N) (m : msg)        (* the same message copied to a connection because one of its eavesdrop match rules matches *)
| OErr (e : err) (rs : N)          (* error from the bus, REPLY_SERIAL = rs *)
| ODrv (rs : N) (code : N)         (* method return from the bus driver (RequestName / ReleaseName result) *)
| OCall (from : N) (serial : N).   (* copy of [from]'s method call to the bus driver (serial), made for an eavesdrop match rule *)

Definition out := list (N * omsg).   (* (recipient, message), in the order they are queued *)

Record conn := mkConn { c_id : N; c_fds : bool }.              (* c_fds: negotiated unix-fd passing *)
Record owner := mkOwner { o_conn : N; o_allow : bool; o_dnq : bool }.  (* BusOwner: allow_replacement, do_not_queue *)

(* BusPendingReply: will_get_reply, will_send_reply (NULL after the callee left), reply_serial, expire_item.added *)
Record pend := mkPend { p_get : N; p_send : option N; p_serial : N; p_added : N }.

Record cfg := mkCfg {
  restrictive : bool;          (* true: only requested replies admitted (system-bus-like default policy); false: allow everything *)
  max_replies : N;             (* limits.max_replies_per_connection *)
  reply_timeout : option N }.  (* limits.reply_timeout in ms; None = -1 (never) *)

(* BusMatchRule, the subset used here: eavesdrop='true'?, type=, sender=, destination= *)
Record rule := mkRule { r_eaves : bool; r_type : option mtype; r_sender : option dest; r_dest : option dest }.

Record state := mkState {
  st_conns : list conn;                     (* active connections *)
  st_next : N;                              (* next unique-name number *)
  st_names : list (N * list owner);         (* registry: well-known name -> owner queue, primary first; queues are non-empty *)
  st_pend : list pend;                      (* connections->pending_replies->items, first link first *)
  st_now : N;                               (* monotonic clock, ms *)
  st_rules : list (N * rule);               (* matchmaker: (owner, rule) *)
  st_full : list N;                         (* connections that do not read and whose outgoing queue AT THE BUS is over
                                               limits.max_outgoing_bytes (dbus_connection_get_outgoing_size > limit) *)
  st_held : list (N * list (N * msg));    (* activation->pending_activations: activatable name -> (sender, message) entries
                                               held while the service starts, in arrival order *)
  st_zombie : list N }.                     (* connections whose transport has seen EOF (dbus_connection_get_is_connected is FALSE)
                                               but whose Disconnected message has not been dispatched yet: still registered,
                                               names still owned, messages are still ROUTED to them (bus_transaction_send then drops
                                               them silently: an output entry addressed to such a connection reaches nobody) *)

Definition init : state := mkState [] 0 [] [] 0 [] [] [] [].

Inductive event :=
| EConnect (fds : bool)                                   (* new connection, authenticated, Hello done *)
| ESend (c : N) (m : msg)                                 (* c writes m (destination is a unique or well-known name) *)
| EDisconnect (c : N)                                     (* c's socket closes *)
| ETick (d : N)                                           (* d ms pass with the bus idle *)
| ERequestName (c : N) (serial : N) (n : N) (allow replace dnq : bool)
| EReleaseName (c : N) (serial : N) (n : N)
| EAddMatch (c : N) (serial : N) (rl : rule)
| EBlock (c : N)        (* c stops reading and other traffic drives its queue at the bus over max_outgoing_bytes *)
| EDrain (c : N)        (* c reads everything again *)
| EDriverCall (c : N) (serial : N)   (* some other method of org.freedesktop.DBus that changes nothing here (GetId, NameHasOwner) *)
| EHangup (c : N).      (* c's socket is closed and the bus's transport has noticed (EOF), but the Disconnected message is still in
                           c's incoming queue: EDisconnect c follows later *)

(* ---------------------------------------------------------------- connections *)
Definition find_conn (cs : list conn) (c : N) : option conn := find (fun x => c_id x =? c) cs.
Definition connected (st : state) (c : N) : bool := match find_conn (st_conns st) c with Some _ => true | None => false end.
(* dbus_connection_can_send_type (r, DBUS_TYPE_UNIX_FD) *)
Definition conn_fds (st : state) (c : N) : bool := match find_conn (st_conns st) c with Some x => c_fds x | None => false end.

(* dbus_connection_get_outgoing_size (c) > limits.max_outgoing_bytes *)
Definition is_full (st : state) (c : N) : bool := existsb (N.eqb c) (st_full st).
Definition is_zombie (st : state) (c : N) : bool := existsb (N.eqb c) (st_zombie st).

(* ---------------------------------------------------------------- pending replies *)
(* the comparison used by both loops in bus/connection.c *)
Definition pend_match (g sd s : N) (p : pend) : bool :=
  (p_serial p =? s) && (p_get p =? g) && (match p_send p with Some x => x =? sd | None => false end).

(* bus_connections_expect_reply: the while loop.  None = duplicate found (early return),
   Some n = number of entries whose receiver is [g] *)
Fixpoint expect_scan (l : list pend) (g sd s count : N) : option N :=
  match l with
  | [] => Some count
  | p :: l' => if pend_match g sd s p then None
               else expect_scan l' g sd s (if p_get p =? g then count + 1 else count)
  end.

Definition expect_reply (cf : cfg) (now : N) (pl : list pend) (g sd : N) (m : msg) : list pend * option err :=
  if m_noreply m then (pl, None)
  else match expect_scan pl g sd (m_serial m) 0 with
       | None => (pl, Some EAccessDenied)
       | Some count => if max_replies cf <=? count then (pl, Some ELimitsExceeded)
                       else (mkPend g (Some sd) (m_serial m) now :: pl, None)     (* bus_expire_list_add prepends *)
       end.

(* bus_connections_check_reply: find the first matching link and unlink it *)
Fixpoint check_reply (l : list pend) (sd g s : N) : option (list pend) :=
  match l with
  | [] => None
  | p :: l' => if pend_match g sd s p then Some l'
               else match check_reply l' sd g s with Some r => Some (p :: r) | None => None end
  end.

(* ---------------------------------------------------------------- policy *)
(* bus_client_policy_check_can_send / _can_receive under the two generated policies:
   restrictive: <allow send_type=method_call|signal/> (requested_reply defaults to true on allow rules,
   which matters only when REPLY_SERIAL is present) + <allow send_requested_reply="true" send_type=method_return|error/>,
   same on the receive side; permissive: <allow send_destination="*" eavesdrop="true"/> <allow eavesdrop="true"/>. *)
Definition can_send (cf : cfg) (m : msg) (requested : bool) : bool :=
  if restrictive cf then (m_rserial m =? 0) || requested else true.
Definition can_receive (cf : cfg) (m : msg) (requested : bool) : bool :=
  if restrictive cf then (m_rserial m =? 0) || requested else true.

(* bus_context_check_security_policy (sender = c active, addressed = proposed = r).
   Returns the pending list as it is when the function returns (nothing is rolled back
   on a refusal: cancel hooks only run on OOM) and the error, if refused. *)
Definition unknown_type (m : msg) : bool := match m_type m with TOther _ => true | _ => false end.

Definition check_security_policy (cf : cfg) (now : N) (pl : list pend) (c r : N) (m : msg) (full : bool) : list pend * option err :=
  (* the switch on the message type is the FIRST thing the function does: "Message bus will not accept messages of unknown type";
     nothing has been looked up or changed at that point *)
  if unknown_type m then (pl, Some EAccessDenied) else
  let '(pl1, requested) :=
    if m_rserial m =? 0 then (pl, false)
    else match check_reply pl c r (m_rserial m) with
         | Some pl' => (pl', true)
         | None => (pl, false)
         end in
  if negb (can_send cf m requested) then (pl1, Some EAccessDenied)
  else if negb (can_receive cf m requested) then (pl1, Some EAccessDenied)
  else if full then (pl1, Some ELimitsExceeded)          (* "destination has a full message queue": BEFORE the slot is recorded *)
  else match m_type m with
       | TCall => expect_reply cf now pl1 c r m
       | _ => (pl1, None)
       end.

(* ---------------------------------------------------------------- registry *)
Fixpoint lookup (names : list (N * list owner)) (n : N) : option (list owner) :=
  match names with
  | [] => None
  | (k, q) :: rest => if k =? n then Some q else lookup rest n
  end.

Fixpoint set_queue (names : list (N * list owner)) (n : N) (q : list owner) : list (N * list owner) :=
  match names with
  | [] => match q with [] => [] | _ => [(n, q)] end
  | (k, q0) :: rest => if k =? n then (match q with [] => rest | _ => (k, q) :: rest end)
                       else (k, q0) :: set_queue rest n q
  end.

Definition in_queue (q : list owner) (c : N) : bool := existsb (fun o => o_conn o =? c) q.
Definition remove_owner (q : list owner) (c : N) : list owner := filter (fun o => negb (o_conn o =? c)) q.
Definition insert_second (q : list owner) (o : owner) : list owner :=
  match q with [] => [o] | p :: rest => p :: o :: rest end.
Definition set_flags (q : list owner) (c : N) (allow dnq : bool) : list owner :=
  map (fun o => if o_conn o =? c then mkOwner c allow dnq else o) q.

(* bus_service_add_owner (called only when c is not the primary owner) *)
Definition add_owner (q : list owner) (c : N) (allow replace dnq : bool) : list owner :=
  if in_queue q c then
    (if replace then insert_second (remove_owner q c) (mkOwner c allow dnq) else set_flags q c allow dnq)
  else
    (if replace then insert_second q (mkOwner c allow dnq) else q ++ [mkOwner c allow dnq]).

(* bus_service_swap_owner: the primary moves behind the second entry *)
Definition swap_owner (q : list owner) : list owner :=
  match q with p :: s :: rest => s :: p :: rest | _ => q end.

(* bus_registry_acquire_service -> (new queue, DBUS_REQUEST_NAME_REPLY_xxx code) *)
Definition acquire (q : list owner) (c : N) (allow replace dnq : bool) : list owner * N :=
  match q with
  | [] => ([mkOwner c allow dnq], 1)                                   (* PRIMARY_OWNER *)
  | p :: _ =>
    if o_conn p =? c then (set_flags q c allow dnq, 4)                 (* ALREADY_OWNER *)
    else if dnq && (negb (o_allow p) || negb replace) then (remove_owner q c, 3)   (* EXISTS *)
    else if negb dnq && (negb replace || negb (o_allow p)) then (add_owner q c allow replace dnq, 2)  (* IN_QUEUE *)
    else let q1 := add_owner q c allow replace dnq in
         ((if o_dnq p then remove_owner q1 (o_conn p) else swap_owner q1), 1)
  end.

(* bus_registry_release_service -> DBUS_RELEASE_NAME_REPLY_xxx code *)
Definition release (names : list (N * list owner)) (c n : N) : list (N * list owner) * N :=
  match lookup names n with
  | None => (names, 2)                                                 (* NON_EXISTENT *)
  | Some q => if in_queue q c then (set_queue names n (remove_owner q c), 1)   (* RELEASED *)
              else (names, 3)                                          (* NOT_OWNER *)
  end.

(* all names a leaving connection owns or waits for *)
Fixpoint names_drop (names : list (N * list owner)) (c : N) : list (N * list owner) :=
  match names with
  | [] => []
  | (k, q) :: rest => match remove_owner q c with
                      | [] => names_drop rest c
                      | q' => (k, q') :: names_drop rest c
                      end
  end.

(* destination lookup of bus_dispatch: bus_registry_lookup + primary owner's connection *)
Definition resolve (st : state) (d : dest) : option N :=
  match d with
  | DUnique c => if connected st c then Some c else None
  | DName n => match lookup (st_names st) n with
               | Some (o :: _) => Some (o_conn o)
               | _ => None
               end
  end.

(* ---------------------------------------------------------------- expiry *)
(* do_expiration_with_monotonic_time's test; added == 0 is represented by p_send = None *)
Definition expired (cf : cfg) (now : N) (p : pend) : bool :=
  match p_send p with
  | None => true
  | Some _ => match reply_timeout cf with
              | Some t => (0 <? t) && (t <=? now - p_added p)
              | None => false
              end
  end.

(* one walk over the list; every expired item is unlinked and a NoReply error goes to its receiver
   (bus_pending_reply_expired, bus_pending_reply_send_no_reply) *)
Fixpoint expire_pass (cf : cfg) (now : N) (pl : list pend) : list pend * out :=
  match pl with
  | [] => ([], [])
  | p :: l => let '(l', o) := expire_pass cf now l in
              if expired cf now p then (l', (p_get p, OErr ENoReply (p_serial p)) :: o) else (p :: l', o)
  end.

(* bus_connection_drop_pending_replies *)
Fixpoint drop_pending (pl : list pend) (c : N) : list pend :=
  match pl with
  | [] => []
  | p :: l => if p_get p =? c then drop_pending l c
              else match p_send p with
                   | Some s => if s =? c then mkPend (p_get p) None (p_serial p) 0 :: drop_pending l c
                               else p :: drop_pending l c
                   | None => p :: drop_pending l c
                   end
  end.

(* ---------------------------------------------------------------- match rules (eavesdropping on unicast traffic) *)
Definition mtype_eqb (a b : mtype) : bool :=
  match a, b with TCall, TCall | TReturn, TReturn | TError, TError | TSignal, TSignal => true | _, _ => false end.

(* match_rule_matches (bus/signals.c) for a message WITH a destination: a rule without eavesdrop='true' never matches
   (both branches of the destination test return FALSE); sender= / destination= are compared through
   connection_is_primary_owner, i.e. through the registry *)
Definition rule_matches (st : state) (rl : rule) (c r : N) (m : msg) : bool :=
  r_eaves rl &&
  (match r_type rl with None => true | Some t => mtype_eqb t (m_type m) end) &&
  (match r_sender rl with None => true | Some d => match resolve st d with Some x => x =? c | None => false end end) &&
  (match r_dest rl with None => true | Some d => match resolve st d with Some x => x =? r | None => false end end).

(* get_recipients_from_list with bus_connection_mark_stamp: [seen] are the connections already stamped *)
Fixpoint eav_list (st : state) (rules : list (N * rule)) (c r : N) (m : msg) (seen : list N) : list N :=
  match rules with
  | [] => []
  | (o, rl) :: rest =>
      if rule_matches st rl c r m && negb (existsb (N.eqb o) seen) then o :: eav_list st rest c r m (o :: seen)
      else eav_list st rest c r m seen
  end.

(* bus_matchmaker_get_recipients: the addressed recipient is stamped first ("already receiving the message") *)
Definition eavesdroppers (st : state) (c r : N) (m : msg) : list N := eav_list st (st_rules st) c r m [r].

(* send_one_message: bus_context_check_security_policy with proposed <> addressed recipient (requested_reply = FALSE, no
   table access), silently dropped when refused: the restrictive policy has no eavesdrop="true" rule; fd capability *)
Definition eav_out (cf : cfg) (st : state) (c r : N) (m : msg) : out :=
  map (fun e => (e, OEav c m))
      (filter (fun e => negb (restrictive cf) && negb ((0 <? m_nfds m) && negb (conn_fds st e)) && negb (is_full st e)) (eavesdroppers st c r m)).

(* a method call to the bus driver is unicast as well: bus_dispatch hands it to bus_driver_handle_message and then runs
   bus_dispatch_matches with addressed_recipient = NULL.  A rule with a destination key would have to name
   org.freedesktop.DBus (not expressible in [rule]); a rule without one matches only if its owner wants to eavesdrop
   (the message HAS a DESTINATION field, so it is not a broadcast). *)
Definition drv_rule_matches (st : state) (rl : rule) (c : N) : bool :=
  r_eaves rl &&
  (match r_type rl with None => true | Some t => mtype_eqb t TCall end) &&
  (match r_sender rl with None => true | Some d => match resolve st d with Some x => x =? c | None => false end end) &&
  (match r_dest rl with None => true | Some _ => false end).

Fixpoint drv_eav_list (st : state) (rules : list (N * rule)) (c : N) (seen : list N) : list N :=
  match rules with
  | [] => []
  | (o, rl) :: rest =>
      if drv_rule_matches st rl c && negb (existsb (N.eqb o) seen) then o :: drv_eav_list st rest c (o :: seen)
      else drv_eav_list st rest c seen
  end.

(* nobody is the addressed recipient: nothing is stamped beforehand (the caller itself may hold a rule) *)
Definition drv_eavesdroppers (st : state) (c : N) : list N := drv_eav_list st (st_rules st) c [].

Definition drv_copies (cf : cfg) (st : state) (c s : N) : out :=
  map (fun e => (e, OCall c s))
      (filter (fun e => negb (restrictive cf) && negb (is_full st e)) (drv_eavesdroppers st c)).

(* ---------------------------------------------------------------- steps *)
Definition set_pend (st : state) (pl : list pend) : state :=
  mkState (st_conns st) (st_next st) (st_names st) pl (st_now st) (st_rules st) (st_full st) (st_held st) (st_zombie st).
Definition set_names (st : state) (nm : list (N * list owner)) : state :=
  mkState (st_conns st) (st_next st) nm (st_pend st) (st_now st) (st_rules st) (st_full st) (st_held st) (st_zombie st).

(* bus_dispatch, "route to named service" branch, then bus_dispatch_matches and the out: label *)
(* names for which a .service file is configured (test universe: t.N8 and t.N9 in every generated configuration) *)
Definition activatable (n : N) : bool := (8 <=? n) && (n <=? 9).

Fixpoint held_for (h : list (N * list (N * msg))) (n : N) : list (N * msg) :=
  match h with [] => [] | (k, l) :: rest => if k =? n then l else held_for rest n end.
Definition set_held (h : list (N * list (N * msg))) (n : N) (l : list (N * msg)) : list (N * list (N * msg)) :=
  (match l with [] => [] | _ => [(n, l)] end) ++ filter (fun e => negb (fst e =? n)) h.
Definition with_held (st : state) (h : list (N * list (N * msg))) : state :=
  mkState (st_conns st) (st_next st) (st_names st) (st_pend st) (st_now st) (st_rules st) (st_full st) h (st_zombie st).

(* bus_dispatch_matches for the addressed recipient r (and the error reply of the caller's out: label / of
   bus_activation_send_pending_auto_activation_messages): fd capability, gate, send, match-rule recipients *)
Definition deliver (cf : cfg) (st : state) (c r : N) (m : msg) : state * out :=
    (* fd capability first: the gate below updates the pending-reply table, which must only happen for messages that
       are going to be delivered (order since the fix for finding F7) *)
    if (0 <? m_nfds m) && negb (conn_fds st r) then (st, [(c, OErr ENotSupported (m_serial m))])
    else
    let '(pl, res) := check_security_policy cf (st_now st) (st_pend st) c r m (is_full st r) in
    let st' := set_pend st pl in
    match res with
    | Some e => (st', [(c, OErr e (m_serial m))])
    | None => (st', (r, OFwd c m) :: eav_out cf st c r m)
    end.

(* bus_dispatch, service == NULL: bus_activation_activate_service for an auto-start message to a name with a service file
   (first-pass policy check with no recipient, then the message is HELD in the pending activation), else the errors *)
Definition no_owner (cf : cfg) (st : state) (c : N) (m : msg) : state * out :=
  match m_dest m with
  | DName n =>
      if negb (m_noauto m) && activatable n then
        (if can_send cf m false && negb (unknown_type m) then (with_held st (set_held (st_held st) n (held_for (st_held st) n ++ [(c, m)])), [])
         else (st, [(c, OErr EAccessDenied (m_serial m))]))
      else (st, [(c, OErr (if m_noauto m then ENameHasNoOwner else EServiceUnknown) (m_serial m))])
  | DUnique _ => (st, [(c, OErr (if m_noauto m then ENameHasNoOwner else EServiceUnknown) (m_serial m))])
  end.

(* bus_dispatch, "route to named service" branch, then bus_dispatch_matches and the out: label *)
Definition dispatch (cf : cfg) (st : state) (c : N) (m : msg) : state * out :=
  match resolve st (m_dest m) with
  | None => no_owner cf st c m
  | Some r => deliver cf st c r m
  end.

(* bus_activation_send_pending_auto_activation_messages: the held entries, oldest first, resume at bus_dispatch_matches
   towards the new primary owner; an error goes back to the entry's sender only *)
Fixpoint release_held (cf : cfg) (st : state) (l : list (N * msg)) (r : N) : state * out :=
  match l with
  | [] => (st, [])
  | (c, m) :: l' => let '(st1, o1) := deliver cf st c r m in
                    let '(st2, o2) := release_held cf st1 l' r in (st2, o1 ++ o2)
  end.

Definition release_name (cf : cfg) (st : state) (n : N) : state * out :=
  match held_for (st_held st) n, lookup (st_names st) n with
  | (_ :: _) as l, Some (ow :: _) => release_held cf (with_held st (set_held (st_held st) n [])) l (o_conn ow)
  | _, _ => (st, [])
  end.

Definition disconnect (cf : cfg) (st : state) (c : N) : state * out :=
  let conns := filter (fun x => negb (c_id x =? c)) (st_conns st) in
  let '(pl, o) := expire_pass cf (st_now st) (drop_pending (st_pend st) c) in
  (mkState conns (st_next st) (names_drop (st_names st) c) pl (st_now st) (filter (fun x => negb (fst x =? c)) (st_rules st))
           (filter (fun x => negb (x =? c)) (st_full st))
           (map (fun e => (fst e, filter (fun x => negb (fst x =? c)) (snd e))) (st_held st))
           (filter (fun x => negb (x =? c)) (st_zombie st)), o).

Definition tick (cf : cfg) (st : state) (d : N) : state * out :=
  let now := st_now st + d in
  let '(pl, o) := expire_pass cf now (st_pend st) in
  (mkState (st_conns st) (st_next st) (st_names st) pl now (st_rules st) (st_full st) (st_held st) (st_zombie st), o).

(* an event is well-formed when its actor is connected, serials are non-zero and fds are only sent by
   connections that negotiated them; other events are not expressible on a socket and are no-ops here *)
Definition wf_event (st : state) (e : event) : bool :=
  match e with
  | EConnect _ => true
  | ESend c m => connected st c && negb (m_serial m =? 0) && ((m_nfds m =? 0) || conn_fds st c) && negb (is_full st c) && negb (is_zombie st c)
  | EDisconnect c => connected st c
  | ETick _ => true
  | ERequestName c s _ _ _ _ => connected st c && negb (s =? 0) && negb (is_full st c)
  | EReleaseName c s _ => connected st c && negb (s =? 0) && negb (is_full st c)
  | EAddMatch c s _ => connected st c && negb (s =? 0) && negb (is_full st c)
  (* modelling restriction: a connection is only stalled while it has no call open, and a stalled connection writes nothing
     (then the bus never has an error, a NoReply or a driver reply for it, which it would silently drop) *)
  | EBlock c => connected st c && negb (is_full st c) && forallb (fun p => negb (p_get p =? c)) (st_pend st)
                && forallb (fun e => forallb (fun x => negb (fst x =? c)) (snd e)) (st_held st)
  | EDrain c => connected st c && is_full st c
  | EHangup c => connected st c && negb (is_zombie st c)
  | EDriverCall c s => connected st c && negb (s =? 0) && negb (is_full st c) && negb (is_zombie st c)
  end.

Definition step (cf : cfg) (st : state) (e : event) : state * out :=
  if negb (wf_event st e) then (st, []) else
  match e with
  | EConnect fds =>
      (mkState (st_conns st ++ [mkConn (st_next st) fds]) (st_next st + 1) (st_names st) (st_pend st) (st_now st) (st_rules st) (st_full st) (st_held st) (st_zombie st), [])
  | ESend c m => dispatch cf st c m
  | EDisconnect c => disconnect cf st c
  | ETick d => tick cf st d
  | ERequestName c s n allow replace dnq =>
      let q := match lookup (st_names st) n with Some q => q | None => [] end in
      let '(q', code) := acquire q c allow replace dnq in
      let '(st2, o) := release_name cf (set_names st (set_queue (st_names st) n q')) n in
      (st2, o ++ [(c, ODrv s code)] ++ drv_copies cf st2 c s)    (* held messages are queued before the RequestName reply;
                                                                    the copies of the call itself come last *)
  | EReleaseName c s n =>
      let '(nm, code) := release (st_names st) c n in
      (set_names st nm, [(c, ODrv s code)] ++ drv_copies cf (set_names st nm) c s)
  | EAddMatch c s rl =>          (* bus_driver_handle_add_match: the rule is stored, empty method return *)
      (mkState (st_conns st) (st_next st) (st_names st) (st_pend st) (st_now st) (st_rules st ++ [(c, rl)]) (st_full st) (st_held st) (st_zombie st),
       [(c, ODrv s 0)] ++ drv_copies cf (mkState (st_conns st) (st_next st) (st_names st) (st_pend st) (st_now st) (st_rules st ++ [(c, rl)]) (st_full st) (st_held st) (st_zombie st)) c s)
  | EDriverCall c s => (st, [(c, ODrv s 0)] ++ drv_copies cf st c s)
  | EBlock c =>
      (mkState (st_conns st) (st_next st) (st_names st) (st_pend st) (st_now st) (st_rules st) (c :: st_full st) (st_held st) (st_zombie st), [])
  | EDrain c =>
      (mkState (st_conns st) (st_next st) (st_names st) (st_pend st) (st_now st) (st_rules st) (filter (fun x => negb (x =? c)) (st_full st)) (st_held st) (st_zombie st), [])
  | EHangup c =>         (* _dbus_transport_disconnect: nothing the routing code looks at changes *)
      (mkState (st_conns st) (st_next st) (st_names st) (st_pend st) (st_now st) (st_rules st) (st_full st) (st_held st) (c :: st_zombie st), [])
  end.

(* a run: the trace lists (event, output) pairs, OLDEST LAST (head = most recent step) *)
Definition trace := list (event * out).

Fixpoint run (cf : cfg) (st : state) (h : list event) (acc : trace) : state * trace :=
  match h with
  | [] => (st, acc)
  | e :: h' => let '(st', o) := step cf st e in run cf st' h' ((e, o) :: acc)
  end.
