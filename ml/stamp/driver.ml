(* Trusted glue for the stamp package (C03): parses one history per line, runs the
   extracted model step by step, prints one canonical token per event.

   hist <max_completed> <activatable names: hex,hex,... | -> <event>*
     C.<c>            connect          D.<c>   disconnect
     S.<c>.<hex>      client c writes the message <hex> (one complete valid message)
     A.<hex name>.<hex error name>   the process started for <name> failed
   result, one token per event:
     "!" ill-formed event, "?invalid" message does not decode, "F.<fault>" (stops the run), or
     items joined by "+":  c<c>  g<c>  i<c>:<hex name>  e<origin>/<scope>/<hex message>
       origin: c<c> | d | l       scope: r<c>:<addressee: client | - nobody | ? not a unique name> | m | t<c> | b | s<c> | x<c> | k<c> (kept message released); for a big-endian message addressed to the driver a
       second hex string follows: the same message converted to little endian
   (TRecv items are not printed.)
   mint <major> <minor> <hex name>*   ->  "<hex name> <major> <minor>" | "fault.<kind>"
   stamp <hex name> <hex message>     ->  <hex of the stamped message> | "invalid" *)
open Model_stamp

let rec pos_of_int (i : int) : positive =
  if i = 1 then XH else if i land 1 = 0 then XO (pos_of_int (i lsr 1)) else XI (pos_of_int (i lsr 1))
let n_of_int (i : int) : n = if i = 0 then N0 else Npos (pos_of_int i)
let rec int_of_pos = function XH -> 1 | XO p -> 2 * int_of_pos p | XI p -> 2 * int_of_pos p + 1
let int_of_n = function N0 -> 0 | Npos p -> int_of_pos p
let int_of_z = function Z0 -> 0 | Zpos p -> int_of_pos p | Zneg p -> - (int_of_pos p)
let z_of_int i = if i = 0 then Z0 else if i > 0 then Zpos (pos_of_int i) else Zneg (pos_of_int (-i))
let rec nat_of_int i = if i <= 0 then O else S (nat_of_int (i - 1))

let bytes_of_hex (h : string) : n list =
  let h = if h = "-" then "" else h in
  let l = String.length h / 2 in
  List.init l (fun i -> n_of_int (int_of_string ("0x" ^ String.sub h (2 * i) 2)))
let hex_of_bytes (l : n list) : string =
  if l = [] then "-" else String.concat "" (List.map (fun b -> Printf.sprintf "%02x" (int_of_n b)) l)

let split_ws s = List.filter (fun x -> x <> "") (String.split_on_char ' ' s)
let handlers : (string, string list -> string) Hashtbl.t = Hashtbl.create 16
let reg name f = Hashtbl.replace handlers name f

let ni s = n_of_int (int_of_string s)

let fault_name = function FOverflow -> "overflow" | FAssert -> "assert" | FFuel -> "fuel"

let parse_event (tok : string) : event option =
  match String.split_on_char '.' tok with
  | ["C"; c] -> Some (EConnect (ni c))
  | ["D"; c] -> Some (EDisconnect (ni c))
  | ["A"; nm; en] -> Some (EActFail (bytes_of_hex nm, bytes_of_hex en))
  | ["S"; c; h] ->
      (match spec_decode_message (bytes_of_hex h) with
       | Some (m, total) when int_of_n total = String.length h / 2 -> Some (ESend (ni c, m))
       | _ -> None)
  | _ -> failwith ("event " ^ tok)

let show_origin = function OClient c -> "c" ^ string_of_int (int_of_n c) | ODriver -> "d" | OLocal -> "l"
let show_scope = function
  | SRouted (c, a) -> "r" ^ string_of_int (int_of_n c) ^ (match a with AUnknown -> ":?" | ANobody -> ":-" | ATo r -> ":" ^ string_of_int (int_of_n r))
  | SMonitors -> "m" | STo c -> "t" ^ string_of_int (int_of_n c)
  | SBroadcast -> "b" | SSelf c -> "s" ^ string_of_int (int_of_n c) | SMatches c -> "x" ^ string_of_int (int_of_n c)
  | SReleased c -> "k" ^ string_of_int (int_of_n c)

let show_item = function
  | TConn c -> Some ("c" ^ string_of_int (int_of_n c))
  | TGone c -> Some ("g" ^ string_of_int (int_of_n c))
  | TIssue (c, nm) -> Some ("i" ^ string_of_int (int_of_n c) ^ ":" ^ hex_of_bytes nm)
  | TEmit (o, s, m) ->
      (* a message for the driver in the other byte order may have been converted in place by the driver *)
      let alt = (match o, str_field m (n_of_int 6) with
                 | OClient _, Some d when d = drv_name && not m.s_le -> "/" ^ hex_of_bytes (spec_encode_message (swap_order m))
                 | _ -> "") in
      Some ("e" ^ show_origin o ^ "/" ^ show_scope s ^ "/" ^ hex_of_bytes (spec_encode_message m) ^ alt)
  | TRecv (_, _) -> None

let () =
  reg "hist" (fun (maxc :: acts :: evs) ->
    let maxc = ni maxc in
    let acts = if acts = "-" then [] else List.map bytes_of_hex (String.split_on_char ',' acts) in
    let b = ref bus0 in
    let stopped = ref false in
    String.concat " " (List.map (fun tok ->
      if !stopped then "x" else
      match parse_event tok with
      | None -> "?invalid"
      | Some e ->
          (match x_step maxc acts !b e with
           | Ill -> "!"
           | Fault f -> stopped := true; "F." ^ fault_name f
           | Ok (b', tr) ->
               b := b';
               let toks = List.filter_map show_item tr in
               if toks = [] then "-" else String.concat "+" toks)) evs));
  reg "mint" (fun (mj :: mn :: names) ->
    let regl = List.map bytes_of_hex names in
    match mint (nat_of_int (List.length regl + 1)) regl (z_of_int (int_of_string mj)) (z_of_int (int_of_string mn)) with
    | Inl f -> "fault." ^ fault_name f
    | Inr ((nm, a), b) -> Printf.sprintf "%s %d %d" (hex_of_bytes nm) (int_of_z a) (int_of_z b));
  reg "stamp" (fun [nm; h] ->
    match spec_decode_message (bytes_of_hex h) with
    | Some (m, total) when int_of_n total = String.length h / 2 -> hex_of_bytes (spec_encode_message (stamp (bytes_of_hex nm) m))
    | _ -> "invalid")
