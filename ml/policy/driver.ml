(* Trusted glue for the policy package (C06): reads one case per line, runs the
   extracted Coq model / specification oracle, prints one canonical result line.

   scn  N u|g <name hex> <id> ; ... ; T ; <tree items> ; X ; <ops>       end-to-end scenario
        tree items: see parse_items below (P/R, I, D ... E, nested { })
        C <uid> <gid,gid,..|-> <at_console 0|1> <user-database groups|~> <hello serial>
        M <conn> <type> <no_reply 0|1> <serial> <reply_serial> <nfds> <path> <iface> <member> <error> <dest> <arg>
          (header fields: hex, "-" empty, "~" absent)
        W ; <tree items> ; X            the configuration files are rewritten (takes effect at the next ReloadConfig)
     -> CFGERR  |  per op: deliveries "conn:tag,conn:tag" (sorted; "." if none) joined by " | "; FAULT<n> ends the run;
        " ## " the same with the optimiser test frozen as in 1.13.18, " ## " the documented semantics, " ## D4=<0|1>"
   dec  <item> ; ...                  decision level
        r <s|r|o> <allow> <mtype> <path> <iface> <member> <error> <name> <maxfds> <minfds> <eav> <rr> <log> <bcast 0|1|2> <prefix>
        g <name hex> <conn,conn,..>                          registry entry
        q <type> <path> <iface> <member> <error> <dest> <sender> <reply_serial> <nfds> <requested 0|1> <eavesdropping 0|1>
          <receiver ~|n> <sender conn ~|n> <own name hex>
     -> S <raw><opt><fix><f3> <8 spec bits> R <raw><opt><fix><f3> <8 spec bits> O <raw><opt><fix><f3> <spec> L <len raw> <len opt> <len fix> W <all wf>
*)
open Model_policy

let rec pos_of_int (i : int) : positive =
  if i = 1 then XH else if i land 1 = 0 then XO (pos_of_int (i lsr 1)) else XI (pos_of_int (i lsr 1))
let n_of_int (i : int) : n = if i = 0 then N0 else Npos (pos_of_int i)
let rec int_of_pos = function XH -> 1 | XO p -> 2 * int_of_pos p | XI p -> 2 * int_of_pos p + 1
let int_of_n = function N0 -> 0 | Npos p -> int_of_pos p
let z_of_int i = if i = 0 then Z0 else if i > 0 then Zpos (pos_of_int i) else Zneg (pos_of_int (-i))

let bytes_of_hex (h : string) : n list =
  let h = if h = "-" then "" else h in
  let l = String.length h / 2 in
  List.init l (fun i -> n_of_int (int_of_string ("0x" ^ String.sub h (2 * i) 2)))
let string_of_bytes (l : n list) : string = String.concat "" (List.map (fun b -> String.make 1 (Char.chr (int_of_n b land 255))) l)
let hex_of_bytes (l : n list) : string =
  if l = [] then "-" else String.concat "" (List.map (fun b -> Printf.sprintf "%02x" (int_of_n b)) l)
let opt_hex (h : string) : n list option = if h = "~" then None else Some (bytes_of_hex h)
let opt_n (s : string) : n option = if s = "~" then None else Some (n_of_int (int_of_string s))
let b2s b = if b then "1" else "0"
let bool_of s = s = "1"
let split_ws s = List.filter (fun x -> x <> "") (String.split_on_char ' ' s)
let split_items (toks : string list) : string list list =
  let rec go cur acc = function
    | [] -> List.rev (if cur = [] then acc else List.rev cur :: acc)
    | ";" :: t -> go [] (if cur = [] then acc else List.rev cur :: acc) t
    | x :: t -> go (x :: cur) acc t in
  go [] [] toks

let handlers : (string, string list -> string) Hashtbl.t = Hashtbl.create 16
let reg name f = Hashtbl.replace handlers name f

let empty_attrs = { a_send_interface = None; a_send_member = None; a_send_error = None; a_send_destination = None;
  a_send_destination_prefix = None; a_send_path = None; a_send_type = None; a_send_broadcast = None; a_receive_interface = None;
  a_receive_member = None; a_receive_error = None; a_receive_sender = None; a_receive_path = None; a_receive_type = None;
  a_eavesdrop = None; a_max_fds = None; a_min_fds = None; a_send_requested_reply = None; a_receive_requested_reply = None;
  a_own = None; a_own_prefix = None; a_user = None; a_group = None; a_log = None }

exception Bad of string

let set_attr (a : attrs) (kv : string) : attrs =
  let i = try String.index kv '=' with Not_found -> raise (Bad kv) in
  let k = String.sub kv 0 i and v = String.sub kv (i + 1) (String.length kv - i - 1) in
  let b () = Some (bytes_of_hex v) in
  match k with
  | "send_interface" -> { a with a_send_interface = b () } | "send_member" -> { a with a_send_member = b () }
  | "send_error" -> { a with a_send_error = b () } | "send_destination" -> { a with a_send_destination = b () }
  | "send_destination_prefix" -> { a with a_send_destination_prefix = b () } | "send_path" -> { a with a_send_path = b () }
  | "send_type" -> { a with a_send_type = b () } | "send_broadcast" -> { a with a_send_broadcast = b () }
  | "receive_interface" -> { a with a_receive_interface = b () } | "receive_member" -> { a with a_receive_member = b () }
  | "receive_error" -> { a with a_receive_error = b () } | "receive_sender" -> { a with a_receive_sender = b () }
  | "receive_path" -> { a with a_receive_path = b () } | "receive_type" -> { a with a_receive_type = b () }
  | "eavesdrop" -> { a with a_eavesdrop = b () }
  | "max_fds" -> { a with a_max_fds = Some (z_of_int (int_of_string v)) } | "min_fds" -> { a with a_min_fds = Some (z_of_int (int_of_string v)) }
  | "send_requested_reply" -> { a with a_send_requested_reply = b () } | "receive_requested_reply" -> { a with a_receive_requested_reply = b () }
  | "own" -> { a with a_own = b () } | "own_prefix" -> { a with a_own_prefix = b () }
  | "user" -> { a with a_user = b () } | "group" -> { a with a_group = b () } | "log" -> { a with a_log = b () }
  | _ -> raise (Bad kv)

let ctx_of (s : string) : pctx =
  match s with
  | "d" -> CDefault | "m" -> CMandatory | "ct" -> CConsole true | "cf" -> CConsole false | "i" -> CIgnored
  | _ when s.[0] = 'u' -> CUser (n_of_int (int_of_string (String.sub s 1 (String.length s - 1))))
  | _ when s.[0] = 'g' -> CGroup (n_of_int (int_of_string (String.sub s 1 (String.length s - 1))))
  | _ -> raise (Bad s)

let tag_of (w : what) : string =
  match w with
  | WProbe -> "P"
  | WError nm -> "E=" ^ string_of_bytes nm
  | WReturn None -> "R"
  | WReturn (Some v) -> "R=" ^ string_of_int (int_of_n v)
  | WSignal (mem, arg) -> "S=" ^ string_of_bytes mem ^ "=" ^ string_of_bytes arg
  | WRefused -> "REFUSED"

let show_deliveries (l : delivery list) : string =
  if l = [] then "." else
  String.concat "," (List.sort compare (List.map (fun (c, w) -> Printf.sprintf "%d:%s" (int_of_n c) (tag_of w)) l))

let msg_of ty nr serial rs nfds path iface member error dest sender =
  { m_type = n_of_int (int_of_string ty); m_path = opt_hex path; m_iface = opt_hex iface; m_member = opt_hex member;
    m_error = opt_hex error; m_dest = opt_hex dest; m_sender = sender; m_reply_serial = n_of_int (int_of_string rs);
    m_nfds = n_of_int (int_of_string nfds); m_serial = n_of_int (int_of_string serial); m_no_reply = bool_of nr }

(* ---- configuration trees.  Items (";"-separated):
     P <ctx> / R ...                 a <policy> element and its rules
     I <0|1> missing|broken|circular an <include ignore_missing=...> whose target is absent / unparsable / on the inclusion stack
     I <0|1> {  ...items...  }       an <include> of a file with these items
     D  F <conf 0|1> missing|broken|circular | F <conf> { ... } ...  E      an <includedir>, entries in directory order
   a tree ends at X (top level) or } (nested) *)
let rec parse_items (items : string list list) : cfg_items * string list list =
  match items with
  | [] -> (INil, [])
  | ["X"] :: rest -> (INil, rest)
  | ["}"] :: rest -> (INil, rest)
  | ["P"; c] :: rest ->
      let rec rules acc = function
        | ("R" :: v :: kvs) :: r -> rules ((v = "a", List.fold_left set_attr empty_attrs kvs) :: acc) r
        | r -> (List.rev acc, r) in
      let (els, rest') = rules [] rest in
      let (tl, rest'') = parse_items rest' in
      (ICons (IPolicy (ctx_of c, els), tl), rest'')
  | ["I"; im; tgt] :: rest ->
      let (t, rest') = parse_target tgt rest in
      let (tl, rest'') = parse_items rest' in
      (ICons (IInclude (bool_of im, t), tl), rest'')
  | ["D"] :: rest ->
      let (fs, rest') = parse_dir rest in
      let (tl, rest'') = parse_items rest' in
      (ICons (IIncludeDir fs, tl), rest'')
  | it :: _ -> raise (Bad ("tree item: " ^ String.concat " " it))
and parse_target (tgt : string) (rest : string list list) : inc_target * string list list =
  match tgt with
  | "missing" -> (TMissing, rest) | "broken" -> (TBroken, rest) | "circular" -> (TCircular, rest)
  | "{" -> let (its, rest') = parse_items rest in (TFile its, rest')
  | _ -> raise (Bad ("target " ^ tgt))
and parse_dir (items : string list list) : dir_entries * string list list =
  match items with
  | ["E"] :: rest -> (DNil, rest)
  | ["F"; conf; tgt] :: rest ->
      let (t, rest') = parse_target tgt rest in
      let (tl, rest'') = parse_dir rest' in
      (DCons (bool_of conf, t, tl), rest'')
  | _ -> raise (Bad "dir entry")

let ns_of s = if s = "~" || s = "-" then [] else List.map (fun x -> n_of_int (int_of_string x)) (String.split_on_char ',' s)

let scn (toks : string list) : string =
  let items = split_items toks in
  (* name declarations first: N u|g <name hex> <id> *)
  let users = ref [] and groups = ref [] in
  let rec decls = function
    | ["N"; "u"; nm; id] :: r -> users := (bytes_of_hex nm, n_of_int (int_of_string id)) :: !users; decls r
    | ["N"; "g"; nm; id] :: r -> groups := (bytes_of_hex nm, n_of_int (int_of_string id)) :: !groups; decls r
    | r -> r in
  let items = decls items in
  let ru nm = List.assoc_opt nm !users and rg nm = List.assoc_opt nm !groups in
  let (tree, items) = (match items with ["T"] :: r -> parse_items r | _ -> raise (Bad "T expected")) in
  let d4 = ref false in
  let note_d4 t = (match denote ru rg true t, denote ru rg false t with
                   | DFatal a, DFatal b -> if a <> b then d4 := true
                   | DOk a, DOk b -> if a <> b then d4 := true
                   | _, _ -> d4 := true) in
  note_d4 tree;
  let rec ops_of items acc =
    match items with
    | [] -> List.rev acc
    | ["C"; uid; gids; atc; dbg; hs] :: r ->
        ops_of r (OConnect (n_of_int (int_of_string uid), ns_of gids, bool_of atc, (if dbg = "~" then None else Some (ns_of dbg)), n_of_int (int_of_string hs)) :: acc)
    | ["M"; s; ty; nr; serial; rs; nfds; path; iface; member; error; dest; arg] :: r ->
        ops_of r (OSend (n_of_int (int_of_string s), msg_of ty nr serial rs nfds path iface member error dest None, bytes_of_hex arg) :: acc)
    | ["W"] :: r -> let (t, r') = parse_items r in note_d4 t; ops_of r' (OWrite t :: acc)
    | it :: _ -> raise (Bad (String.concat " " it)) in
  let ops = ops_of items [] in
  let run_env (e : env) : string =
    match bus_start e tree with
    | None -> "CFGERR"
    | Some b0 ->
        let rec go b ops acc =
          match ops with
          | [] -> List.rev acc
          | o :: t -> (match step_with e b o with
                       | Fault k -> List.rev (("FAULT" ^ string_of_int (int_of_n k)) :: acc)
                       | Done (b1, out) -> go b1 t (show_deliveries out :: acc)) in
        String.concat " | " (go b0 ops []) in
  let env_of mk = { e_mk = mk; e_ru = ru; e_rg = rg; e_owner = N0 } in
  (* the daemon's behaviour; the same with the optimiser test frozen as in dbus 1.13.18 (known finding F3); the documented
     semantics (connections keep the unpruned rule list); whether the literal reading of ignore_missing differs (D4) *)
  run_env (env_of create_client_policy) ^ " ## " ^
  run_env (env_of (fun p u g a -> optimize_with f3_condition (client_rules p u g a))) ^ " ## " ^
  run_env (env_of client_rules) ^ " ## D4=" ^ b2s !d4

(* cfg  N u|g <name hex> <id> ; ... ; T ; <tree items> ; X ; u <uid> <user-database groups|~> ; ... ; o <name hex> ; ...
   -> model:  ERR <error name> | OK a=<allow_unix_user per u> o=<check_can_own on the default rules per o>
      then " ## " the specification: the same from [denote] (textual inclusion), [spec_admit], [spec_can_own]; then " ## D4=<0|1>" *)
let cfg (toks : string list) : string =
  let items = split_items toks in
  let users = ref [] and groups = ref [] in
  let rec decls = function
    | ["N"; "u"; nm; id] :: r -> users := (bytes_of_hex nm, n_of_int (int_of_string id)) :: !users; decls r
    | ["N"; "g"; nm; id] :: r -> groups := (bytes_of_hex nm, n_of_int (int_of_string id)) :: !groups; decls r
    | r -> r in
  let items = decls items in
  let ru nm = List.assoc_opt nm !users and rg nm = List.assoc_opt nm !groups in
  let (tree, items) = (match items with ["T"] :: r -> parse_items r | _ -> raise (Bad "T expected")) in
  let us = List.filter_map (function ["u"; uid; dbg] -> Some (n_of_int (int_of_string uid), (if dbg = "~" then None else Some (ns_of dbg))) | _ -> None) items in
  let os = List.filter_map (function ["o"; nm] -> Some (bytes_of_hex nm) | _ -> None) items in
  let errname a = if a then "org.freedesktop.DBus.Error.FileNotFound" else "org.freedesktop.DBus.Error.Failed" in
  let model =
    match load_config ru rg tree with
    | LErr a -> "ERR " ^ errname a
    | LOk p ->
        "OK a=" ^ String.concat "" (List.map (fun (u, dbg) -> b2s (allow_unix_user p (u = N0) u dbg)) us) ^
        " o=" ^ String.concat "" (List.map (fun nm -> match check_can_own p.p_default nm with Some b -> b2s b | None -> "F") os) in
  let spec =
    match denote ru rg true tree with
    | DFatal a -> "ERR " ^ errname a
    | DOk c ->
        "OK a=" ^ String.concat "" (List.map (fun (u, dbg) -> b2s (spec_admit ru rg c (u = N0) u dbg)) us) ^
        " o=" ^ String.concat "" (List.map (fun nm -> b2s (spec_can_own (select (cfg_rules ru rg c) CDefault) nm)) os) in
  let d4 = (match denote ru rg true tree, denote ru rg false tree with
            | DFatal a, DFatal b -> a <> b | DOk a, DOk b -> a <> b | _, _ -> true) in
  model ^ " ## " ^ spec ^ " ## D4=" ^ b2s d4

let all_devs = List.init 8 (fun i -> { dv_reply_by_serial = i land 1 <> 0; dv_eavesdrop_lifts_reply = i land 2 <> 0;
                                        dv_send_ignores_eavesdrop = i land 4 <> 0 })

let dec (toks : string list) : string =
  let items = split_items toks in
  let rules = ref [] and regs = ref [] and q = ref None in
  List.iter (fun it -> match it with
    | ["r"; k; allow; mt; path; iface; member; error; name; maxf; minf; eav; rr; lg; bc; pf] ->
        rules := { r_kind = (match k with "s" -> KSend | "r" -> KRecv | "o" -> KOwn | _ -> raise (Bad k)); r_allow = bool_of allow;
                   r_mtype = n_of_int (int_of_string mt); r_path = opt_hex path; r_iface = opt_hex iface; r_member = opt_hex member;
                   r_error = opt_hex error; r_name = opt_hex name; r_max_fds = n_of_int (int_of_string maxf);
                   r_min_fds = n_of_int (int_of_string minf); r_eavesdrop = bool_of eav; r_reqreply = bool_of rr; r_log = bool_of lg;
                   r_broadcast = (match bc with "0" -> TAny | "1" -> TFalse | "2" -> TTrue | _ -> raise (Bad bc)); r_prefix = bool_of pf } :: !rules
    | ["g"; name; qs] ->
        regs := (bytes_of_hex name, (if qs = "-" then [] else List.map (fun x -> n_of_int (int_of_string x)) (String.split_on_char ',' qs))) :: !regs
    | "q" :: rest -> q := Some rest
    | _ -> raise (Bad (String.concat " " it))) items;
  let rules = List.rev !rules and regy = List.rev !regs in
  match !q with
  | Some [ty; path; iface; member; error; dest; sender; rs; nfds; req; eav; recv; sconn; own] ->
      let m = msg_of ty "0" "1" rs nfds path iface member error dest (opt_hex sender) in
      let requested = bool_of req and eavesdropping = bool_of eav in
      let receiver = opt_n recv and sc = opt_n sconn in
      (* a proposed recipient different from the addressed one, with a destination, is what "eavesdropping" is in C *)
      let proposed = Some (n_of_int 1000001) in
      let addressed = if eavesdropping then Some (n_of_int 1000002) else proposed in
      let ownn = bytes_of_hex own in
      let lists = [rules; optimize rules; optimize_with universal rules; optimize_with f3_condition rules] in
      let s = String.concat "" (List.map (fun l -> b2s (check_can_send l requested receiver regy m)) lists) in
      let r = String.concat "" (List.map (fun l -> b2s (check_can_receive l regy requested sc addressed proposed m)) lists) in
      let o = String.concat "" (List.map (fun l -> match check_can_own l ownn with Some b -> b2s b | None -> "F") lists) in
      let sx = { sx_requested = requested; sx_eavesdropping = eavesdropping; sx_recipient = receiver; sx_reg = regy } in
      let rx = { rx_requested = requested; rx_eavesdropping = (eavesdropping && m.m_dest <> None); rx_sender = sc; rx_reg = regy } in
      let ss = String.concat "" (List.map (fun d -> b2s (spec_can_send d rules sx m)) all_devs) in
      let rs' = String.concat "" (List.map (fun d -> b2s (spec_can_receive d rules rx m)) all_devs) in
      Printf.sprintf "S %s %s R %s %s O %s %s L %d %d %d W %s" s ss r rs' o (b2s (spec_can_own rules ownn))
        (List.length rules) (List.length (optimize rules)) (List.length (optimize_with universal rules))
        (b2s (List.for_all rule_wf rules))
  | _ -> raise (Bad "q")

let () =
  reg "scn" (fun t -> try scn t with Bad s -> "?bad:" ^ s | Failure s -> "?bad:" ^ s);
  reg "dec" (fun t -> try dec t with Bad s -> "?bad:" ^ s | Failure s -> "?bad:" ^ s);
  reg "cfg" (fun t -> try cfg t with Bad s -> "?bad:" ^ s | Failure s -> "?bad:" ^ s);
  reg "optok" (fun _ -> b2s optimizer_condition_ok)
