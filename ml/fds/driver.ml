(* Trusted glue for the fds package (C15): parses one history per line, runs the
   extracted model step by step, prints one canonical token per step.

   hist <max_fds> <timeout ms> <policy min_fds | -1> <read cap> <event>*
     C<neg><listen>                       connect (two digits 0|1)
     W.<c>.<parts>.<fds>                  one sendmsg on c: parts joined by ',' ('-' = none), fds joined by ',' ('-' = none)
        part  H:<len>:<fixed_ok>:<valid>:<nfds>:<dest>:<denied>:<token>:<n>   first n bytes of a new message
              P:<n>                                                            next n bytes of the message in progress
        dest  d (driver) | u<k> (connection k) | m (missing name) | b (broadcast)
     D.<c>   c closes its socket          T.<d>   d ms pass
   result per step:  <outputs>/<connections the bus closed>/<descriptors held>   or "!" (ill-formed event, state unchanged)
                     or "!!" (a well-formed event set the fault flag: never expected, see C15_fuel_suffices)
     outputs joined by '+' ('-' = none):  <rcpt>:M.<from>.<token>.<fds ','-joined or '-'>   <rcpt>:E.<error>.<token>   <rcpt>:D.<token>
   write <can_fd> <header len> <body len> <fds> <cap>*: the transport write step (Fds/Write.v) for one message
   ledger <same arguments>: final received / closed (with reason) / kernel-dropped lists, for debugging *)
open Model_fds

let rec pos_of_int (i : int) : positive =
  if i = 1 then XH else if i land 1 = 0 then XO (pos_of_int (i lsr 1)) else XI (pos_of_int (i lsr 1))
let n_of_int (i : int) : n = if i = 0 then N0 else Npos (pos_of_int i)
let rec int_of_pos = function XH -> 1 | XO p -> 2 * int_of_pos p | XI p -> 2 * int_of_pos p + 1
let int_of_n = function N0 -> 0 | Npos p -> int_of_pos p

let split_ws s = List.filter (fun x -> x <> "") (String.split_on_char ' ' s)
let handlers : (string, string list -> string) Hashtbl.t = Hashtbl.create 16
let reg name f = Hashtbl.replace handlers name f

let ni s = n_of_int (int_of_string s)
let rec nat_of_int (i : int) : nat = if i <= 0 then O else S (nat_of_int (i - 1))
let b s = s = "1"
let list_of s = if s = "-" || s = "" then [] else String.split_on_char ',' s

let parse_dest (s : string) : dest =
  match s.[0] with
  | 'd' -> DDriver | 'm' -> DMissing | 'b' -> DBroadcast
  | 'u' -> DConn (ni (String.sub s 1 (String.length s - 1)))
  | _ -> failwith "dest"

let parse_part (s : string) : part =
  match String.split_on_char ':' s with
  | ["H"; len; fx; va; nf; d; den; tok; n] ->
      PHead ({ w_len = ni len; w_fixed_ok = b fx; w_valid = b va; w_nfds = ni nf; w_dest = parse_dest d;
               w_denied = b den; w_token = ni tok }, ni n)
  | ["P"; n] -> PCont (ni n)
  | _ -> failwith ("part " ^ s)

let parse_event (tok : string) : event =
  match String.split_on_char '.' tok with
  | [c] when String.length c = 3 && c.[0] = 'C' -> EConnect (c.[1] = '1', c.[2] = '1')
  | ["W"; c; ps; fds] -> EWrite (ni c, List.map parse_part (list_of ps), List.map ni (list_of fds))
  | ["D"; c] -> EDisconnect (ni c)
  | ["T"; d] -> ETick (ni d)
  | _ -> failwith ("event " ^ tok)

let err_name = function ENotSupported -> "NotSupported" | EAccessDenied -> "AccessDenied" | ENoDest -> "NoDest"
let show_fds (l : n list) = if l = [] then "-" else String.concat "," (List.map (fun f -> string_of_int (int_of_n f)) l)

let show_out (o : (n * omsg) list) : string =
  if o = [] then "-" else
  String.concat "+" (List.map (fun (r, m) ->
    string_of_int (int_of_n r) ^ ":" ^
    (match m with
     | OMsg (f, t, fds) -> Printf.sprintf "M.%d.%d.%s" (int_of_n f) (int_of_n t) (show_fds fds)
     | OErr (e, t) -> Printf.sprintf "E.%s.%d" (err_name e) (int_of_n t)
     | ODrv t -> Printf.sprintf "D.%d" (int_of_n t))) o)

let parse_cfg m t p c : cfg =
  { max_fds = ni m; fd_timeout = ni t; pol_min_fds = (let p = int_of_string p in if p < 0 then None else Some (n_of_int p));
    read_cap = ni c }

let run_hist (args : string list) : string =
  match args with
  | m :: t :: p :: c :: evs ->
      let cf = parse_cfg m t p c in
      let st = ref init in
      let outs = List.map (fun tok ->
        let e = parse_event tok in
        if not (wf_event !st e) then "!" else begin
          let before = live_ids !st in
          let (st', o) = step cf !st e in
          st := st';
          if st'.st_fault then "!!" else begin
            let after = live_ids st' in
            let gone = List.filter (fun x -> not (List.mem x after)) before in
            let gone = (match e with EDisconnect c -> List.filter (fun x -> x <> c) gone | _ -> gone) in
            Printf.sprintf "%s/%s/%d" (show_out o) (show_fds gone) (List.length (held st'))
          end
        end) evs in
      String.concat " " outs
  | _ -> "?bad-args"

let why_name = function
  | WDelivered -> "delivered" | WUndeliverable -> "undeliverable" | WDriver -> "driver" | WTruncated -> "truncated"
  | WConnClosed c -> "connclosed" ^ string_of_int (int_of_n c)

let run_ledger (args : string list) : string =
  match args with
  | m :: t :: p :: c :: evs ->
      let cf = parse_cfg m t p c in
      let st = run cf init (List.map parse_event evs) in
      let l = st.st_led in
      Printf.sprintf "recv=%s closed=%s kdrop=%s held=%s live=%s fault=%b"
        (String.concat "," (List.map (fun (c, f) -> Printf.sprintf "%d@%d" (int_of_n f) (int_of_n c)) l.g_recv))
        (String.concat "," (List.map (fun (f, w) -> Printf.sprintf "%d:%s" (int_of_n f) (why_name w)) l.g_closed))
        (show_fds l.g_kdrop) (show_fds (held st)) (show_fds (live_ids st)) st.st_fault
  | _ -> "?bad-args"

(* write <can_fd 0|1> <header len> <body len> <fds> <cap>* : do_writing for one message, one token per successful call *)
let run_write (args : string list) : string =
  match args with
  | can :: h :: bl :: fds :: caps ->
      let (calls, w) = do_writing (b can) (ni h) (ni bl) (List.map ni (list_of fds)) N0 (List.map ni caps) in
      String.concat " " (List.map (fun c ->
        Printf.sprintf "%s:%d:%s" (match c.wr_call with WFdsTwo -> "fds2" | WTwo -> "two" | WBody -> "body")
          (int_of_n c.wr_bytes) (show_fds c.wr_fds)) calls) ^ Printf.sprintf " written=%d wire=%s" (int_of_n w) (show_fds (wire_fds calls))
  | _ -> "?bad-args"

(* api <op>* : the message API model (Fds/MsgApi.v).  Application descriptors are named by their position in the list of
   descriptors the application has acquired so far (opens and successful get / get_args results, in order).
     O                         open (the k-th open denotes file k)
     N.<h>                     new message          F.<h>  ref          U.<h> / V.<h>  unref (V: the generator says it is the last reference)
     A.<h>.<app idx>.<dup ok>  append_basic (UNIX_FD)
     C.<h>.<h'>.<fail at|->    copy
     G.<h>.<idx>.<dup ok>      iter_get_basic of the idx-th descriptor
     R.<h>.<want>.<fail at|->.<mismatch>   get_args with `want` UNIX_FD arguments (+ one of a wrong type)
     X.<app idx>               the application closes it
   result per op: <result>/<descriptors held by messages>   result: file ids, 1/0, '-' (= -1 / failure), '.' (nothing) *)
let run_api (args : string list) : string =
  let st = ref linit in
  let app : n list ref = ref [] in
  let nopen = ref 0 in
  let file f = match file_of !st.ls_open f with Some x -> string_of_int (int_of_n x) | None -> "?" in
  let opt s = if s = "-" then None else Some (nat_of_int (int_of_string s)) in
  let outs = List.map (fun tok ->
    let ev, before =
      (match String.split_on_char '.' tok with
       | ["O"] -> incr nopen; LOpen (n_of_int !nopen), ""
       | ["N"; h] -> LNew (ni h), ""
       | ["F"; h] -> LRef (ni h), ""
       | ["U"; h] | ["V"; h] ->
           let pre = (match find_msg !st.ls_msgs (ni h) with
                      | Some m when int_of_n m.lm_refs <= 1 ->
                          if m.lm_fds = [] then "-" else String.concat "," (List.map file m.lm_fds)
                      | _ -> ".") in
           LUnref (ni h), pre
       | ["A"; h; i; ok] -> LAppend (ni h, List.nth !app (int_of_string i), b ok, true), ""
       | ["C"; h; h'; fa] -> LCopy (ni h, ni h', opt fa), ""
       | ["G"; h; i; ok] -> LGet (ni h, ni i, b ok), ""
       | ["R"; h; w; fa; mm] -> LGetArgs (ni h, nat_of_int (int_of_string w), opt fa, b mm), ""
       | ["X"; i] -> LAppClose (List.nth !app (int_of_string i)), ""
       | _ -> failwith ("op " ^ tok)) in
    let (st', r) = lstep !st ev in
    st := st';
    let res = (match ev, r with
      | LUnref _, _ -> before
      | _, RNone -> "."
      | _, RBool true -> "1" | _, RBool false -> "0"
      | LOpen _, RFd (Some f) -> app := !app @ [f]; "f" ^ file f
      | _, RFd (Some f) -> app := !app @ [f]; file f
      | _, RFd None -> "-"
      | _, RFds (Some l) -> app := !app @ l; if l = [] then "." else String.concat "," (List.map file l)
      | _, RFds None -> "-") in
    if st'.ls_fault then "!" else Printf.sprintf "%s/%d" res (List.length (lib_held st'))) args in
  String.concat " " outs

(* bytes <max_message_unix_fds> <max_message_size> <negotiated 0|1> <read cap> (W:<hex>:<fd ids> | D)* : the byte-level receive
   path (Fds/ByteLoader.v: the wire package's loader with the descriptor array, inside the transport's read loop), same
   input and same result vocabulary as harness/c/fds_h.c `run`:  <messages>/<x|->/<pending>  per event *)
let bytes_of_hex (h : string) : n list =
  if h = "-" then [] else List.init (String.length h / 2) (fun i -> n_of_int (int_of_string ("0x" ^ String.sub h (2 * i) 2)))

let run_bytes (args : string list) : string =
  match args with
  | mf :: ms :: neg :: cap :: evs ->
      let t = ref { t_b = bl_new (ni ms); t_recv = []; t_closed = []; t_kdrop = [] } in
      let dead = ref false in
      let outs = List.map (fun tok ->
        if !dead then "!/-/0" else
        match String.split_on_char ':' tok with
        | ["D"] -> dead := true; "-/-/0"
        | ["W"; hex; ids] ->
            let before = List.length (!t).t_b.b_att in
            let (t', st) = bread_write (ni mf) (ni cap) (b neg) !t (bytes_of_hex hex) (List.map ni (list_of ids)) in
            t := t';
            let msgs = t'.t_b.b_l.l_msgs and att = t'.t_b.b_att in
            let rec drop k l = if k = 0 then l else (match l with [] -> [] | _ :: r -> drop (k - 1) r) in
            let news = List.combine (drop before msgs) (drop before att) in
            let items = List.map (fun (m, f) ->
              let le = (match m.m_header with x :: _ -> int_of_n x = 108 | [] -> true) in
              Printf.sprintf "M.%d.%s" (int_of_n (u32_at le m.m_header (nat_of_int 8))) (show_fds f)) news in
            let ms = if items = [] then "-" else String.concat "+" items in
            (match st with
             | BEagain -> Printf.sprintf "%s/-/%d" ms (List.length t'.t_b.b_pool)
             | BIoError | BCorrupt -> dead := true; Printf.sprintf "%s/x/0" ms
             | BFault -> "!!")
        | _ -> failwith ("event " ^ tok)) evs in
      String.concat " " outs ^ " end/0"
  | _ -> "?bad-args"

let () =
  reg "bytes" run_bytes;
  reg "api" run_api;
  reg "write" run_write;
  reg "hist" run_hist;
  reg "ledger" run_ledger
