(* Trusted glue for the fds package (C15): parses one history per line, runs the
   extracted model step by step, prints one canonical token per step.

   hist <max_fds> <timeout ms> <policy min_fds | -1> <read cap> <event>*
     C<neg><listen>                       connect (two digits 0|1)
     W.<c>.<parts>.<fds>                  one sendmsg on c: parts joined by ',' ('-' = none), fds joined by ',' ('-' = none)
        part  H:<len>:<fixed_ok>:<valid>:<nfds>:<dest>:<denied>:<token>:<n>   first n bytes of a new message
              P:<n>                                                            next n bytes of the message in progress
        dest  d (driver) | u<k> (connection k) | m (missing name) | b (broadcast)
     D.<c>   c closes its socket          T.<d>   d ms pass
   result per step:  <outputs>/<connections the bus closed>/<descriptors held>   or "!" (ill-formed event, state unchanged)
                     or "!!" (a well-formed event set the fault flag: never expected, see C15_fuel_suffices)
     outputs joined by '+' ('-' = none):  <rcpt>:M.<from>.<token>.<fds ','-joined or '-'>   <rcpt>:E.<error>.<token>   <rcpt>:D.<token>
   write <can_fd> <header len> <body len> <fds> <cap>*: the transport write step (Fds/Write.v) for one message
   ledger <same arguments>: final received / closed (with reason) / kernel-dropped lists, for debugging *)
open Model_fds

let rec pos_of_int (i : int) : positive =
  if i = 1 then XH else if i land 1 = 0 then XO (pos_of_int (i lsr 1)) else XI (pos_of_int (i lsr 1))
let n_of_int (i : int) : n = if i = 0 then N0 else Npos (pos_of_int i)
let rec int_of_pos = function XH -> 1 | XO p -> 2 * int_of_pos p | XI p -> 2 * int_of_pos p + 1
let int_of_n = function N0 -> 0 | Npos p -> int_of_pos p

let split_ws s = List.filter (fun x -> x <> "") (String.split_on_char ' ' s)
let handlers : (string, string list -> string) Hashtbl.t = Hashtbl.create 16
let reg name f = Hashtbl.replace handlers name f

let ni s = n_of_int (int_of_string s)
let b s = s = "1"
let list_of s = if s = "-" || s = "" then [] else String.split_on_char ',' s

let parse_dest (s : string) : dest =
  match s.[0] with
  | 'd' -> DDriver | 'm' -> DMissing | 'b' -> DBroadcast
  | 'u' -> DConn (ni (String.sub s 1 (String.length s - 1)))
  | _ -> failwith "dest"

let parse_part (s : string) : part =
  match String.split_on_char ':' s with
  | ["H"; len; fx; va; nf; d; den; tok; n] ->
      PHead ({ w_len = ni len; w_fixed_ok = b fx; w_valid = b va; w_nfds = ni nf; w_dest = parse_dest d;
               w_denied = b den; w_token = ni tok }, ni n)
  | ["P"; n] -> PCont (ni n)
  | _ -> failwith ("part " ^ s)

let parse_event (tok : string) : event =
  match String.split_on_char '.' tok with
  | [c] when String.length c = 3 && c.[0] = 'C' -> EConnect (c.[1] = '1', c.[2] = '1')
  | ["W"; c; ps; fds] -> EWrite (ni c, List.map parse_part (list_of ps), List.map ni (list_of fds))
  | ["D"; c] -> EDisconnect (ni c)
  | ["T"; d] -> ETick (ni d)
  | _ -> failwith ("event " ^ tok)

let err_name = function ENotSupported -> "NotSupported" | EAccessDenied -> "AccessDenied" | ENoDest -> "NoDest"
let show_fds (l : n list) = if l = [] then "-" else String.concat "," (List.map (fun f -> string_of_int (int_of_n f)) l)

let show_out (o : (n * omsg) list) : string =
  if o = [] then "-" else
  String.concat "+" (List.map (fun (r, m) ->
    string_of_int (int_of_n r) ^ ":" ^
    (match m with
     | OMsg (f, t, fds) -> Printf.sprintf "M.%d.%d.%s" (int_of_n f) (int_of_n t) (show_fds fds)
     | OErr (e, t) -> Printf.sprintf "E.%s.%d" (err_name e) (int_of_n t)
     | ODrv t -> Printf.sprintf "D.%d" (int_of_n t))) o)

let parse_cfg m t p c : cfg =
  { max_fds = ni m; fd_timeout = ni t; pol_min_fds = (let p = int_of_string p in if p < 0 then None else Some (n_of_int p));
    read_cap = ni c }

let run_hist (args : string list) : string =
  match args with
  | m :: t :: p :: c :: evs ->
      let cf = parse_cfg m t p c in
      let st = ref init in
      let outs = List.map (fun tok ->
        let e = parse_event tok in
        if not (wf_event !st e) then "!" else begin
          let before = live_ids !st in
          let (st', o) = step cf !st e in
          st := st';
          if st'.st_fault then "!!" else begin
            let after = live_ids st' in
            let gone = List.filter (fun x -> not (List.mem x after)) before in
            let gone = (match e with EDisconnect c -> List.filter (fun x -> x <> c) gone | _ -> gone) in
            Printf.sprintf "%s/%s/%d" (show_out o) (show_fds gone) (List.length (held st'))
          end
        end) evs in
      String.concat " " outs
  | _ -> "?bad-args"

let why_name = function
  | WDelivered -> "delivered" | WUndeliverable -> "undeliverable" | WDriver -> "driver" | WTruncated -> "truncated"
  | WConnClosed c -> "connclosed" ^ string_of_int (int_of_n c)

let run_ledger (args : string list) : string =
  match args with
  | m :: t :: p :: c :: evs ->
      let cf = parse_cfg m t p c in
      let st = run cf init (List.map parse_event evs) in
      let l = st.st_led in
      Printf.sprintf "recv=%s closed=%s kdrop=%s held=%s live=%s fault=%b"
        (String.concat "," (List.map (fun (c, f) -> Printf.sprintf "%d@%d" (int_of_n f) (int_of_n c)) l.g_recv))
        (String.concat "," (List.map (fun (f, w) -> Printf.sprintf "%d:%s" (int_of_n f) (why_name w)) l.g_closed))
        (show_fds l.g_kdrop) (show_fds (held st)) (show_fds (live_ids st)) st.st_fault
  | _ -> "?bad-args"

(* write <can_fd 0|1> <header len> <body len> <fds> <cap>* : do_writing for one message, one token per successful call *)
let run_write (args : string list) : string =
  match args with
  | can :: h :: bl :: fds :: caps ->
      let (calls, w) = do_writing (b can) (ni h) (ni bl) (List.map ni (list_of fds)) N0 (List.map ni caps) in
      String.concat " " (List.map (fun c ->
        Printf.sprintf "%s:%d:%s" (match c.wr_call with WFdsTwo -> "fds2" | WTwo -> "two" | WBody -> "body")
          (int_of_n c.wr_bytes) (show_fds c.wr_fds)) calls) ^ Printf.sprintf " written=%d wire=%s" (int_of_n w) (show_fds (wire_fds calls))
  | _ -> "?bad-args"

let () =
  reg "write" run_write;
  reg "hist" run_hist;
  reg "ledger" run_ledger
