(* Trusted glue for the monitor package (C18): parses one history per line, runs the extracted model
   step by step, prints one canonical token per step and a final state token.

   hist <event>*
     C / Cu                              connect + Hello (Cu: as a uid that is neither root nor the bus's own)
     D.<c>                               disconnect
     S.<c>.<c|r|e|s|t<n>>.<dest>.<iface>.<member>.<serial>.<rserial>.<err>.<noreply>.<noauto>
     R.<c>.<serial>.<name>.<dnq>         RequestName (flags 0 or DO_NOT_QUEUE)
     L.<c>.<serial>.<name>               ReleaseName
     A.<c>.<serial>.<filter>             AddMatch
     G.<c>.<serial>                      GetId
     B.<c>.<serial>.<filter>,<filter>..[.<flags>.<sig_ok>]  BecomeMonitor ("-" = empty array, "!" = a rule that does not parse)
   dest / names: "-" none, "d" org.freedesktop.DBus, u<k> unique name of connection k, n<k> well-known name k
   filter: <type|->/<sender|->/<dest|->/<iface|->/<member|->
   result per step: "!" (ill-formed), "-" (no output) or entries joined by "+":
     <rcpt>:<C|D|M|L>:<type>/<sender>/<dest>/<iface>/<member>/<serial>/<rserial>/<err>/<flags>/<args>
   (kind C = monitor copy, D = addressed delivery, M = match-rule delivery, L = answered by libdbus itself)
   last token: "#own=<name>@<c>,..;mons=<c>,..;conns=<c>,.." *)
open Model_monitor

let rec pos_of_int (i : int) : positive =
  if i = 1 then XH else if i land 1 = 0 then XO (pos_of_int (i lsr 1)) else XI (pos_of_int (i lsr 1))
let n_of_int (i : int) : n = if i = 0 then N0 else Npos (pos_of_int i)
let rec int_of_pos = function XH -> 1 | XO p -> 2 * int_of_pos p | XI p -> 2 * int_of_pos p + 1
let int_of_n = function N0 -> 0 | Npos p -> int_of_pos p

let split_ws s = List.filter (fun x -> x <> "") (String.split_on_char ' ' s)
let handlers : (string, string list -> string) Hashtbl.t = Hashtbl.create 16
let reg name f = Hashtbl.replace handlers name f

let ni s = n_of_int (int_of_string s)
let b s = s = "1"
let tail s = String.sub s 1 (String.length s - 1)

let parse_name (s : string) : name =
  if s = "d" then NDriver else
  match s.[0] with
  | 'u' -> NUniq (ni (tail s))
  | 'n' -> NWk (ni (tail s))
  | _ -> failwith ("name " ^ s)
let parse_oname s = if s = "-" then None else Some (parse_name s)
let parse_ktype = function "c" -> KCall | "r" -> KReturn | "e" -> KError | "s" -> KSignal | s -> failwith ("type " ^ s)
(* t<n>: a type byte that is none of the four defined ones *)
let parse_type s = if String.length s > 1 && s.[0] = 't' then TOther (ni (tail s)) else TKnown (parse_ktype s)
let parse_on s = if s = "-" then None else Some (ni s)

let parse_filter (s : string) : flt =
  match String.split_on_char '/' s with
  | [t; sd; d; i; m] ->
      { f_type = (if t = "-" then None else Some (parse_ktype t)); f_sender = parse_oname sd; f_dest = parse_oname d;
        f_iface = parse_on i; f_member = parse_on m }
  | _ -> failwith ("filter " ^ s)

(* "!" stands for a rule string that does not parse *)
let parse_rules fs = if fs = "-" then [] else List.map (fun x -> if x = "!" then None else Some (parse_filter x)) (String.split_on_char ',' fs)

let parse_event (tok : string) : event =
  match String.split_on_char '.' tok with
  | ["C"] -> EConnect true
  | ["Cu"] -> EConnect false
  | ["D"; c] -> EDisconnect (ni c)
  | ["S"; c; ty; d; i; m; ser; rser; err; nr; na] ->
      ESend (ni c, { b_type = parse_type ty; b_sender = SNone; b_dest = parse_oname d; b_iface = ni i; b_member = ni m;
                     b_serial = ni ser; b_rserial = ni rser; b_err = ni err; b_noreply = b nr; b_noauto = b na; b_args = [] })
  | ["R"; c; s; n; dnq] -> ERequestName (ni c, ni s, ni n, b dnq)
  | ["L"; c; s; n] -> EReleaseName (ni c, ni s, ni n)
  | ["A"; c; s; f] -> EAddMatch (ni c, ni s, parse_filter f)
  | ["G"; c; s] -> EGetId (ni c, ni s)
  | ["B"; c; s; fs] -> EBecomeMonitor (ni c, ni s, true, N0, parse_rules fs)
  | ["B"; c; s; fs; fl; sg] -> EBecomeMonitor (ni c, ni s, b sg, ni fl, parse_rules fs)
  | _ -> failwith ("event " ^ tok)

let show_name = function NDriver -> "d" | NUniq c -> "u" ^ string_of_int (int_of_n c) | NWk k -> "n" ^ string_of_int (int_of_n k)
let show_type = function TKnown KCall -> "c" | TKnown KReturn -> "r" | TKnown KError -> "e" | TKnown KSignal -> "s"
                       | TOther n -> "t" ^ string_of_int (int_of_n n)
let show_arg = function AName n -> show_name n | AEmpty -> "e" | ANum k -> "#" ^ string_of_int (int_of_n k)

let show_msg (m : bmsg) : string =
  String.concat "/" [
    show_type m.b_type;
    (match m.b_sender with SNone -> "x" | SDriver -> "d" | SConn c -> "u" ^ string_of_int (int_of_n c));
    (match m.b_dest with None -> "-" | Some n -> show_name n);
    string_of_int (int_of_n m.b_iface); string_of_int (int_of_n m.b_member); string_of_int (int_of_n m.b_serial);
    string_of_int (int_of_n m.b_rserial); string_of_int (int_of_n m.b_err);
    string_of_int ((if m.b_noreply then 1 else 0) + (if m.b_noauto then 2 else 0));
    (if m.b_args = [] then "_" else String.concat "," (List.map show_arg m.b_args)) ]

let show_kind = function KCapture -> "C" | KDirect -> "D" | KMatch -> "M" | KLocal -> "L"

let show_out (o : ((n * kind) * bmsg) list) : string =
  if o = [] then "-" else
  String.concat "+" (List.map (fun ((r, k), m) -> string_of_int (int_of_n r) ^ ":" ^ show_kind k ^ ":" ^ show_msg m) o)

let show_state (st : state) : string =
  let ints l = String.concat "," (List.map (fun c -> string_of_int (int_of_n c)) l) in
  "#own=" ^ String.concat "," (List.map (fun (n, c) -> show_name n ^ "@" ^ string_of_int (int_of_n c)) st.st_own) ^
  ";mons=" ^ ints st.st_mons ^ ";conns=" ^ ints st.st_conns

let run_hist (evs : string list) : string =
  let st = ref init in
  let toks = List.map (fun tok ->
    let e = parse_event tok in
    if not (wf_event !st e) then "!" else begin
      let (st', items) = step !st e in
      let o = show_out (outs items) in
      (* a connection the bus closed by itself (a monitor that sent something) reads EOF: <c>:X *)
      let closed = (match e with
        | EConnect _ | EDisconnect _ -> []
        | ESend (c, _) | ERequestName (c, _, _, _) | EReleaseName (c, _, _) | EAddMatch (c, _, _) | EGetId (c, _)
        | EBecomeMonitor (c, _, _, _, _) ->
            if List.mem c !st.st_conns && not (List.mem c st'.st_conns) then [string_of_int (int_of_n c) ^ ":X"] else []) in
      st := st';
      (match closed with [] -> o | x :: _ -> if o = "-" then x else o ^ "+" ^ x)
    end) evs in
  String.concat " " (toks @ [show_state !st])

(* match <filter> <eaves 0|1> <from c|-> <addr c|-> <own name@c,..|-> <msg as in S without the connection>:
   the filter semantics alone (used to cross-check the harness's independent matcher) *)
let run_match (args : string list) : string =
  match args with
  | [f; ev; from; addr; own; m] ->
      let own = if own = "-" then [] else List.map (fun x ->
        match String.split_on_char '@' x with [n; c] -> (parse_name n, ni c) | _ -> failwith "own") (String.split_on_char ',' own) in
      let msg = (match parse_event ("S.0." ^ m) with ESend (_, m) -> m | _ -> failwith "msg") in
      if fmatch own (b ev) (parse_filter f) (parse_on from) (parse_on addr) msg then "1" else "0"
  | _ -> "?bad-args"

let () =
  reg "hist" run_hist;
  reg "match" run_match
