(* Trusted glue for the limits package (C13): parses one history per line, runs the
   extracted model (Limits.step) and prints one canonical result line.

   input   run <completed>,<per_user>,<incomplete>,<names>,<rules>,<replies>,<msgsize> <event> ...
           event  C<uid> | U<c> (authenticate) | H<c> | D<c> | R<c>,<hex>,<flags> | L<c>,<hex> | A<c>,<rule|x> | V<c>,<rule|x>
                  | K<c>,<d>,<serial>,<0|1>,<reply serial or 0> | Y<d>,<c>,<serial> | T<c>,<serial> | E<c>,<tag> | M<c>,<hex16>
                  | G<7 limits, comma separated> (the configuration is reloaded with these limits)
                  | Q<hex> (probe: ListQueuedOwners) | N (probe: ListNames) | S (probe: the model's counters)
   output  one block per event, separated by " | "; a block is "<conn>><msg>,<conn>><msg>,..." or "-"  *)
open Model_limits

let rec pos_of_int (i : int) : positive =
  if i = 1 then XH else if i land 1 = 0 then XO (pos_of_int (i lsr 1)) else XI (pos_of_int (i lsr 1))
let n_of_int (i : int) : n = if i = 0 then N0 else Npos (pos_of_int i)
let rec int_of_pos = function XH -> 1 | XO p -> 2 * int_of_pos p | XI p -> 2 * int_of_pos p + 1
let int_of_n = function N0 -> 0 | Npos p -> int_of_pos p
let ns c = string_of_int (int_of_n c)
let ni s = n_of_int (int_of_string s)

let bytes_of_hex (h : string) : n list =
  let h = if h = "-" then "" else h in
  let l = String.length h / 2 in
  List.init l (fun i -> n_of_int (int_of_string ("0x" ^ String.sub h (2 * i) 2)))
let hex_of_bytes (l : n list) : string =
  if l = [] then "-" else String.concat "" (List.map (fun b -> Printf.sprintf "%02x" (int_of_n b)) l)

let split_ws s = List.filter (fun x -> x <> "") (String.split_on_char ' ' s)
let join sep l = if l = [] then "-" else String.concat sep l

let key_s = function KU c -> "U" ^ ns c | KW s -> "S" ^ hex_of_bytes s
let opt_c = function None -> "-" | Some c -> ns c
let lerr_s = function
  | LLimitsExceeded -> "LimitsExceeded" | LFailed -> "Failed" | LAccessDenied -> "AccessDenied" | LInvalidArgs -> "InvalidArgs"
  | LMatchRuleInvalid -> "MatchRuleInvalid" | LMatchRuleNotFound -> "MatchRuleNotFound" | LServiceUnknown -> "ServiceUnknown"
let err_s = function EInvalidArgs -> "InvalidArgs" | EAccessDenied -> "AccessDenied" | ELimitsExceeded -> "LimitsExceeded" | EFailed -> "Failed"
let msg_s = function
  | MHelloReply c -> "hello:" ^ ns c
  | MReply c -> "reply:" ^ ns c
  | MAck -> "ack"
  | MError e -> "err:" ^ err_s e
  | MAcquired k -> "acq:" ^ key_s k
  | MLost k -> "lost:" ^ key_s k
  | MNOC (k, o, n) -> "noc:" ^ key_s k ^ ":" ^ opt_c o ^ ":" ^ opt_c n
  | MFault -> "FAULT"
let omsg_s = function
  | OAccepted -> "accepted" | ONotAccepted -> "waiting" | OAuthOk -> "authok"
  | OReg m -> msg_s m
  | OAck -> "ack"
  | OErr e -> "err:" ^ lerr_s e
  | ONoReply s -> "noreply:" ^ ns s
  | OCall (f, s) -> "call:" ^ ns f ^ ":" ^ ns s
  | OReply (f, s) -> "ret:" ^ ns f ^ ":" ^ ns s
  | OSignal (f, t) -> "sig:" ^ ns f ^ ":" ^ ns t
  | OClosed -> "closed"
  | OAbort -> "ABORT"
  | OFault -> "FAULT"
let outs_s os = join "," (List.map (fun (c, m) -> ns c ^ ">" ^ omsg_s m) os)
let who_s = function WBus -> "B" | WConn c -> "c" ^ ns c
let queued_s = function None -> "none" | Some l -> if l = [] then "empty" else String.concat "+" (List.map who_s l)

let rule_of s = if s = "x" then None else Some (ni s)

type item = It of citem | ProbeQ of n list | ProbeN | ProbeS

let limits_of (lim : string) : limits =
  match List.map ni (String.split_on_char ',' lim) with
  | [a; b; c; d; e; f; g] -> { max_completed_connections = a; max_connections_per_user = b; max_incomplete_connections = c;
                               max_names_per_connection = d; max_match_rules_per_connection = e; max_replies_per_connection = f;
                               max_message_size = g }
  | _ -> failwith "bad limits"

let parse_item (t : string) : item =
  let body = String.sub t 1 (String.length t - 1) in
  let parts = String.split_on_char ',' body in
  match t.[0], parts with
  | 'C', [u] -> It (Ev (Connect (ni u)))
  | 'U', [c] -> It (Ev (Auth (ni c)))
  | 'H', [c] -> It (Ev (Hello (ni c)))
  | 'D', [c] -> It (Ev (Disconnect (ni c)))
  | 'R', [c; h; f] -> It (Ev (RequestName (ni c, bytes_of_hex h, ni f)))
  | 'L', [c; h] -> It (Ev (ReleaseName (ni c, bytes_of_hex h)))
  | 'A', [c; r] -> It (Ev (AddMatch (ni c, rule_of r)))
  | 'V', [c; r] -> It (Ev (RemoveMatch (ni c, rule_of r)))
  | 'K', [c; d; s; nr; rs] -> It (Ev (Call (ni c, ni d, ni s, nr = "1", ni rs)))
  | 'Y', [d; c; s] -> It (Ev (Reply (ni d, ni c, ni s)))
  | 'T', [c; s] -> It (Ev (ReplyTimeout (ni c, ni s)))
  | 'E', [c; t] -> It (Ev (Emit (ni c, ni t)))
  | 'M', [c; h] -> It (Ev (Message (ni c, bytes_of_hex h)))
  | 'G', _ -> It (Reload (limits_of body))
  | 'Q', [h] -> ProbeQ (bytes_of_hex h)
  | 'N', _ -> ProbeN
  | 'S', _ -> ProbeS
  | _ -> failwith ("bad event " ^ t)

let counters (s : state) : string =
  let per f l = join "+" (List.map f l) in
  Printf.sprintf "completed=%d incomplete=%d byuser=%s nrules=%s pending=%s"
    (int_of_n (s_ncomplete s)) (int_of_n (s_nincomplete s))
    (per (fun (u, k) -> ns u ^ ":" ^ ns k) (List.sort compare (List.map (fun (u, k) -> (u, k)) (s_byuser s))))
    (per (fun d -> ns d.d_id ^ ":" ^ ns d.d_nrules) (s_cdata s))
    (per (fun p -> ns p.p_get ^ ">" ^ ns p.p_send ^ "#" ^ ns p.p_serial) (s_pending s))

let run_cmd (args : string list) : string =
  match args with
  | lim :: evs ->
      let cs = ref (limits_of lim, linit) in
      let blocks = List.map (fun t ->
        match parse_item t with
        | It i -> let (cs', os) = cstep !cs i in cs := cs'; outs_s os
        | ProbeQ name -> "q=" ^ queued_s (queued_owners (fst !cs) (snd !cs) (QS name))
        | ProbeN -> "n=" ^ join "+" (List.sort compare (List.map (function None -> "B" | Some k -> key_s k) (list_names (reg (fst !cs) (snd !cs)))))
        | ProbeS -> counters (snd !cs)) evs in
      String.concat " | " blocks
  | _ -> failwith "usage"

let handlers : (string, string list -> string) Hashtbl.t = Hashtbl.create 7
let () = Hashtbl.replace handlers "run" run_cmd
