(* Trusted glue: reads one case per line, runs the extracted Coq model of libdbus' incoming flow control
   (Wire/Flow.v), prints one canonical result per line.

     flow  <max_size> <max_fds> <event>...     the faithful machine
     sflow <max_size> <max_fds> <event>...     the machine with the seeded crossing test (<= for <), for diagnostics
     pflow <max_size> <max_fds> <event>...     the machine before /repo d42cc8a (limit setters without check_read_watch), for diagnostics
     tflow <max_size> <max_fds> <event>...     the faithful machine behind a socket and a message loader (see run_tflow)

   events:  A<size>,<nfds>   Arrive            R<k>  Release k (adjusts only)      N  Notify
            U<k>             Release k; Notify (dbus_message_unref in one thread; one output entry, after the Notify)
            L<ms>,<mf>       SetLimits
            W<size>,<nfds>   (tflow) the bytes are written to the socket, the main loop does not run before the next event
                             (flow/sflow: same as A)
   output:  one entry per event, separated by blanks: value,fdvalue,pending,watch,mayqueue  (tflow appends ,backlog)
            "F" and stop at an impossible event (no k-th live message). *)
open Model_flow

let rec pos_of_int (i : int) : positive =
  if i = 1 then XH else if i land 1 = 0 then XO (pos_of_int (i lsr 1)) else XI (pos_of_int (i lsr 1))
let n_of_int (i : int) : n = if i = 0 then N0 else Npos (pos_of_int i)
let rec int_of_pos = function XH -> 1 | XO p -> 2 * int_of_pos p | XI p -> 2 * int_of_pos p + 1
let int_of_n = function N0 -> 0 | Npos p -> int_of_pos p
let int_of_z = function Z0 -> 0 | Zpos p -> int_of_pos p | Zneg p -> - (int_of_pos p)
let z_of_int i = if i = 0 then Z0 else if i > 0 then Zpos (pos_of_int i) else Zneg (pos_of_int (-i))
let nat_of_int (i : int) : nat = let r = ref O in for _ = 1 to i do r := S !r done; !r
let b2s b = if b then "1" else "0"

let split_ws s = List.filter (fun x -> x <> "") (String.split_on_char ' ' s)

let handlers : (string, string list -> string) Hashtbl.t = Hashtbl.create 8
let reg name f = Hashtbl.replace handlers name f

let pair s =
  match String.split_on_char ',' s with
  | [a; b] -> (int_of_string a, int_of_string b)
  | _ -> raise (Match_failure ("pair", 0, 0))

(* one command token -> the model events it stands for *)
let events_of (tok : string) : event list =
  let rest = String.sub tok 1 (String.length tok - 1) in
  match tok.[0] with
  | 'A' | 'W' -> let (s, f) = pair rest in if s < 0 || f < 0 then raise (Match_failure ("A", 0, 0)) else [Arrive (n_of_int s, n_of_int f)]
  | 'R' -> [Release (nat_of_int (int_of_string rest))]
  | 'U' -> unref (nat_of_int (int_of_string rest))
  | 'N' when rest = "" -> [Notify]
  | 'L' -> let (s, f) = pair rest in [SetLimits (z_of_int s, z_of_int f)]
  | _ -> raise (Match_failure ("event", 0, 0))

let show (t : transport) : string =
  Printf.sprintf "%d,%d,%s,%s,%s" (int_of_z t.t_counter.c_size) (int_of_z t.t_counter.c_fd) (b2s t.t_counter.c_pending)
    (b2s (read_watch_enabled t)) (b2s (may_queue_more t))

let run_flow cross recheck (ms :: mf :: toks) =
  let t0 = transport_init (z_of_int (int_of_string ms)) (z_of_int (int_of_string mf)) in
  let out = Buffer.create 256 in
  let rec go t = function
    | [] -> ()
    | tok :: r ->
        (match run cross recheck t (events_of tok) with
         | None -> Buffer.add_string out "F"
         | Some t' -> Buffer.add_string out (show t'); if r <> [] then Buffer.add_char out ' '; go t' r)
  in
  go t0 toks; Buffer.contents out

(* The socket and the message loader in front of the transport: glue, NOT part of the proved model.  It replays, at byte
   granularity, what the watch-driven main loop of harness/c/flow_h.c (tflow) makes the real transport do:
     do_reading (dbus-transport-socket.c:740-):  again: check_read_watch; stop after more than 2048 bytes in this call or if
         the read watch is off; read at most 2048 bytes into the loader; _dbus_transport_queue_messages (= Arrive for every
         COMPLETE message in the loader while the dispatch-status test allows); goto again
     after the watch handler the connection recomputes its dispatch status, the main loop pops what was queued, and with
         an empty incoming queue the status query runs _dbus_transport_queue_messages again
     dbus_message_unref / _dbus_counter_notify / set_max_received_* only touch the counter and the watch: a complete
         message left in the loader is NOT looked at again until the next read or dispatch round.
   Read limits for descriptor-carrying messages are not replayed (the generator keeps messages with descriptors above
   2048 bytes, where one read completes at most one message anyway). *)
let read_chunk = 2048

let run_tflow (ms :: mf :: toks) =
  let t0 = transport_init (z_of_int (int_of_string ms)) (z_of_int (int_of_string mf)) in
  let out = Buffer.create 256 in
  let sock : (int * int) Queue.t = Queue.create () in     (* unread messages (size, nfds); the head may be partly read *)
  let head_read = ref 0 in
  let ldr : (int * int) Queue.t = Queue.create () in      (* complete messages in the loader *)
  let read () =
    let budget = ref read_chunk in
    while !budget > 0 && not (Queue.is_empty sock) do
      let (size, _) = Queue.peek sock in
      let remaining = size - !head_read in
      if remaining <= !budget then (budget := !budget - remaining; head_read := 0; Queue.push (Queue.pop sock) ldr)
      else (head_read := !head_read + !budget; budget := 0)
    done;
    read_chunk - !budget in
  let rec queue_messages t =
    if may_queue_more t && not (Queue.is_empty ldr) then
      let (s, f) = Queue.pop ldr in
      (match fstep t (Arrive (n_of_int s, n_of_int f)) with Some t' -> queue_messages t' | None -> t)
    else t in
  let do_reading t =
    let t = ref t and total = ref 0 and go = ref true in
    while !go do
      t := check_read_watch !t;
      if !total > read_chunk || not (read_watch_enabled !t) then go := false
      else begin
        let n = read () in
        if n = 0 then go := false else (total := !total + n; t := queue_messages !t)
      end
    done;
    !t in
  let rec pump t =
    if read_watch_enabled t && not (Queue.is_empty sock) then pump (queue_messages (do_reading t)) else t in
  let rec go t = function
    | [] -> ()
    | tok :: r ->
        let evs = events_of tok in
        let res =
          match evs with
          | [Arrive (s, f)] -> Queue.push (int_of_n s, int_of_n f) sock; Some t
          | _ -> frun t evs in
        (match res with
         | None -> Buffer.add_string out "F"
         | Some t' ->
             let t' = if tok.[0] = 'W' then t' else pump t' in
             Buffer.add_string out (show t' ^ "," ^ string_of_int (Queue.length sock + Queue.length ldr));
             if r <> [] then Buffer.add_char out ' '; go t' r)
  in
  go t0 toks; Buffer.contents out

let () =
  reg "flow" (run_flow crossed true);
  reg "sflow" (run_flow crossed_seeded true);
  reg "pflow" (run_flow crossed false);
  reg "tflow" run_tflow
