let () =
  try
    while true do
      let line = input_line stdin in
      match Driver.split_ws line with
      | [] -> print_newline ()
      | cmd :: args ->
          let out =
            match Hashtbl.find_opt Driver.handlers cmd with
            | None -> "?unknown-command"
            | Some f -> (try f args with Match_failure _ -> "?bad-args" | Failure _ | Invalid_argument _ -> "?bad-args" | Stack_overflow -> "?stack-overflow")
          in
          print_string out; print_newline ()
    done
  with End_of_file -> ()
