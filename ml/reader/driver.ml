(* Trusted glue for the reader model (coq/Wire/Reader.v): one case per line in, one result line out.
     read <le|be> <sig-hex> <body-hex>    -> the dump of the body as read by the reader model, in the
                                             textual format of dump_iter (harness/c/wire_h.c) and of
                                             dump_val (ml/wire/driver.ml); or fault / assert / fuel / gap
     count <le|be> <sig-hex> <body-hex>   -> dbus_message_iter_get_element_count of the first argument
     fixed <le|be> <sig-hex> <body-hex>   -> recurse into the first argument + get_fixed_array: "<n> <hex>" *)
open Model_reader

let rec pos_of_int (i : int) : positive =
  if i = 1 then XH else if i land 1 = 0 then XO (pos_of_int (i lsr 1)) else XI (pos_of_int (i lsr 1))
let n_of_int (i : int) : n = if i = 0 then N0 else Npos (pos_of_int i)
let rec int_of_pos = function XH -> 1 | XO p -> 2 * int_of_pos p | XI p -> 2 * int_of_pos p + 1
let int_of_n = function N0 -> 0 | Npos p -> int_of_pos p

let bytes_of_hex (h : string) : n list =
  let h = if h = "-" then "" else h in
  let l = String.length h / 2 in
  List.init l (fun i -> n_of_int (int_of_string ("0x" ^ String.sub h (2 * i) 2)))
let hex_of_bytes (l : n list) : string =
  if l = [] then "-" else String.concat "" (List.map (fun b -> Printf.sprintf "%02x" (int_of_n b)) l)

(* decimal string of an extracted N (may exceed OCaml's 63-bit int) *)
let dec_of_n (x : n) : string =
  let rec bits p = match p with XH -> [1] | XO q -> 0 :: bits q | XI q -> 1 :: bits q in
  match x with
  | N0 -> "0"
  | Npos p ->
      let bs = List.rev (bits p) in
      let digits = ref [0] in
      List.iter (fun b ->
        let carry = ref b in
        digits := List.map (fun d -> let v = 2 * d + !carry in carry := v / 10; v mod 10) !digits;
        if !carry > 0 then digits := !digits @ [!carry]) bs;
      String.concat "" (List.rev_map string_of_int !digits)

let split_ws s = List.filter (fun x -> x <> "") (String.split_on_char ' ' s)
let handlers : (string, string list -> string) Hashtbl.t = Hashtbl.create 8
let reg name f = Hashtbl.replace handlers name f

(* same format as dump_iter of harness/c/wire_h.c and dump_val of ml/wire/driver.ml *)
let text_of_bytes (l : n list) = String.concat "" (List.map (fun b -> String.make 1 (Char.chr (int_of_n b))) l)
let rec dump_val (v : val0) : string =
  match v with
  | VNum (c, n) -> if int_of_n c = 104 then "h_" else Printf.sprintf "%c%s" (Char.chr (int_of_n c)) (dec_of_n n)
  | VStr (c, s) -> Printf.sprintf "%c%s" (Char.chr (int_of_n c)) (hex_of_bytes s)
  | VArr (_, vs) -> "a[" ^ String.concat " " (List.map dump_val vs) ^ "]"
  | VStruct vs -> "(" ^ String.concat " " (List.map dump_val vs) ^ ")"
  | VDictE (k, x) -> "{" ^ dump_val k ^ " " ^ dump_val x ^ "}"
  | VVar (t, x) -> "v<" ^ text_of_bytes (print_ty t) ^ ">" ^ dump_val x ^ "</v>"

let err_str = function R_FAULT -> "fault" | R_ASSERT -> "assert" | R_FUEL -> "fuel" | R_GAP -> "gap"
let order = function "le" -> true | "be" -> false | _ -> raise (Match_failure ("order", 0, 0))

let () =
  reg "read" (fun [o; sg; body] ->
    match read_all (order o) (bytes_of_hex sg) (bytes_of_hex body) with
    | Inl vs -> "[" ^ String.concat " " (List.map dump_val vs) ^ "]"
    | Inr e -> err_str e);
  reg "count" (fun [o; sg; body] ->
    match first_element_count (order o) (bytes_of_hex sg) (bytes_of_hex body) with
    | Inl k -> dec_of_n k
    | Inr e -> err_str e);
  reg "fixed" (fun [o; sg; body] ->
    match first_fixed_array (order o) (bytes_of_hex sg) (bytes_of_hex body) with
    | Inl (b, k) -> dec_of_n k ^ " " ^ hex_of_bytes b
    | Inr e -> err_str e)
