(* Trusted glue for package `match` (C07): reads one case per line, runs the
   extracted Coq model, prints one canonical result per line.  The commands
   hello/own/add/rm/send/disc drive the stateful world of Match/Bus.v (reset
   starts a new one); parse/match/equal/uint are stateless. *)
open Model_match

let rec pos_of_int (i : int) : positive =
  if i = 1 then XH else if i land 1 = 0 then XO (pos_of_int (i lsr 1)) else XI (pos_of_int (i lsr 1))
let n_of_int (i : int) : n = if i = 0 then N0 else Npos (pos_of_int i)
let rec int_of_pos = function XH -> 1 | XO p -> 2 * int_of_pos p | XI p -> 2 * int_of_pos p + 1
let int_of_n = function N0 -> 0 | Npos p -> int_of_pos p
(* decimal printing of an N that may exceed 63 bits *)
let rec string_of_pos_big (p : positive) : string =
  (* values here are < 2^64; OCaml ints are 63-bit signed, so go through Int64 unsigned printing *)
  let rec to_i64 = function XH -> 1L | XO p -> Int64.shift_left (to_i64 p) 1 | XI p -> Int64.logor (Int64.shift_left (to_i64 p) 1) 1L in
  Printf.sprintf "%Lu" (to_i64 p)
let string_of_n = function N0 -> "0" | Npos p -> string_of_pos_big p

let bytes_of_hex (h : string) : n list =
  let h = if h = "-" then "" else h in
  let l = String.length h / 2 in
  List.init l (fun i -> n_of_int (int_of_string ("0x" ^ String.sub h (2 * i) 2)))
let hex_of_bytes (l : n list) : string =
  String.concat "" (List.map (fun b -> Printf.sprintf "%02x" (int_of_n b)) l)

let split_ws s = List.filter (fun x -> x <> "") (String.split_on_char ' ' s)

let opt_hex = function "-" -> None | h -> Some (bytes_of_hex h)

(* args: "-" (none) or comma separated s<hex> / o<hex> / x *)
let args_of (s : string) : marg list =
  if s = "-" then [] else
  List.map (fun a ->
      if a = "x" || a = "h" then AOther        (* "h" = a unix fd argument: any other type for the matcher *)
      else
        let v = bytes_of_hex (String.sub a 1 (String.length a - 1)) in
        match a.[0] with 's' -> AStr v | 'o' -> APath v | _ -> failwith "bad arg") (String.split_on_char ',' s)

let msg_of (f : string list) : msg =
  match f with
  | [t; p; i; m; d; a] ->
      { m_type = n_of_int (int_of_string t); m_path = opt_hex p; m_iface = opt_hex i; m_member = opt_hex m; m_dest = opt_hex d;
        m_args = args_of a }
  | _ -> raise (Match_failure ("msg", 0, 0))

let oh = function None -> "-" | Some b -> "=" ^ hex_of_bytes b

let dump_rule (r : rule) : string =
  let args = List.mapi (fun i a -> match a with
      | None -> ""
      | Some (k, v) -> Printf.sprintf "%d%s=%s;" i (match k with ArgString -> "S" | ArgPath -> "P" | ArgNamespace -> "N") (hex_of_bytes v)) r.r_args in
  Printf.sprintf "fl=%d t=%s i%s m%s s%s d%s p%s n=%d a=%s"
    (int_of_n (rule_flags r))
    (match r.r_type with None -> "0" | Some t -> string_of_int (int_of_n t))
    (oh r.r_iface) (oh r.r_member) (oh r.r_sender) (oh r.r_dest)
    (match r.r_path with None -> "-" | Some (_, p) -> "=" ^ hex_of_bytes p)
    (List.length r.r_args) (String.concat "" args)

let conns (l : n list) : string = if l = [] then "-" else String.concat "," (List.map (fun c -> string_of_int (int_of_n c)) l)

let world = ref { w_mm = []; w_names = []; w_caps = [] }
(* the same history on the INDEXED matchmaker (Match/Index.v); its answers are the model's answers *)
let iworld = ref iworld_new
let sworld = ref { sw_bus = []; sw_names = []; sw_caps = [] }
let limit = ref (n_of_int 512)

let reply_s = function RepOk -> "ok" | RepLimits -> "limits" | RepInvalid -> "invalid" | RepDenied -> "denied" | RepNotFound -> "notfound" | RepOkThenNotFound -> "oknotfound"
let sreply_s = function SRepOk -> "ok" | SRepLimits -> "limits" | SRepInvalid -> "invalid" | SRepDenied -> "denied" | SRepNotFound -> "notfound"

let s_sender = bytes_of_hex "73656e646572" and s_destination = bytes_of_hex "64657374696e6174696f6e"
and s_arg0namespace = bytes_of_hex "617267306e616d657370616365"

(* classes of rule texts on which the code is known to deviate from the specification (Spec.MatchSpec section 7) *)
let classes (text : n list) : string =
  let (ts, e) = spec_tokens text in
  let l = [] in
  let l = if e = SEmptyKey then "ek" :: l else l in
  let l = if List.length ts > 16 || (List.length ts = 16 && e <> SEndOk) then "cap" :: l else l in
  let l = if bs_sensitive SItemStart text then "bs" :: l else l in
  let l = if List.exists (fun (k, _) -> not (plain_arg_key k)) ts then "odd" :: l else l in
  let l = if List.exists (fun (k, v) -> (k = s_sender || k = s_destination || k = s_arg0namespace) && f2_value v) ts then "f2" :: l else l in
  if l = [] then "-" else String.concat "," (List.rev l)

let do_step (e : event) : string =
  let (sw, so) = spec_step !limit !sworld e in
  sworld := sw;
  let sp = match so with
    | SOSignal l -> "S " ^ conns l
    | SOOwn (code, l) -> Printf.sprintf "O%d %s" (int_of_n code) (conns l)
    | SOReply r -> "R " ^ sreply_s r
    | SODelivered l -> "D " ^ conns l
    | SOSignals l -> "G " ^ (if l = [] then "-" else String.concat ";" (List.map (fun (n, rc) -> hex_of_bytes n ^ ":" ^ conns rc) l)) in
  let cl = match e with EvAdd (_, t) | EvRemove (_, t) -> " " ^ classes t | _ -> "" in
  (* do both worlds hold the same rules (as multisets, compared with the specification's rule equality)? *)
  let same_rules (w : world) =
    let rec go ms ss = match ms with
      | [] -> ss = []
      | r :: rest ->
          let a = abs_rule r in
          let rec take = function
            | [] -> None
            | x :: xs -> if srule_eqb a x then Some xs else (match take xs with None -> None | Some ys -> Some (x :: ys)) in
          (match take ss with None -> false | Some ss' -> go rest ss') in
    go w.w_mm !sworld.sw_bus in
  let out_s (o : output) = (match o with
       | OSignal l -> "S " ^ conns l
       | OOwn (code, l) -> Printf.sprintf "O%d %s" (int_of_n code) (conns l)
       | OReply r -> "R " ^ reply_s r
       | ORouting RNotDispatched -> "N"
       | ORouting RNoOwner -> "U"
       | ORouting RToDriver -> "V"
       | ORouting RRejected -> "J"
       | ORouting RRefusedFds -> "K"
       | ORouting (RDelivered l) -> "D " ^ conns l
       | OSignals l -> "G " ^ (if l = [] then "-" else String.concat ";" (List.map (fun (n, rc) -> hex_of_bytes n ^ ":" ^ conns rc) l))) in
  (* the flat world runs alongside (it is what the specification comparison st= / x= looks at); ix=0 would mean the
     two representations disagree, which Proofs/MatchIndex.v (C07_index_history) excludes *)
  let flat = step !limit !world e in
  (match istep !limit !iworld e with
   | None -> "F"
   | Some (iw, io) ->
      iworld := iw;
      let ix = (match flat with
          | Some (w, o) ->
              let n_all = List.length (all_rules iw.w_mm) in
              if out_s o = out_s io && n_all = List.length w.w_mm then "" else " ix=0"
          | None -> " ix=0") in
      (match flat with
       | None -> out_s io ^ ix
       | Some (w, _) ->
          (* a disconnect also reports how many rules of OTHER connections the matchmaker dropped (x=<n>) *)
          let extra = (match e with
              | EvDisconnect c ->
                  let own = List.length (List.filter (fun r -> r.r_owner = c) !world.w_mm) in
                  Printf.sprintf " x=%d" (List.length !world.w_mm - List.length w.w_mm - own)
              | _ -> "") in
          world := w;
          let extra = (match e with EvAdd _ | EvRemove _ | EvDisconnect _ -> extra ^ (if same_rules w then " st=1" else " st=0") | _ -> extra) in
          out_s io ^ extra ^ ix))
  ^ " | " ^ sp ^ cl

let handlers : (string, string list -> string) Hashtbl.t = Hashtbl.create 64
let reg name f = Hashtbl.replace handlers name f

let one = n_of_int 1

let () =
  reg "parse" (fun [h] ->
      let text = bytes_of_hex h in
      let m = parse_rule one text and s = spec_parse one text in
      let ms = (match m with PLimits -> "L" | PInvalid -> "I" | POk r -> "O " ^ dump_rule r) in
      let ss, agree = (match m, s with
          | PLimits, SPLimits -> "L", true | PInvalid, SPInvalid -> "I", true
          | POk r, SPOk sr -> "O", srule_eqb (abs_rule r) sr
          | _, SPLimits -> "L", false | _, SPInvalid -> "I", false | _, SPOk _ -> "O", false) in
      Printf.sprintf "%s | %s %d %s" ms ss (if agree then 1 else 0) (classes text));
  reg "match" (fun (h :: mf) ->
      let text = bytes_of_hex h in
      let msg = msg_of mf in
      let ms = (match parse_rule one text with
          | PLimits -> "L" | PInvalid -> "I"
          | POk r -> (match rule_matches [] r None None msg false with None -> "F" | Some true -> "1" | Some false -> "0")) in
      let ss = (match spec_parse one text with
          | SPLimits -> "L" | SPInvalid -> "I"
          | SPOk sr -> if spec_matches [] sr None None msg then "1" else "0") in
      Printf.sprintf "%s | %s %s" ms ss (classes text));
  reg "equal" (fun [a; b] ->
      let ta = bytes_of_hex a and tb = bytes_of_hex b in
      let ms = (match parse_rule one ta, parse_rule one tb with
          | POk x, POk y -> if rule_equal x y then "1" else "0"
          | _, _ -> "X") in
      let ss = (match spec_parse one ta, spec_parse one tb with
          | SPOk x, SPOk y -> if srule_eqb x y then "1" else "0"
          | _, _ -> "X") in
      let ca = classes ta and cb = classes tb in
      Printf.sprintf "%s | %s %s" ms ss (if ca = "-" then cb else if cb = "-" then ca else ca ^ "," ^ cb));
  reg "uint" (fun [h] -> match parse_uint (bytes_of_hex h) with
      | None -> "-" | Some (v, e) -> string_of_n v ^ " " ^ string_of_int (int_of_n e));
  reg "reset" (fun [l] -> world := { w_mm = []; w_names = []; w_caps = [] }; iworld := iworld_new; sworld := { sw_bus = []; sw_names = []; sw_caps = [] };
                limit := n_of_int (int_of_string l); "ok");
  (* hello <conn> <unique> [fd]: "fd" = the connection negotiated NEGOTIATE_UNIX_FD *)
  reg "hello" (fun (c :: u :: rest) -> do_step (EvHello (n_of_int (int_of_string c), bytes_of_hex u, rest = ["fd"])));
  reg "own" (fun [c; u] -> do_step (EvOwn (n_of_int (int_of_string c), bytes_of_hex u)));
  reg "add" (fun [c; t] -> do_step (EvAdd (n_of_int (int_of_string c), bytes_of_hex t)));
  reg "rm" (fun [c; t] -> do_step (EvRemove (n_of_int (int_of_string c), bytes_of_hex t)));
  (* the UNIX_FDS count of a probe = the number of "h" arguments *)
  reg "send" (fun (c :: mf) ->
      let nfds = (match mf with [_; _; _; _; _; a] -> List.length (List.filter (fun x -> x = "h") (String.split_on_char ',' a)) | _ -> 0) in
      do_step (EvSend (n_of_int (int_of_string c), msg_of mf, n_of_int nfds)));
  reg "release" (fun [c; u] -> do_step (EvRelease (n_of_int (int_of_string c), bytes_of_hex u)));
  reg "disc" (fun [c] -> do_step (EvDisconnect (n_of_int (int_of_string c))))
