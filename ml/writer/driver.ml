(* Trusted glue for the message-writer model (coq/Wire/Writer.v): reads one construction
   program per line, turns EVERY token into one writer operation and executes the
   operations one at a time through the extracted [writer_step] (the C harness makes one
   API call per token), prints one canonical result per line. *)
open Model_writer

let rec pos_of_int (i : int) : positive =
  if i = 1 then XH else if i land 1 = 0 then XO (pos_of_int (i lsr 1)) else XI (pos_of_int (i lsr 1))
let n_of_int (i : int) : n = if i = 0 then N0 else Npos (pos_of_int i)
let rec int_of_pos = function XH -> 1 | XO p -> 2 * int_of_pos p | XI p -> 2 * int_of_pos p + 1
let int_of_n = function N0 -> 0 | Npos p -> int_of_pos p

let bytes_of_hex (h : string) : n list =
  let h = if h = "-" then "" else h in
  let l = String.length h / 2 in
  List.init l (fun i -> n_of_int (int_of_string ("0x" ^ String.sub h (2 * i) 2)))
let hex_of_bytes (l : n list) : string =
  if l = [] then "-" else String.concat "" (List.map (fun b -> Printf.sprintf "%02x" (int_of_n b)) l)
let bytes_of_text (s : string) : n list = List.init (String.length s) (fun i -> n_of_int (Char.code s.[i]))
let pos_of_dec (s : string) : n =
  (* decimal string -> N, without going through OCaml ints (values up to 2^64-1) *)
  let ten = n_of_int 10 in
  let acc = ref N0 in
  String.iter (fun c -> if c < '0' || c > '9' then failwith "bad number"; acc := N.add (N.mul !acc ten) (n_of_int (Char.code c - 48))) s; !acc

let split_ws s = List.filter (fun x -> x <> "") (String.split_on_char ' ' s)

let handlers : (string, string list -> string) Hashtbl.t = Hashtbl.create 8
let reg name f = Hashtbl.replace handlers name f

exception Bad_token of string

(* one token of the construction-program language (tools/wiregen.py tokens(), harness/c/wire_h.c append_tokens)
   = one API call = one writer operation *)
let op_of_token (t : string) : wop =
  if t = "" then raise (Bad_token t);
  let tail = String.sub t 1 (String.length t - 1) in
  match t.[0] with
  | 'y' | 'b' | 'n' | 'q' | 'i' | 'u' | 'x' | 't' | 'd' | 'h' -> WBasic (VNum (n_of_int (Char.code t.[0]), pos_of_dec tail))
  | 's' | 'o' | 'g' -> WBasic (VStr (n_of_int (Char.code t.[0]), bytes_of_hex tail))
  | 'A' -> WOpen (KArray, bytes_of_text tail)
  | 'V' -> WOpen (KVariant, bytes_of_text tail)
  | '(' when tail = "" -> WOpen (KStruct, [])
  | '{' when tail = "" -> WOpen (KDict, [])
  | ']' | ')' | '}' | ';' when tail = "" -> WClose
  | _ -> raise (Bad_token t)

(* F<c> e1 ... ] : an array of fixed-size elements written with ONE dbus_message_iter_append_fixed_array call
   (harness: open_container, append_fixed_array unless there is no element, close_container) *)
let closer_of c = match c with 'A' | 'F' -> "]" | '(' -> ")" | '{' -> "}" | 'V' -> ";" | _ -> ""

(* tokens -> operations.  Every token is one operation, except that the element tokens of an F group travel inside
   the single WFixedMulti operation.  The harness pairs every opener with its own closer; a program whose closers do
   not match is not one the harness would execute. *)
let ops_of_tokens (toks : string list) : wop list =
  let stack = ref [] in
  let rec go = function
    | [] -> if !stack <> [] then raise (Bad_token "unclosed") else []
    | t :: r ->
        if t = "" then raise (Bad_token t);
        (match t.[0] with
         | 'F' ->
             if String.length t <> 2 then raise (Bad_token t);
             let c = t.[1] in
             let rec elems acc = function
               | "]" :: r' -> (List.rev acc, r')
               | e :: r' when e <> "" && e.[0] = c -> (match op_of_token e with WBasic v -> elems (v :: acc) r' | _ -> raise (Bad_token e))
               | e :: _ -> raise (Bad_token e)
               | [] -> raise (Bad_token "unclosed") in
             let (vs, r') = elems [] r in
             let code = n_of_int (Char.code c) in
             (WOpen (KArray, [code]) :: (if vs = [] then [] else [WFixedMulti (code, vs)])) @ (WClose :: go r')
         | 'A' | '(' | '{' | 'V' -> stack := closer_of t.[0] :: !stack; let op = op_of_token t in op :: go r
         | ']' | ')' | '}' | ';' ->
             (match !stack with c :: rs when c = t -> stack := rs | _ -> raise (Bad_token t));
             let op = op_of_token t in op :: go r
         | _ -> let op = op_of_token t in op :: go r) in
  go toks

(* buildargs: one dbus_message_append_args call per top-level argument: basic value, A<fixed c> e... ] (one
   append_fixed_array call, also for no element), A<s|o|g> e... ] (append_basic per string) *)
let args_of_tokens (toks : string list) : arg list =
  let rec go = function
    | [] -> []
    | t :: r ->
        if t = "" then raise (Bad_token t);
        (match t.[0] with
         | 'A' ->
             if String.length t <> 2 then raise (Bad_token t);
             let c = t.[1] in
             let rec elems acc = function
               | "]" :: r' -> (List.rev acc, r')
               | e :: r' when e <> "" && e.[0] = c -> (match op_of_token e with WBasic v -> elems (v :: acc) r' | _ -> raise (Bad_token e))
               | e :: _ -> raise (Bad_token e)
               | [] -> raise (Bad_token "unclosed") in
             let (vs, r') = elems [] r in
             AArray (n_of_int (Char.code c), vs) :: go r'
         | _ -> (match op_of_token t with WBasic v -> ABasic v :: go r | _ -> raise (Bad_token t))) in
  go toks

let order_of = function "le" -> true | "be" -> false | o -> raise (Bad_token o)

let () =
  (* wbuild <le|be> <token>... : bytes=<body hex> sig=<signature hex>  |  fail@<k> (operation k, 0-based, returned None)
     | open@<n> (program ended with n containers open) *)
  reg "wbuild" (fun (order :: toks) ->
    match (try Ok (order_of order, ops_of_tokens toks) with Bad_token t -> Error t | Failure _ -> Error "number") with
    | Error t -> "?bad-token " ^ t
    | Ok (le, ops) ->
        let rec go st k = function
          | [] -> (match wresult st with
                   | Some (b, s) -> Printf.sprintf "bytes=%s sig=%s" (hex_of_bytes b) (hex_of_bytes s)
                   | None -> Printf.sprintf "open@%d" (List.length st.ws_iters - 1))
          | op :: r -> (match writer_step st op with
                        | Some st' -> go st' (k + 1) r
                        | None -> Printf.sprintf "fail@%d" k) in
        go (winit le [] []) 0 ops);
  (* wbuildargs <le|be> <token>... : the same program through the model of dbus_message_append_args, one call
     (a fresh append iterator) per top-level argument: bytes=… sig=…  |  fail@<k> (call k failed) *)
  reg "wbuildargs" (fun (order :: toks) ->
    match (try Ok (order_of order, args_of_tokens toks) with Bad_token t -> Error t | Failure _ -> Error "number") with
    | Error t -> "?bad-token " ^ t
    | Ok (le, args) ->
        let rec go body sg k = function
          | [] -> Printf.sprintf "bytes=%s sig=%s" (hex_of_bytes body) (hex_of_bytes sg)
          | a :: r -> (match run_writer_from le body sg (ops_of_args [a]) with
                       | Some (b, s) -> go b s (k + 1) r
                       | None -> Printf.sprintf "fail@%d" k) in
        go [] [] 0 args)
