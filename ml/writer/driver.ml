(* Trusted glue for the message-writer model (coq/Wire/Writer.v): reads one construction
   program per line, turns EVERY token into one writer operation and executes the
   operations one at a time through the extracted [writer_step] (the C harness makes one
   API call per token), prints one canonical result per line. *)
open Model_writer

let rec pos_of_int (i : int) : positive =
  if i = 1 then XH else if i land 1 = 0 then XO (pos_of_int (i lsr 1)) else XI (pos_of_int (i lsr 1))
let n_of_int (i : int) : n = if i = 0 then N0 else Npos (pos_of_int i)
let rec int_of_pos = function XH -> 1 | XO p -> 2 * int_of_pos p | XI p -> 2 * int_of_pos p + 1
let int_of_n = function N0 -> 0 | Npos p -> int_of_pos p

let bytes_of_hex (h : string) : n list =
  let h = if h = "-" then "" else h in
  let l = String.length h / 2 in
  List.init l (fun i -> n_of_int (int_of_string ("0x" ^ String.sub h (2 * i) 2)))
let hex_of_bytes (l : n list) : string =
  if l = [] then "-" else String.concat "" (List.map (fun b -> Printf.sprintf "%02x" (int_of_n b)) l)
let bytes_of_text (s : string) : n list = List.init (String.length s) (fun i -> n_of_int (Char.code s.[i]))
let pos_of_dec (s : string) : n =
  (* decimal string -> N, without going through OCaml ints (values up to 2^64-1) *)
  let ten = n_of_int 10 in
  let acc = ref N0 in
  String.iter (fun c -> if c < '0' || c > '9' then failwith "bad number"; acc := N.add (N.mul !acc ten) (n_of_int (Char.code c - 48))) s; !acc

let split_ws s = List.filter (fun x -> x <> "") (String.split_on_char ' ' s)

let handlers : (string, string list -> string) Hashtbl.t = Hashtbl.create 8
let reg name f = Hashtbl.replace handlers name f

exception Bad_token of string

(* one token of the construction-program language (tools/wiregen.py tokens(), harness/c/wire_h.c append_tokens)
   = one API call = one writer operation *)
let op_of_token (t : string) : wop =
  if t = "" then raise (Bad_token t);
  let tail = String.sub t 1 (String.length t - 1) in
  match t.[0] with
  | 'y' | 'b' | 'n' | 'q' | 'i' | 'u' | 'x' | 't' | 'd' | 'h' -> WBasic (VNum (n_of_int (Char.code t.[0]), pos_of_dec tail))
  | 's' | 'o' | 'g' -> WBasic (VStr (n_of_int (Char.code t.[0]), bytes_of_hex tail))
  | 'A' -> WOpen (KArray, bytes_of_text tail)
  | 'V' -> WOpen (KVariant, bytes_of_text tail)
  | '(' when tail = "" -> WOpen (KStruct, [])
  | '{' when tail = "" -> WOpen (KDict, [])
  | ']' | ')' | '}' | ';' when tail = "" -> WClose
  | _ -> raise (Bad_token t)

(* the harness pairs every opener with its own closer; a program whose closers do not match is not one the harness would execute *)
let check_nesting (toks : string list) : unit =
  let closer_of c = match c with 'A' -> "]" | '(' -> ")" | '{' -> "}" | 'V' -> ";" | _ -> "" in
  let stack = ref [] in
  List.iter (fun t ->
    match t.[0] with
    | 'A' | '(' | '{' | 'V' -> stack := closer_of t.[0] :: !stack
    | ']' | ')' | '}' | ';' -> (match !stack with c :: r when c = t -> stack := r | _ -> raise (Bad_token t))
    | _ -> ()) toks;
  if !stack <> [] then raise (Bad_token "unclosed")

let () =
  (* wbuild <le|be> <token>... : bytes=<body hex> sig=<signature hex>  |  fail@<k> (operation k, 0-based, returned None)
     | open@<n> (program ended with n containers open) *)
  reg "wbuild" (fun (order :: toks) ->
    let le = (match order with "le" -> true | "be" -> false | _ -> raise (Bad_token order)) in
    match (try check_nesting toks; Ok (List.map op_of_token toks) with Bad_token t -> Error t | Failure _ -> Error "number") with
    | Error t -> "?bad-token " ^ t
    | Ok ops ->
        let rec go st k = function
          | [] -> (match wresult st with
                   | Some (b, s) -> Printf.sprintf "bytes=%s sig=%s" (hex_of_bytes b) (hex_of_bytes s)
                   | None -> Printf.sprintf "open@%d" (List.length st.ws_iters - 1))
          | op :: r -> (match writer_step st op with
                        | Some st' -> go st' (k + 1) r
                        | None -> Printf.sprintf "fail@%d" k) in
        go (winit le [] []) 0 ops)
