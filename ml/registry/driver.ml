(* Trusted glue for the registry package (C04): parses one history per line,
   runs the extracted model (Registry.step), the extracted specification in its
   as-implemented variant and, from the same pre-state, the literal
   specification; prints one canonical result line.

   input   run <limit> <probe,probe,..|-> <event> <event> ...
           probe  U<conn> | S<hex>
           event  C | H<c> | M<c> | R<c>,<hex>,<flags> | L<c>,<hex> | D<c>[:<key>+<key>..]
   output  one block per event, separated by " | ":
           M <res> S <res|=> L <res|=> T <0|1>
           res = <outs>;<queries>;<names>                                                *)
open Model_registry

let rec pos_of_int (i : int) : positive =
  if i = 1 then XH else if i land 1 = 0 then XO (pos_of_int (i lsr 1)) else XI (pos_of_int (i lsr 1))
let n_of_int (i : int) : n = if i = 0 then N0 else Npos (pos_of_int i)
let rec int_of_pos = function XH -> 1 | XO p -> 2 * int_of_pos p | XI p -> 2 * int_of_pos p + 1
let int_of_n = function N0 -> 0 | Npos p -> int_of_pos p
let rec nat_of_int i = if i <= 0 then O else S (nat_of_int (i - 1))
let rec int_of_nat = function O -> 0 | S k -> 1 + int_of_nat k

let bytes_of_hex (h : string) : n list =
  let h = if h = "-" then "" else h in
  let l = String.length h / 2 in
  List.init l (fun i -> n_of_int (int_of_string ("0x" ^ String.sub h (2 * i) 2)))
let hex_of_bytes (l : n list) : string =
  if l = [] then "-" else String.concat "" (List.map (fun b -> Printf.sprintf "%02x" (int_of_n b)) l)

let split_ws s = List.filter (fun x -> x <> "") (String.split_on_char ' ' s)
let join sep l = if l = [] then "-" else String.concat sep l

let key_s = function KU c -> "U" ^ string_of_int (int_of_n c) | KW s -> "S" ^ hex_of_bytes s
let key_of_string t =
  if t.[0] = 'U' then KU (n_of_int (int_of_string (String.sub t 1 (String.length t - 1))))
  else KW (bytes_of_hex (String.sub t 1 (String.length t - 1)))
let qarg_of_string t =
  if t.[0] = 'U' then QU (n_of_int (int_of_string (String.sub t 1 (String.length t - 1))))
  else QS (bytes_of_hex (String.sub t 1 (String.length t - 1)))
let opt_c = function None -> "-" | Some c -> string_of_int (int_of_n c)
let err_s = function EInvalidArgs -> "InvalidArgs" | EAccessDenied -> "AccessDenied" | ELimitsExceeded -> "LimitsExceeded" | EFailed -> "Failed"
let msg_s = function
  | MHelloReply c -> "hello:" ^ string_of_int (int_of_n c)
  | MReply c -> "reply:" ^ string_of_int (int_of_n c)
  | MAck -> "ack"
  | MError e -> "err:" ^ err_s e
  | MAcquired k -> "acq:" ^ key_s k
  | MLost k -> "lost:" ^ key_s k
  | MNOC (k, o, n) -> "noc:" ^ key_s k ^ ":" ^ opt_c o ^ ":" ^ opt_c n
  | MFault -> "FAULT"
let outs_s (os : out list) = join "," (List.map (fun (c, m) -> string_of_int (int_of_n c) ^ ">" ^ msg_s m) os)
let who_s = function WBus -> "B" | WConn c -> "c" ^ string_of_int (int_of_n c)
let owner_s = function None -> "-" | Some w -> who_s w
let queued_s = function None -> "-" | Some l -> if l = [] then "empty" else String.concat "+" (List.map who_s l)

let parse_event (t : string) : event * key list option =
  let body = String.sub t 1 (String.length t - 1) in
  match t.[0] with
  | 'C' -> (EvConnect, None)
  | 'H' -> (EvHello (n_of_int (int_of_string body)), None)
  | 'M' -> (EvAddMatch (n_of_int (int_of_string body)), None)
  | 'R' -> (match String.split_on_char ',' body with
            | [c; h; f] -> (EvRequest (n_of_int (int_of_string c), bytes_of_hex h, n_of_int (int_of_string f)), None)
            | _ -> failwith "bad R")
  | 'L' -> (match String.split_on_char ',' body with
            | [c; h] -> (EvRelease (n_of_int (int_of_string c), bytes_of_hex h), None)
            | _ -> failwith "bad L")
  | 'D' -> (match String.split_on_char ':' body with
            | [c] -> (EvDisconnect (n_of_int (int_of_string c)), None)
            | [c; o] -> (EvDisconnect (n_of_int (int_of_string c)),
                         Some (if o = "-" then [] else List.map key_of_string (String.split_on_char '+' o)))
            | _ -> failwith "bad D")
  | _ -> failwith "bad event"

let model_res (b : bus) (os : out list) (probes : qarg list) (ptxt : string list) : string =
  let qs = List.map2 (fun a t -> t ^ "=" ^ owner_s (get_name_owner b a) ^ "/" ^ (if name_has_owner b a then "1" else "0") ^ "/"
                                 ^ queued_s (list_queued_owners b a)) probes ptxt in
  let names = List.map (function None -> "B" | Some k -> key_s k) (list_names b) in
  outs_s os ^ ";" ^ join "," qs ^ ";" ^ join "+" names

let spec_res (s : sstate) (os : out list) (probes : qarg list) (ptxt : string list) : string =
  let qs = List.map2 (fun a t -> t ^ "=" ^ owner_s (spec_owner s a) ^ "/" ^ (if spec_has_owner s a then "1" else "0") ^ "/"
                                 ^ queued_s (spec_queued s a)) probes ptxt in
  (* ListNames of the specification: the bus and every name with a non-empty queue *)
  let names = "B" :: List.map (fun (k, _) -> key_s k) (List.filter (fun (_, q) -> q <> []) (s_names s)) in
  outs_s os ^ ";" ^ join "," qs ^ ";" ^ join "+" names

(* names are compared as a set *)
let canon_names (r : string) : string =
  match String.split_on_char ';' r with
  | [o; q; n] -> o ^ ";" ^ q ^ ";" ^ String.concat "+" (List.sort compare (String.split_on_char '+' n))
  | _ -> r

let run_history (args : string list) : string =
  match args with
  | limit :: probes :: evs ->
      let ptxt = if probes = "-" then [] else String.split_on_char ',' probes in
      let pq = List.map qarg_of_string ptxt in
      let b = ref (init_bus (n_of_int (int_of_string limit))) in
      let s = ref (sinit (n_of_int (int_of_string limit))) in
      let blocks = List.map (fun t ->
        let (e, ord) = parse_event t in
        (* default release order for the specification: the model's services_owned, last first *)
        let ord = match ord, e with
          | Some o, _ -> o
          | None, EvDisconnect c -> (match find_conn (b_conns !b) c with Some cn -> List.rev (c_owned cn) | None -> [])
          | None, _ -> [] in
        let trig = exception_trigger !s e in
        let (b', mo) = step !b e in
        let (s', so) = spec_step as_implemented !s e ord in
        let (l', lo) = spec_step literal !s e ord in
        b := b'; s := s';
        let m = canon_names (model_res b' mo pq ptxt) in
        let sr = canon_names (spec_res s' so pq ptxt) in
        let lr = canon_names (spec_res l' lo pq ptxt) in
        "M " ^ m ^ " S " ^ (if sr = m then "=" else sr) ^ " L " ^ (if lr = m then "=" else lr) ^ " T " ^ (if trig then "1" else "0")) evs in
      String.concat " | " blocks
  | _ -> "?bad-args"

let handlers : (string, string list -> string) Hashtbl.t = Hashtbl.create 8
let () = Hashtbl.replace handlers "run" run_history
