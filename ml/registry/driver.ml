(* Trusted glue for the registry package (C04): parses one history per line,
   runs the extracted model (Registry.step), the extracted specification in its
   as-implemented variant and, from the same pre-state, the literal
   specification; prints one canonical result line.

   input   run <limit> <probe,probe,..|-> <event> <event> ...
           probe  U<conn> | S<hex>
           event  C | H<c> | M<c> | R<c>,<hex>,<flags> | L<c>,<hex> | D<c>[:<key>+<key>..]
   output  one block per event, separated by " | ":
           M <res> S <res|=> L <res|=> T <0|1>
           res = <outs>;<queries>;<names>                                                *)
open Model_registry

let rec pos_of_int (i : int) : positive =
  if i = 1 then XH else if i land 1 = 0 then XO (pos_of_int (i lsr 1)) else XI (pos_of_int (i lsr 1))
let n_of_int (i : int) : n = if i = 0 then N0 else Npos (pos_of_int i)
let rec int_of_pos = function XH -> 1 | XO p -> 2 * int_of_pos p | XI p -> 2 * int_of_pos p + 1
let int_of_n = function N0 -> 0 | Npos p -> int_of_pos p
let rec nat_of_int i = if i <= 0 then O else S (nat_of_int (i - 1))
let rec int_of_nat = function O -> 0 | S k -> 1 + int_of_nat k

let bytes_of_hex (h : string) : n list =
  let h = if h = "-" then "" else h in
  let l = String.length h / 2 in
  List.init l (fun i -> n_of_int (int_of_string ("0x" ^ String.sub h (2 * i) 2)))
let hex_of_bytes (l : n list) : string =
  if l = [] then "-" else String.concat "" (List.map (fun b -> Printf.sprintf "%02x" (int_of_n b)) l)

let split_ws s = List.filter (fun x -> x <> "") (String.split_on_char ' ' s)
let join sep l = if l = [] then "-" else String.concat sep l

let key_s = function KU c -> "U" ^ string_of_int (int_of_n c) | KW s -> "S" ^ hex_of_bytes s
let key_of_string t =
  if t.[0] = 'U' then KU (n_of_int (int_of_string (String.sub t 1 (String.length t - 1))))
  else KW (bytes_of_hex (String.sub t 1 (String.length t - 1)))
let qarg_of_string t =
  if t.[0] = 'U' then QU (n_of_int (int_of_string (String.sub t 1 (String.length t - 1))))
  else QS (bytes_of_hex (String.sub t 1 (String.length t - 1)))
let opt_c = function None -> "-" | Some c -> string_of_int (int_of_n c)
let err_s = function EInvalidArgs -> "InvalidArgs" | EAccessDenied -> "AccessDenied" | ELimitsExceeded -> "LimitsExceeded" | EFailed -> "Failed"
let msg_s = function
  | MHelloReply c -> "hello:" ^ string_of_int (int_of_n c)
  | MReply c -> "reply:" ^ string_of_int (int_of_n c)
  | MAck -> "ack"
  | MError e -> "err:" ^ err_s e
  | MAcquired k -> "acq:" ^ key_s k
  | MLost k -> "lost:" ^ key_s k
  | MNOC (k, o, n) -> "noc:" ^ key_s k ^ ":" ^ opt_c o ^ ":" ^ opt_c n
  | MFault -> "FAULT"
let outs_s (os : out list) = join "," (List.map (fun (c, m) -> string_of_int (int_of_n c) ^ ">" ^ msg_s m) os)
let who_s = function WBus -> "B" | WConn c -> "c" ^ string_of_int (int_of_n c)
let owner_s = function None -> "-" | Some w -> who_s w
let queued_s = function None -> "-" | Some l -> if l = [] then "empty" else String.concat "+" (List.map who_s l)

let parse_event (t : string) : event * key list option =
  let body = String.sub t 1 (String.length t - 1) in
  match t.[0] with
  | 'C' -> (EvConnect, None)
  | 'H' -> (EvHello (n_of_int (int_of_string body)), None)
  | 'M' -> (EvAddMatch (n_of_int (int_of_string body)), None)
  | 'R' -> (match String.split_on_char ',' body with
            | [c; h; f] -> (EvRequest (n_of_int (int_of_string c), bytes_of_hex h, n_of_int (int_of_string f)), None)
            | _ -> failwith "bad R")
  | 'L' -> (match String.split_on_char ',' body with
            | [c; h] -> (EvRelease (n_of_int (int_of_string c), bytes_of_hex h), None)
            | _ -> failwith "bad L")
  | 'D' -> (match String.split_on_char ':' body with
            | [c] -> (EvDisconnect (n_of_int (int_of_string c)), None)
            | [c; o] -> (EvDisconnect (n_of_int (int_of_string c)),
                         Some (if o = "-" then [] else List.map key_of_string (String.split_on_char '+' o)))
            | _ -> failwith "bad D")
  | _ -> failwith "bad event"

(* the model's messages go through the transaction layer (Registry/Transaction.v: bus_transaction_send for each,
   then bus_transaction_execute_and_free), with a message of another transaction already waiting in every list;
   what comes out is what is printed and compared per socket *)
let via_transaction (os : out list) : out list =
  let tid = n_of_int 7 and other = n_of_int 3 in
  let ts0 = { tp = (fun _ -> [(other, MFault)]); tc = [] } in
  fst (texec tid (stage_all (fun _ -> true) tid ts0 os))

let model_res (b : bus) (os : out list) (probes : qarg list) (ptxt : string list) : string =
  let os = via_transaction os in
  let qs = List.map2 (fun a t -> t ^ "=" ^ owner_s (get_name_owner b a) ^ "/" ^ (if name_has_owner b a then "1" else "0") ^ "/"
                                 ^ queued_s (list_queued_owners b a)) probes ptxt in
  let names = List.map (function None -> "B" | Some k -> key_s k) (list_names b) in
  outs_s os ^ ";" ^ join "," qs ^ ";" ^ join "+" names

let spec_res (s : sstate) (os : out list) (probes : qarg list) (ptxt : string list) : string =
  let qs = List.map2 (fun a t -> t ^ "=" ^ owner_s (spec_owner s a) ^ "/" ^ (if spec_has_owner s a then "1" else "0") ^ "/"
                                 ^ queued_s (spec_queued s a)) probes ptxt in
  (* ListNames of the specification: the bus and every name with a non-empty queue *)
  let names = "B" :: List.map (fun (k, _) -> key_s k) (List.filter (fun (_, q) -> q <> []) (s_names s)) in
  outs_s os ^ ";" ^ join "," qs ^ ";" ^ join "+" names

(* names are compared as a set *)
let canon_names (r : string) : string =
  match String.split_on_char ';' r with
  | [o; q; n] -> o ^ ";" ^ q ^ ";" ^ String.concat "+" (List.sort compare (String.split_on_char '+' n))
  | _ -> r

let run_history (args : string list) : string =
  match args with
  | limit :: probes :: evs ->
      let ptxt = if probes = "-" then [] else String.split_on_char ',' probes in
      let pq = List.map qarg_of_string ptxt in
      let b = ref (init_bus (n_of_int (int_of_string limit))) in
      let s = ref (sinit (n_of_int (int_of_string limit))) in
      let blocks = List.map (fun t ->
        let (e, ord) = parse_event t in
        (* default release order for the specification: the model's services_owned, last first *)
        let ord = match ord, e with
          | Some o, _ -> o
          | None, EvDisconnect c -> (match find_conn (b_conns !b) c with Some cn -> List.rev (c_owned cn) | None -> [])
          | None, _ -> [] in
        let trig = exception_trigger !s e in
        let (b', mo) = step !b e in
        let (s', so) = spec_step as_implemented !s e ord in
        let (l', lo) = spec_step literal !s e ord in
        b := b'; s := s';
        let m = canon_names (model_res b' mo pq ptxt) in
        let sr = canon_names (spec_res s' so pq ptxt) in
        let lr = canon_names (spec_res l' lo pq ptxt) in
        "M " ^ m ^ " S " ^ (if sr = m then "=" else sr) ^ " L " ^ (if lr = m then "=" else lr) ^ " T " ^ (if trig then "1" else "0")) evs in
      String.concat " | " blocks
  | _ -> "?bad-args"

(* ---------------------------------------------------------------------------------------------
   driver layer (Registry/Driver.v): raw strings on the wire, own-policy gate, ReloadConfig

   input   drun <limit> <rules|-> <probe,probe,..|-> <event> ...
           rules  '+'-joined:  a* | d* | aN<hex> | dN<hex> | aP<hex> | dP<hex>     (allow/deny own="*" / own=name / own_prefix=name)
           probe  x<hex>            raw argument string of the query methods, asked by connection 0 after every event
           event  as for `run`, plus  W<c>,<rules|->,<limit>   (ReloadConfig by connection c)
   output  blocks "M <res> S <res|=> L <res|=> T <0|1>" as for `run`; strings in hex ("-" = empty),
           errors as e:<Name>                                                                              *)
let hexs (l : n list) = hex_of_bytes l
let werr_s = function WInvalidArgs -> "InvalidArgs" | WAccessDenied -> "AccessDenied" | WLimitsExceeded -> "LimitsExceeded"
                    | WFailed -> "Failed" | WNameHasNoOwner -> "NameHasNoOwner"
let wmsg_s = function
  | WHello u -> "hello:" ^ hexs u
  | WU32 c -> "reply:" ^ string_of_int (int_of_n c)
  | WAck -> "ack"
  | WErr e -> "err:" ^ werr_s e
  | WAcquired s -> "acq:" ^ hexs s
  | WLost s -> "lost:" ^ hexs s
  | WNOC (s, a, b) -> "noc:" ^ hexs s ^ ":" ^ hexs a ^ ":" ^ hexs b
  | WStr s -> "s" ^ hexs s
  | WBool b -> if b then "1" else "0"
  | WList l -> if l = [] then "empty" else String.concat "+" (List.map hexs l)
  | WFault -> "FAULT"
let wouts_s (os : wout list) = join "," (List.map (fun (c, m) -> string_of_int (int_of_n c) ^ ">" ^ wmsg_s m) os)
(* a query answer as the harness prints it *)
let answer_s = function
  | [(_, WErr e)] -> "e:" ^ werr_s e
  | [(_, m)] -> wmsg_s m
  | _ -> "FAULT"

let parse_rules (t : string) : rule list =
  if t = "-" then [] else
  List.map (fun r ->
    let allow = (r.[0] = 'a') in
    let r0 = rule_new KOwn allow in
    if r.[1] = '*' then r0
    else let name = bytes_of_hex (String.sub r 2 (String.length r - 2)) in
         if r.[1] = 'N' then { r0 with r_name = Some name }
         else { r0 with r_name = Some name; r_prefix = true }) (String.split_on_char '+' t)

let sorted_names (l : string list) = String.concat "+" (List.sort compare l)

(* the model's answers to the probes, asked by connection 0 *)
let dmodel_res (d : dbus) (os : wout list) (probes : n list list) (ptxt : string list) : string =
  let c0 = n_of_int 0 in
  let qs = List.map2 (fun s t ->
      t ^ "=" ^ answer_s (snd (dstep d (DGetNameOwner (c0, s)))) ^ "/" ^ answer_s (snd (dstep d (DNameHasOwner (c0, s)))) ^ "/"
        ^ answer_s (snd (dstep d (DListQueuedOwners (c0, s))))) probes ptxt in
  let names = match snd (dstep d (DListNames c0)) with
    | [(_, WList l)] -> sorted_names (List.map hexs l)
    | o -> answer_s o in
  wouts_s os ^ ";" ^ join "," qs ^ ";" ^ names

(* the specification's answers, rendered with the names the model handed out *)
let dspec_res (d : dbus) (s : sstate) (os : out list) (probes : n list list) (ptxt : string list) : string =
  let ws = function None -> "e:NameHasNoOwner" | Some w -> (match who_str d w with Some u -> "s" ^ hexs u | None -> "e:Failed") in
  let wl = function None -> "e:NameHasNoOwner"
                  | Some l -> if l = [] then "empty" else String.concat "+" (List.map (fun w -> match who_str d w with Some u -> hexs u | None -> "?") l) in
  let conn0_active = (match find_conn (b_conns (d_bus d)) (n_of_int 0) with Some cn -> cn.c_active | None -> false) in
  let conn0_known = (match find_conn (b_conns (d_bus d)) (n_of_int 0) with Some _ -> true | None -> false) in
  let qs = List.map2 (fun str t ->
      let a = resolve d str in
      if not conn0_known then t ^ "=FAULT/FAULT/FAULT"
      else if not conn0_active then t ^ "=e:AccessDenied/e:AccessDenied/e:AccessDenied"
      else t ^ "=" ^ ws (spec_owner s a) ^ "/" ^ (if spec_has_owner s a then "1" else "0") ^ "/" ^ wl (spec_queued s a)) probes ptxt in
  let names =
    if not conn0_known then "FAULT" else if not conn0_active then "e:AccessDenied" else
    sorted_names (hexs dBUS_SERVICE_DBUS_str ::
                  List.map (fun (k, _) -> match kstr d k with Some u -> hexs u | None -> "?") (List.filter (fun (_, q) -> q <> []) (s_names s))) in
  wouts_s (render d os) ^ ";" ^ join "," qs ^ ";" ^ names

let drun_history (args : string list) : string =
  match args with
  | limit :: rules :: probes :: evs ->
      let ptxt = if probes = "-" then [] else String.split_on_char ',' probes in
      let pq = List.map (fun t -> bytes_of_hex (String.sub t 1 (String.length t - 1))) ptxt in
      let d = ref (dinit (parse_rules rules) (n_of_int (int_of_string limit))) in
      let rl = ref (parse_rules rules) in
      let s = ref (sinit (n_of_int (int_of_string limit))) in
      let blocks = List.map (fun t ->
        if t.[0] = 'W' then begin
          match String.split_on_char ',' (String.sub t 1 (String.length t - 1)) with
          | [c; r; l] ->
              let c = n_of_int (int_of_string c) and nr = parse_rules r and nl = n_of_int (int_of_string l) in
              let (d', mo) = dstep !d (DReload (c, nr, nl)) in
              (* the specification: the caller gets its acknowledgement, limit and rules change, names stay *)
              let ok = (match mo with [(_, WAck)] -> true | _ -> false) in
              if ok then begin s := spec_reload !s nl; rl := nr end;
              d := d';
              let m = dmodel_res d' mo pq ptxt in
              let so = if ok then [(c, MAck)] else (match find_conn (b_conns (d_bus d')) c with Some _ -> [(c, MError EAccessDenied)] | None -> [(c, MFault)]) in
              let sr = dspec_res d' !s so pq ptxt in
              "M " ^ m ^ " S " ^ (if sr = m then "=" else sr) ^ " L " ^ (if sr = m then "=" else sr) ^ " T 0"
          | _ -> failwith "bad W"
        end else begin
          let (e, ord) = parse_event t in
          let ord = match ord, e with
            | Some o, _ -> o
            | None, EvDisconnect c -> (match find_conn (b_conns (d_bus !d)) c with Some cn -> List.rev (c_owned cn) | None -> [])
            | None, _ -> [] in
          let trig = exception_trigger !s e in
          let (d', mo) = dstep !d (DReg e) in
          let (s', so) = dspec_step as_implemented !rl !s e ord in
          let (l', lo) = dspec_step literal !rl !s e ord in
          d := d'; s := s';
          let m = dmodel_res d' mo pq ptxt in
          let sr = dspec_res d' s' so pq ptxt in
          let lr = dspec_res d' l' lo pq ptxt in
          "M " ^ m ^ " S " ^ (if sr = m then "=" else sr) ^ " L " ^ (if lr = m then "=" else lr) ^ " T " ^ (if trig then "1" else "0")
        end) evs in
      String.concat " | " blocks
  | _ -> "?bad-args"

let handlers : (string, string list -> string) Hashtbl.t = Hashtbl.create 8
let () = Hashtbl.replace handlers "run" run_history
let () = Hashtbl.replace handlers "drun" drun_history
