(* Trusted glue for package auth (C08): reads one case per line, runs the
   extracted Coq model of the SASL server, prints one canonical result per line
   in the same format as harness/c/auth_h.c. *)
open Model_auth

let rec pos_of_int (i : int) : positive =
  if i = 1 then XH else if i land 1 = 0 then XO (pos_of_int (i lsr 1)) else XI (pos_of_int (i lsr 1))
let n_of_int (i : int) : n = if i = 0 then N0 else Npos (pos_of_int i)
let rec int_of_pos = function XH -> 1 | XO p -> 2 * int_of_pos p | XI p -> 2 * int_of_pos p + 1
let int_of_n = function N0 -> 0 | Npos p -> int_of_pos p

(* decimal strings <-> N without going through OCaml ints (uids are 64-bit) *)
let n_of_dec (s : string) : n =
  let ten = n_of_int 10 in
  let r = ref N0 in
  String.iter (fun c -> r := N.add (N.mul !r ten) (n_of_int (Char.code c - 48))) s; !r
let rec dec_of_n (x : n) : string =
  let ten = n_of_int 10 in
  let q = N.div x ten and d = int_of_n (N.modulo x ten) in
  (if q = N0 then "" else dec_of_n q) ^ string_of_int d

let bytes_of_hex (h : string) : n list =
  let h = if h = "-" then "" else h in
  let l = String.length h / 2 in
  List.init l (fun i -> n_of_int (int_of_string ("0x" ^ String.sub h (2 * i) 2)))
let hex_of_bytes (l : n list) : string =
  if l = [] then "-" else String.concat "" (List.map (fun b -> Printf.sprintf "%02x" (int_of_n b land 255)) l)
let bytes_of_string (s : string) : n list = List.init (String.length s) (fun i -> n_of_int (Char.code s.[i]))

let split_ws s = List.filter (fun x -> x <> "") (String.split_on_char ' ' s)
let split_on c s = if s = "-" || s = "" then [] else String.split_on_char c s

let field (toks : string list) (key : string) : string =
  let l = String.length key in
  match List.find_opt (fun t -> String.length t > l && String.sub t 0 l = key && t.[l] = '=') toks with
  | Some t -> String.sub t (l + 1) (String.length t - l - 1)
  | None -> "-"

let optn s = if s = "-" then None else Some (n_of_dec s)

let handlers : (string, string list -> string) Hashtbl.t = Hashtbl.create 16
let reg name f = Hashtbl.replace handlers name f

let rc_letter = function
  | W_WaitingForInput -> "I" | W_HaveBytesToSend -> "B" | W_NeedDisconnect -> "D" | W_Authenticated -> "A" | W_Aborted -> "X"
let state_name = function
  | WaitingForAuth -> "WaitingForAuth" | WaitingForData -> "WaitingForData" | WaitingForBegin -> "WaitingForBegin"
  | Authenticated -> "Authenticated" | NeedDisconnect -> "NeedDisconnect" | Crashed -> "Crashed"

let env_of_toks toks : env =
  let users = List.map (fun kv -> match String.split_on_char ':' kv with
      | [k; v] -> (bytes_of_hex k, n_of_dec v) | _ -> failwith "users") (split_on '/' (field toks "users")) in
  let cookies = List.map (fun kv -> match String.split_on_char ':' kv with
      | [k; v] -> (n_of_dec k, bytes_of_string v) | _ -> failwith "cookies") (split_on '/' (field toks "cookies")) in
  let best = Array.of_list (List.map optn (split_on '/' (field toks "best"))) in
  let chals = Array.of_list (List.map (fun h -> if h = "x" then None else Some (bytes_of_hex h)) (split_on '/' (field toks "chals"))) in
  let gids = match field toks "gids" with "-" -> None | g -> Some (List.map n_of_dec (String.split_on_char '.' g)) in
  let mechs = match field toks "mechs" with
    | "*" -> None | "-" -> Some [] | m -> Some (List.map bytes_of_string (String.split_on_char '.' m)) in
  { e_sock = { c_uid = optn (field toks "uid"); c_pid = optn (field toks "pid"); c_gids = gids };
    e_allowed = mechs;
    e_guid = bytes_of_string "feedfacefeedfacefeedfacefeedface";
    e_fd_possible = (field toks "fdp" = "1");
    e_asserts = (field toks "asserts" <> "0");
    e_process_uid = (match field toks "puid" with "-" -> N0 | s -> n_of_dec s);
    e_userdb = (fun name -> List.assoc_opt name users);
    e_context = (match field toks "ctx" with "-" -> default_context | h -> bytes_of_hex h);
    e_keyring_ok = (field toks "kok" <> "0");
    e_best_key = (fun k -> let i = int_of_n k in if i < Array.length best then best.(i) else None);
    e_cookie = (fun id -> match List.assoc_opt id cookies with Some c -> c | None -> []);
    e_challenge = (fun k -> let i = int_of_n k in if i < Array.length chals then chals.(i) else None) }

let creds_str (c : creds) =
  let o = function None -> "-" | Some x -> dec_of_n x in
  o c.c_uid ^ "/" ^ o c.c_pid ^ "/" ^ (match c.c_gids with None | Some [] -> "-" | Some l -> String.concat "." (List.map dec_of_n l))

let () =
  reg "authm" (fun toks ->
      let e = env_of_toks toks in
      let buf = Buffer.create 256 in
      let a = ref auth_init in
      let fuel_out = ref false in
      let do_step ev =
        match step e !a ev with
        | Some a' -> a := a'; Buffer.add_string buf (rc_letter (work_result a') ^ ":" ^ hex_of_bytes a'.a_outgoing ^ " ")
        | None -> fuel_out := true in
      List.iter (fun st ->
          if st <> "" then
            match st.[0] with
            | 'F' -> do_step (Feed (bytes_of_hex (String.sub st 1 (String.length st - 1))))
            | 'S' ->
                let ol = List.length !a.a_outgoing in
                let n = if st = "S*" then ol else min ol (int_of_string (String.sub st 1 (String.length st - 1))) in
                do_step (Sent (n_of_int n))
            | _ -> Buffer.add_string buf "?bad-step ")
        (String.split_on_char ',' (field toks "steps"));
      (* final: everything written out, one more do_work *)
      (match step e !a (Sent (n_of_int (List.length !a.a_outgoing))) with Some a' -> a := a' | None -> fuel_out := true);
      let rc = work_result !a in
      Buffer.add_string buf ("end " ^ rc_letter rc);
      Buffer.add_string buf (" id=" ^ (if rc = W_Authenticated then creds_str (get_identity !a) else "N"));
      Buffer.add_string buf (" unused=" ^ (if rc = W_Authenticated || rc = W_NeedDisconnect
                                           then (match unused_bytes !a with Some b -> hex_of_bytes b | None -> "N") else "N"));
      Buffer.add_string buf (" fdneg=" ^ (if !a.a_core.a_fd_negotiated then "1" else "0"));
      Buffer.add_string buf (" st=" ^ state_name !a.a_core.a_state ^ " fail=" ^ dec_of_n !a.a_core.a_failures
                             ^ " mech=" ^ (match !a.a_core.a_mech with None -> "-" | Some EXTERNAL -> "E" | Some COOKIE_SHA1 -> "C" | Some ANONYMOUS -> "A"));
      if !fuel_out then "?out-of-fuel" else Buffer.contents buf);
  (* specm <env> lines=<hex>/<hex>/_ ...  ->  per line the response kinds the SPECIFICATION prescribes, then the final phase *)
  reg "specm" (fun toks ->
      let e = env_of_toks toks in
      let buf = Buffer.create 256 in
      let sp = ref spec_init in
      let kind_str = function
        | K_Rejected -> "R" | K_Ok -> "O" | K_Error -> "E" | K_Data d -> "D" ^ hex_of_bytes d | K_AgreeFd -> "A" in
      let oddhex = ref 0 in
      let stop = ref (-1) and idx = ref 0 in
      List.iter (fun h ->
          let line = if h = "_" then [] else bytes_of_hex h in
          let ended = (match !sp.sp_phase with SP_Authenticated _ | SP_Disconnect -> true | _ -> false) in
          (if not ended then
             let ha = hexarg_of line in
             if List.length ha mod 2 = 1 && unhex (ha @ [n_of_int 48]) <> None then incr oddhex);
          let (sp', ks) = spec_step e !sp line in
          sp := sp';
          (if not ended && !stop < 0 then
             match sp'.sp_phase with SP_Authenticated _ | SP_Disconnect -> stop := !idx | _ -> ());
          incr idx;
          Buffer.add_string buf ((if ks = [] then "-" else String.concat "," (List.map kind_str ks)) ^ " "))
        (split_on '/' (field toks "lines"));
      let ph = match !sp.sp_phase with
        | SP_WaitingForAuth -> "WaitingForAuth" | SP_WaitingForData_External -> "WaitingForData" | SP_WaitingForData_Cookie _ -> "WaitingForData"
        | SP_WaitingForBegin _ -> "WaitingForBegin" | SP_Authenticated w -> "Authenticated:" ^ creds_str w | SP_Disconnect -> "Disconnect" in
      Buffer.add_string buf ("end " ^ ph ^ " rej=" ^ dec_of_n !sp.sp_rejects ^ " fd=" ^ (if !sp.sp_fd then "1" else "0") ^ " oddhex=" ^ string_of_int !oddhex ^ " stop=" ^ string_of_int !stop);
      Buffer.contents buf);
  reg "sha1m" (fun [h] -> String.concat "" (List.map (fun b -> String.make 1 (Char.chr (int_of_n b))) (hex_encode (sha1 (bytes_of_hex h)))));
  reg "hexdecm" (fun [h] -> let (d, e) = hex_decode (bytes_of_hex h) in string_of_int (int_of_n e) ^ " " ^ hex_of_bytes d);
  reg "uidstrm" (fun [h] -> match parse_ulong (bytes_of_hex h) with
      | None -> "-" | Some u -> (match uid_of_ulong u with None -> "unset" | Some v -> dec_of_n v))
