(* Trusted glue for package auth (C08): reads one case per line, runs the
   extracted Coq model of the SASL server, prints one canonical result per line
   in the same format as harness/c/auth_h.c. *)
open Model_auth

let rec pos_of_int (i : int) : positive =
  if i = 1 then XH else if i land 1 = 0 then XO (pos_of_int (i lsr 1)) else XI (pos_of_int (i lsr 1))
let n_of_int (i : int) : n = if i = 0 then N0 else Npos (pos_of_int i)
let rec int_of_pos = function XH -> 1 | XO p -> 2 * int_of_pos p | XI p -> 2 * int_of_pos p + 1
let int_of_n = function N0 -> 0 | Npos p -> int_of_pos p

(* decimal strings <-> N without going through OCaml ints (uids are 64-bit) *)
let n_of_dec (s : string) : n =
  let ten = n_of_int 10 in
  let r = ref N0 in
  String.iter (fun c -> r := N.add (N.mul !r ten) (n_of_int (Char.code c - 48))) s; !r
let rec dec_of_n (x : n) : string =
  let ten = n_of_int 10 in
  let q = N.div x ten and d = int_of_n (N.modulo x ten) in
  (if q = N0 then "" else dec_of_n q) ^ string_of_int d

let z_of_dec (s : string) : z =
  if s <> "" && s.[0] = '-' then (match n_of_dec (String.sub s 1 (String.length s - 1)) with N0 -> Z0 | Npos p -> Zneg p)
  else (match n_of_dec s with N0 -> Z0 | Npos p -> Zpos p)
let dec_of_z (x : z) : string = match x with Z0 -> "0" | Zpos p -> dec_of_n (Npos p) | Zneg p -> "-" ^ dec_of_n (Npos p)

let bytes_of_hex (h : string) : n list =
  let h = if h = "-" then "" else h in
  let l = String.length h / 2 in
  List.init l (fun i -> n_of_int (int_of_string ("0x" ^ String.sub h (2 * i) 2)))
let hex_of_bytes (l : n list) : string =
  if l = [] then "-" else String.concat "" (List.map (fun b -> Printf.sprintf "%02x" (int_of_n b land 255)) l)
let bytes_of_string (s : string) : n list = List.init (String.length s) (fun i -> n_of_int (Char.code s.[i]))

let b2s b = if b then "1" else "0"
let split_ws s = List.filter (fun x -> x <> "") (String.split_on_char ' ' s)
let split_on c s = if s = "-" || s = "" then [] else String.split_on_char c s

let field (toks : string list) (key : string) : string =
  let l = String.length key in
  match List.find_opt (fun t -> String.length t > l && String.sub t 0 l = key && t.[l] = '=') toks with
  | Some t -> String.sub t (l + 1) (String.length t - l - 1)
  | None -> "-"

let optn s = if s = "-" then None else Some (n_of_dec s)

let handlers : (string, string list -> string) Hashtbl.t = Hashtbl.create 16
let reg name f = Hashtbl.replace handlers name f

let rc_letter = function
  | W_WaitingForInput -> "I" | W_HaveBytesToSend -> "B" | W_NeedDisconnect -> "D" | W_Authenticated -> "A" | W_Aborted -> "X"
let state_name = function
  | WaitingForAuth -> "WaitingForAuth" | WaitingForData -> "WaitingForData" | WaitingForBegin -> "WaitingForBegin"
  | Authenticated -> "Authenticated" | NeedDisconnect -> "NeedDisconnect" | Crashed -> "Crashed"

(* the keyring file as _dbus_keyring_reload saves it *)
let render_key (k : key) : n list =
  bytes_of_string (dec_of_n k.k_id ^ " " ^ dec_of_z k.k_time ^ " ") @ hex_encode k.k_secret

(* world of one connection / one keyring object: the file changes only when this process saves it.
   toks: now= file=<hexline>/... (_ = empty line) dirp0= dirp= newkeys=<id:hexsecret>/...   n = attempts to prepare *)
let world_of_toks toks (n : int) : kworld =
  let now = z_of_dec (match field toks "now" with "-" -> "0" | s -> s) in
  let file0 = List.map (fun h -> if h = "_" then [] else bytes_of_hex h) (split_on '/' (field toks "file")) in
  let newkeys = Array.of_list (List.map (fun kv -> match String.split_on_char ':' kv with
      | [k; v] -> (n_of_dec k, bytes_of_hex v) | _ -> failwith "newkeys") (split_on '/' (field toks "newkeys"))) in
  (* beyond what the implementation showed the random source still works (a key / challenge the implementation did not
     produce must not be explained away as a failing random source) *)
  let newkey j = if j < Array.length newkeys then newkeys.(j)
    else (n_of_int (0x5a5a5a0 + j), List.init 24 (fun _ -> n_of_int 0x5a)) in
  let dirp0 = field toks "dirp0" <> "0" and dirp = field toks "dirp" <> "0" in
  let files : (int, n list list) Hashtbl.t = Hashtbl.create 8 in
  let assign : (int, int) Hashtbl.t = Hashtbl.create 8 in
  Hashtbl.replace files 0 file0;
  let rec file_at i = match Hashtbl.find_opt files i with Some f -> f | None -> if i <= 0 then file0 else file_at (i - 1) in
  let w = { w_now = (fun _ -> now); w_file = (fun k -> file_at (int_of_n k));
            w_dir_private0 = dirp0; w_dir_private = (fun _ -> dirp); w_lock_ok = (fun _ -> true); w_save_ok = (fun _ -> true);
            w_new_ids = (fun k -> match Hashtbl.find_opt assign (int_of_n k) with Some j -> [fst (newkey j)] | None -> []);
            w_new_secret = (fun k -> match Hashtbl.find_opt assign (int_of_n k) with Some j -> Some (snd (newkey j)) | None -> None) } in
  let next = ref 0 in
  let keys = ref (keyring_new w) in
  for k = 0 to n - 1 do
    Hashtbl.replace assign k !next;
    let (keys', _) = get_best_key w (n_of_int k) !keys in
    if List.length keys' <> List.length !keys || keys' != !keys then begin
      (* a reload with add_new happened and was saved *)
      if List.exists (fun kk -> kk.k_id = fst (newkey !next)) keys'
         && not (List.exists (fun kk -> kk.k_id = fst (newkey !next)) !keys) then incr next;
      Hashtbl.replace files (k + 1) (List.map render_key keys')
    end;
    keys := keys'
  done;
  w

let env_of_toks toks : env =
  let users = List.map (fun kv -> match String.split_on_char ':' kv with
      | [k; v] -> (bytes_of_hex k, n_of_dec v) | _ -> failwith "users") (split_on '/' (field toks "users")) in
  let chals = Array.of_list (List.map (fun h -> if h = "x" then None else Some (bytes_of_hex h)) (split_on '/' (field toks "chals"))) in
  let gids = match field toks "gids" with "-" -> None | g -> Some (List.map n_of_dec (String.split_on_char '.' g)) in
  let mechs = match field toks "mechs" with
    | "*" -> None | "-" -> Some [] | m -> Some (List.map bytes_of_string (String.split_on_char '.' m)) in
  let nsteps = List.length (String.split_on_char ',' (field toks "steps")) + List.length (split_on '/' (field toks "lines")) + 1 in
  let w = world_of_toks toks nsteps in
  env_of_world w
    { c_uid = optn (field toks "uid"); c_pid = optn (field toks "pid"); c_gids = gids }
    mechs (bytes_of_string "feedfacefeedfacefeedfacefeedface") (field toks "fdp" = "1") (field toks "asserts" <> "0")
    (match field toks "puid" with "-" -> N0 | s -> n_of_dec s)
    (fun name -> List.assoc_opt name users)
    (match field toks "ctx" with "-" -> default_context | h -> bytes_of_hex h)
    (fun k -> let i = int_of_n k in if i < Array.length chals then chals.(i) else Some (List.init 16 (fun _ -> n_of_int 0x5a)))

let creds_str (c : creds) =
  let o = function None -> "-" | Some x -> dec_of_n x in
  o c.c_uid ^ "/" ^ o c.c_pid ^ "/" ^ (match c.c_gids with None | Some [] -> "-" | Some l -> String.concat "." (List.map dec_of_n l))

let () =
  reg "authm" (fun toks ->
      let e = env_of_toks toks in
      let buf = Buffer.create 256 in
      let a = ref auth_init in
      let fuel_out = ref false in
      let do_step ev =
        match step e !a ev with
        | Some a' -> a := a'; Buffer.add_string buf (rc_letter (work_result a') ^ ":" ^ hex_of_bytes a'.a_outgoing ^ " ")
        | None -> fuel_out := true in
      List.iter (fun st ->
          if st <> "" then
            match st.[0] with
            | 'F' -> do_step (Feed (bytes_of_hex (String.sub st 1 (String.length st - 1))))
            | 'S' ->
                let ol = List.length !a.a_outgoing in
                let n = if st = "S*" then ol else min ol (int_of_string (String.sub st 1 (String.length st - 1))) in
                do_step (Sent (n_of_int n))
            | _ -> Buffer.add_string buf "?bad-step ")
        (String.split_on_char ',' (field toks "steps"));
      (* final: everything written out, one more do_work *)
      (match step e !a (Sent (n_of_int (List.length !a.a_outgoing))) with Some a' -> a := a' | None -> fuel_out := true);
      let rc = work_result !a in
      Buffer.add_string buf ("end " ^ rc_letter rc);
      Buffer.add_string buf (" id=" ^ (if rc = W_Authenticated then creds_str (get_identity !a) else "N"));
      Buffer.add_string buf (" unused=" ^ (if rc = W_Authenticated || rc = W_NeedDisconnect
                                           then (match unused_bytes !a with Some b -> hex_of_bytes b | None -> "N") else "N"));
      Buffer.add_string buf (" fdneg=" ^ (if !a.a_core.a_fd_negotiated then "1" else "0"));
      Buffer.add_string buf (" st=" ^ state_name !a.a_core.a_state ^ " fail=" ^ dec_of_n !a.a_core.a_failures
                             ^ " mech=" ^ (match !a.a_core.a_mech with None -> "-" | Some EXTERNAL -> "E" | Some COOKIE_SHA1 -> "C" | Some ANONYMOUS -> "A"));
      if !fuel_out then "?out-of-fuel" else Buffer.contents buf);
  (* specm <env> lines=<hex>/<hex>/_ ...  ->  per line the response kinds the SPECIFICATION prescribes, then the final phase *)
  reg "specm" (fun toks ->
      let e = env_of_toks toks in
      let buf = Buffer.create 256 in
      let sp = ref spec_init in
      let kind_str = function
        | K_Rejected -> "R" | K_Ok -> "O" | K_Error -> "E" | K_Data d -> "D" ^ hex_of_bytes d | K_AgreeFd -> "A" in
      let oddhex = ref 0 in
      let stop = ref (-1) and idx = ref 0 in
      List.iter (fun h ->
          let line = if h = "_" then [] else bytes_of_hex h in
          let ended = (match !sp.sp_phase with SP_Authenticated _ | SP_Disconnect -> true | _ -> false) in
          (if not ended then
             let ha = hexarg_of line in
             if List.length ha mod 2 = 1 && unhex (ha @ [n_of_int 48]) <> None then incr oddhex);
          let (sp', ks) = spec_step e !sp line in
          sp := sp';
          (if not ended && !stop < 0 then
             match sp'.sp_phase with SP_Authenticated _ | SP_Disconnect -> stop := !idx | _ -> ());
          incr idx;
          Buffer.add_string buf ((if ks = [] then "-" else String.concat "," (List.map kind_str ks)) ^ " "))
        (split_on '/' (field toks "lines"));
      let ph = match !sp.sp_phase with
        | SP_WaitingForAuth -> "WaitingForAuth" | SP_WaitingForData_External -> "WaitingForData" | SP_WaitingForData_Cookie _ -> "WaitingForData"
        | SP_WaitingForBegin _ -> "WaitingForBegin" | SP_Authenticated w -> "Authenticated:" ^ creds_str w | SP_Disconnect -> "Disconnect" in
      Buffer.add_string buf ("end " ^ ph ^ " rej=" ^ dec_of_n !sp.sp_rejects ^ " fd=" ^ (if !sp.sp_fd then "1" else "0") ^ " oddhex=" ^ string_of_int !oddhex ^ " stop=" ^ string_of_int !stop);
      Buffer.contents buf);
  (* keyringm now= ctx= file= dirp0= dirp= newkeys= ops=B,H<id>,...  (same output as the harness, without keyfile) *)
  reg "keyringm" (fun toks ->
      let ops = split_on ',' (field toks "ops") in
      let ctx = (match field toks "ctx" with "-" -> default_context | h -> bytes_of_hex h) in
      if not (validate_context ctx) then "new=0"
      else begin
        let w = world_of_toks toks (List.length ops + 1) in
        let buf = Buffer.create 64 in
        Buffer.add_string buf "new=1";
        let keys = ref (keyring_new w) and k = ref 0 in
        List.iter (fun op ->
            if op = "B" then begin
              let (keys', best) = get_best_key w (n_of_int !k) !keys in
              keys := keys'; incr k;
              Buffer.add_string buf (" B:" ^ (match best with Some id -> dec_of_n id | None -> "-1"))
            end else if op <> "" && op.[0] = 'H' then begin
              let hk = get_hex_key !keys (n_of_dec (String.sub op 1 (String.length op - 1))) in
              Buffer.add_string buf (" H:" ^ (if hk = [] then "-" else String.concat "" (List.map (fun b -> String.make 1 (Char.chr (int_of_n b land 255))) hk)))
            end) ops;
        Buffer.add_string buf (" keys=" ^ (String.concat "/" (List.map (fun kk -> dec_of_n kk.k_id ^ ":" ^ hex_of_bytes kk.k_secret) !keys)));
        Buffer.contents buf
      end);
  (* xferm <env> stream=<hex> cuts=<i.j.k|-> anon=<0|1> uidfn=<uid|->: the transport model on one cutting of the stream into
     reads (after every read the answers are written out and the dispatch status is recomputed) *)
  reg "xferm" (fun toks ->
      let e = env_of_toks toks in
      let stream = bytes_of_hex (field toks "stream") in
      let cuts = List.map int_of_string (split_on '.' (field toks "cuts")) in
      let rec split prev cs s = match cs with
        | [] -> [s]
        | c :: r -> let n = c - prev in
            let rec take k l = if k = 0 then ([], l) else (match l with [] -> ([], []) | x :: t -> let (a, b) = take (k - 1) t in (x :: a, b)) in
            let (a, b) = take n s in a :: split c r b in
      let chunks = split 0 cuts stream in
      let te = { t_env = e; t_allow_anonymous = (field toks "anon" = "1");
                 t_unix_user_fn = (match field toks "uidfn" with "-" -> None | u -> let uu = n_of_dec u in Some (fun x -> x = uu)) } in
      let (t, consumed) = trun te transport_init (drive chunks) in
      Printf.sprintf "auth=%s rec=%s disc=%s id=%s loader=%s consumed=%d"
        (b2s t.tr_authenticated) (b2s t.tr_recovered) (b2s t.tr_disconnected) (creds_str (get_identity t.tr_auth)) (hex_of_bytes t.tr_loader) (List.length consumed));
  reg "sha1m" (fun [h] -> String.concat "" (List.map (fun b -> String.make 1 (Char.chr (int_of_n b))) (hex_encode (sha1 (bytes_of_hex h)))));
  reg "hexdecm" (fun [h] -> let (d, e) = hex_decode (bytes_of_hex h) in string_of_int (int_of_n e) ^ " " ^ hex_of_bytes d);
  reg "uidstrm" (fun [h] -> match parse_ulong (bytes_of_hex h) with
      | None -> "-" | Some u -> (match uid_of_ulong u with None -> "unset" | Some v -> dec_of_n v))
