(* Trusted glue for C17: parses one scripted schedule per line, runs the
   extracted Coq state machine (single-threaded semantics step1), prints the
   same canonical trace the C harness prints. *)
open Model_pending

let rec pos_of_int (i : int) : positive =
  if i = 1 then XH else if i land 1 = 0 then XO (pos_of_int (i lsr 1)) else XI (pos_of_int (i lsr 1))
let n_of_int (i : int) : n = if i = 0 then N0 else Npos (pos_of_int i)
let rec int_of_pos = function XH -> 1 | XO p -> 2 * int_of_pos p | XI p -> 2 * int_of_pos p + 1
let int_of_n = function N0 -> 0 | Npos p -> int_of_pos p
let int_of_z = function Z0 -> 0 | Zpos p -> int_of_pos p | Zneg p -> - (int_of_pos p)
let z_of_int i = if i = 0 then Z0 else if i > 0 then Zpos (pos_of_int i) else Zneg (pos_of_int (-i))
let rec nat_of_int i = if i <= 0 then O else S (nat_of_int (i - 1))
let rec int_of_nat = function O -> 0 | S k -> 1 + int_of_nat k

let split_ws s = List.filter (fun x -> x <> "") (String.split_on_char ' ' s)
let handlers : (string, string list -> string) Hashtbl.t = Hashtbl.create 16
let reg name f = Hashtbl.replace handlers name f

let pk = function "r" -> PReturn | "e" -> PError | "s" -> PSignal | s -> failwith ("kind " ^ s)

let timeout_arg ms = if ms = "inf" then 2147483647 else int_of_string ms

let parse_event (tok : string) : event =
  match String.split_on_char ',' tok with
  | ["S"; ms; nf] -> ESend (effective_timeout (z_of_int (timeout_arg ms)) <> None, nf = "1")
  | ["P"] -> EPlain
  | ["M"; k; target; tag] ->
      let v = int_of_string (String.sub target 1 (String.length target - 1)) in
      if target.[0] = 'c' then EPeerReply (pk k, nat_of_int v, n_of_int (int_of_string tag))
      else EPeer (pk k, n_of_int v, n_of_int (int_of_string tag))
  | ["R"] -> ERead | ["W"] -> EWatch
  | ["F"; i] -> EFire (nat_of_int (int_of_string i))
  | ["C"; i] -> ECancel (nat_of_int (int_of_string i))
  | ["B"; i] -> EBlock (nat_of_int (int_of_string i))
  | ["D"] -> EDispatch
  | ["T"; i] -> ESteal (nat_of_int (int_of_string i))
  | ["X"] -> EPeerClose | ["L"] -> ELocalClose
  (* fine-grained events, model only *)
  | ["f"; i] -> EFinish (nat_of_int (int_of_string i))
  | ["u"] -> EStatus | ["i"] -> EIter
  | ["k"; i] -> EBlockCheck (nat_of_int (int_of_string i))
  | ["b"; i; t] -> EBlockStep (nat_of_int (int_of_string i), t = "1")
  | _ -> failwith ("event " ^ tok)

(* "BW,i,k:target:tag+k:target:tag/..." : block on call i while the peer delivers the batches *)
type item = Ev of event | SendI of event * string | BW of nat * pmsg list list | BT of nat * int * tv list * pmsg list list | TT of nat * nat * pmsg list
let parse_pmsg (t : string) : pmsg =
  if t = "x" then PClose else
  match String.split_on_char ':' t with
  | [k; target; tag] ->
      let v = int_of_string (String.sub target 1 (String.length target - 1)) in
      PM (pk k, (if target.[0] = 'c' then Inl (nat_of_int v) else Inr (n_of_int v)), n_of_int (int_of_string tag))
  | _ -> failwith ("pmsg " ^ t)
let parse_item (tok : string) : item =
  match String.split_on_char ',' tok with
  | ["BW"; i; spec] ->
      BW (nat_of_int (int_of_string i),
          List.map (fun b -> List.map parse_pmsg (String.split_on_char '+' b)) (String.split_on_char '/' spec))
  | ["TT"; a; b; spec] ->
      TT (nat_of_int (int_of_string a), nat_of_int (int_of_string b), List.map parse_pmsg (String.split_on_char '+' spec))
  | ["BT"; i; arg; clocks; arr] ->
      let cl = List.map (fun c -> match String.split_on_char '.' c with
                                  | [a; b] -> { tv_sec = z_of_int (int_of_string a); tv_usec = z_of_int (int_of_string b) }
                                  | _ -> failwith ("clock " ^ c)) (String.split_on_char '/' clocks) in
      let ar = if arr = "x" then [] else
          List.map (fun b -> if b = "-" then [] else List.map parse_pmsg (String.split_on_char '+' b)) (String.split_on_char '/' arr) in
      BT (nat_of_int (int_of_string i), timeout_arg arg, cl, ar)
  | ["S"; ms; _] -> SendI (parse_event tok,
                           (match effective_timeout (z_of_int (timeout_arg ms)) with None -> "i-" | Some z -> Printf.sprintf "i%d" (int_of_z z)))
  | _ -> Ev (parse_event tok)

let fmt_msg hide (m : msg) =
  match m.m_kind with
  | KPeer PReturn -> Printf.sprintf "r%d.%d" (int_of_n m.m_rs) (int_of_n m.m_tag)
  | KPeer PError -> Printf.sprintf "e%d.%d" (int_of_n m.m_rs) (int_of_n m.m_tag)
  | KPeer PSignal -> Printf.sprintf "s%d.%d" (int_of_n m.m_rs) (int_of_n m.m_tag)
  | KNoReply -> if hide then "N" else Printf.sprintf "N%d" (int_of_n m.m_rs)
  | KDisconnected -> Printf.sprintf "X%d" (int_of_n m.m_rs)
  | KDiscSignal -> "Z"

let fmt_obs = function
  | OSent None -> "s-" | OSent (Some s) -> Printf.sprintf "s%d" (int_of_n s)
  | OPlain s -> Printf.sprintf "p%d" (int_of_n s)
  | OWatch b -> if b then "w" else "w-"
  | OFired b -> if b then "F" else "F-"
  | OComplete (_, _) -> ""
  | ONotify i -> Printf.sprintf "n%d" (int_of_nat i)
  | OFilter m -> "f" ^ fmt_msg true m
  | ODispatch remains -> if remains then "d0" else "d1"
  | OStolen None -> "t-" | OStolen (Some None) -> "t0" | OStolen (Some (Some m)) -> "t" ^ fmt_msg false m
  | OHang -> "HANG" | OFault -> "FAULT" | OFuel -> "FUEL"

let early = function ONotify _ | OFilter _ -> true | _ -> false

let fmt_state (st : state) =
  "|" ^ String.concat "," (List.map (fun c ->
      Printf.sprintf "%d%d%d" (if c.c_completed then 1 else 0) (if c.c_tadded then 1 else 0) (int_of_n c.c_notified)) st.calls)
  ^ (if st.connected then "" else "/d")

(* ghost completion log "i=msg" for the spec oracle on the Python side *)
let completions (os : obs list) =
  String.concat "," (List.filter_map (function OComplete (i, m) -> Some (Printf.sprintf "%d=%s" (int_of_nat i) (fmt_msg false m)) | _ -> None) os)

let run_line single toks =
  let base_of t p = let l = String.length p in
    if String.length t > l && String.sub t 0 l = p then Some (int_of_string (String.sub t l (String.length t - l))) else None in
  let (b, toks) = match toks with
    | t :: rest -> (match base_of t "base=", base_of t "realbase=" with
                    | Some b, _ | _, Some b -> (b, rest)
                    | _ -> (1, toks))
    | [] -> (1, toks) in
  let evs = List.map parse_item toks in
  let st = ref (init_at (n_of_int b)) in
  let segs = List.map (fun it ->
      let (st', os, pre) = (match it with
                       | Ev e -> let (a, b) = (if single then step1 else step) !st e in (a, b, "")
                       | SendI (e, iv) -> let (a, b) = (if single then step1 else step) !st e in
                           (a, b, if List.exists (function OSent (Some _) -> true | _ -> false) b then iv else "")
                       | BW (i, bs) -> let (a, b) = block_with !st i bs in (a, b, "")
                       | TT (a, b, msgs) ->
                           let ncalls = List.length !st.calls in
                           if int_of_nat a >= ncalls || int_of_nat b >= ncalls || a = b || !st.peer_closed || not !st.connected then (!st, [], "TT-")
                           else begin
                             let (ts, obs) = two_threads true !st a b msgs in
                             let per k = String.concat "" (List.filter_map (function
                                 | TObs (j, o) when int_of_nat j = k -> Some (fmt_obs o)
                                 | TPoll j when int_of_nat j = k -> Some "q-1"
                                 | TSleep j when int_of_nat j = k -> Some "!sleep"
                                 | _ -> None) obs) in
                             (ts.ts_base, [], Printf.sprintf "A[%s]B[%s]" (per 0) (per 1))
                           end
                       | BT (i, arg, cl, ar) ->
                           let r = block_timed !st i (z_of_int arg) cl ar in
                           (r.t_state, r.t_obs,
                            String.concat "" (List.map (fun z -> Printf.sprintf "q%d" (int_of_z z)) r.t_polls)
                            ^ (match r.t_out with Returned -> "" | Hang -> "HANG" | ClockExhausted -> "EXHAUSTED" | Fuel -> "FUEL"))) in
      st := st';
      let a = List.filter early os and b = List.filter (fun o -> not (early o)) os in
      (match it with SendI _ -> String.concat "" (List.map fmt_obs (a @ b)) ^ pre | _ -> pre ^ String.concat "" (List.map fmt_obs (a @ b))) ^ fmt_state st') evs in
  String.concat ";" segs

let () =
  reg "run" (run_line true);
  (* threaded semantics: completion and notification are separate events *)
  reg "runmt" (run_line false);
  (* serial k c0 : the k-th serial drawn from a counter that starts at c0, and the counter afterwards *)
  reg "serial" (fun [k; c0] ->
      let c = ref (n_of_int (int_of_string c0)) and last = ref N0 in
      for _ = 0 to int_of_string k do let (s, c') = next_serial !c in last := s; c := c' done;
      Printf.sprintf "%d %d" (int_of_n !last) (int_of_n !c))
