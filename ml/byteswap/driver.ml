(* Trusted glue: reads one case per line, runs the extracted Coq model of the
   byte-order converter (Wire/Byteswap.v), prints one canonical result per line.
     bswap <hex>            one complete marshalled message -> "ok <hex>" | "none" (fault) | "fuel"
     bswapbody <l|B> <sighex> <hex>   a body in the given (old) order with the given signature -> "ok <hex>" | "none" *)
open Model_byteswap

let rec pos_of_int (i : int) : positive =
  if i = 1 then XH else if i land 1 = 0 then XO (pos_of_int (i lsr 1)) else XI (pos_of_int (i lsr 1))
let n_of_int (i : int) : n = if i = 0 then N0 else Npos (pos_of_int i)
let rec int_of_pos = function XH -> 1 | XO p -> 2 * int_of_pos p | XI p -> 2 * int_of_pos p + 1
let int_of_n = function N0 -> 0 | Npos p -> int_of_pos p

let bytes_of_hex (h : string) : n list =
  let h = if h = "-" then "" else h in
  let l = String.length h / 2 in
  List.init l (fun i -> n_of_int (int_of_string ("0x" ^ String.sub h (2 * i) 2)))
let hex_of_bytes (l : n list) : string =
  if l = [] then "-" else String.concat "" (List.map (fun b -> Printf.sprintf "%02x" (int_of_n b)) l)

let split_ws s = List.filter (fun x -> x <> "") (String.split_on_char ' ' s)

let handlers : (string, string list -> string) Hashtbl.t = Hashtbl.create 8
let reg name f = Hashtbl.replace handlers name f

let () =
  reg "bswap" (fun [h] ->
    match byteswap_message_r (bytes_of_hex h) with
    | BOk b -> "ok " ^ hex_of_bytes b
    | BFault -> "none"
    | BFuel -> "fuel");
  reg "bswapbody" (fun [o; sg; h] ->
    match parse_sig (bytes_of_hex sg) with
    | None -> "badsig"
    | Some tys ->
        (match byteswap_body (o = "l") tys (bytes_of_hex h) with
         | Some b -> "ok " ^ hex_of_bytes b
         | None -> "none"))
