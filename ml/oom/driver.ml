(* Trusted glue for the oom package (C14): parses one case per line, runs the
   extracted transaction model (Handlers.step / step_f) for every failing
   allocation index of the operation under test, prints the outcomes in the
   canonical form of harness/c/oom_h.c.

   input   bus <mode> <maxnames>,<maxrules>,<maxreplies> <probe,probe|-> <op> ... -- <op>
           mode   fresh (every single failure index)
                  pair  (every set of one or two failure indices; the output is the sorted set of outcomes)
           probe  signal number m (v.P.M<m>)
           op     C | H<i> | R<i>,<hexname>,<flags> | L<i>,<hexname> | A<i>,<rule> | D<i>,<rule>
                  | M<i>,:<j>|<hexname>,<tag> | Y<i>,:<j>,<tag> | E<i>,:<j>,<tag> | S<i>,<m>
   output  base=<snapshot> ## <n>*<outcome> ## ... ## end
           outcome = f<0|1>|A[<msgs>]|S[<snapshot>]|R[<msgs of the retry>]|S2[<snapshot>]|P[<pending>]
                   | f1|STOP          (assertion / abort)
           a snapshot containing a dangling owner is printed as DANGLING *)
open Model_oom

let rec pos_of_int (i : int) : positive =
  if i = 1 then XH else if i land 1 = 0 then XO (pos_of_int (i lsr 1)) else XI (pos_of_int (i lsr 1))
let n_of_int (i : int) : n = if i = 0 then N0 else Npos (pos_of_int i)
let rec int_of_pos = function XH -> 1 | XO p -> 2 * int_of_pos p | XI p -> 2 * int_of_pos p + 1
let int_of_n = function N0 -> 0 | Npos p -> int_of_pos p

let bytes_of_hex (h : string) : n list =
  let h = if h = "-" then "" else h in
  let l = String.length h / 2 in
  List.init l (fun i -> n_of_int (int_of_string ("0x" ^ String.sub h (2 * i) 2)))
let hex_of_bytes (l : n list) : string =
  if l = [] then "-" else String.concat "" (List.map (fun b -> Printf.sprintf "%02x" (int_of_n b)) l)

let split_ws s = List.filter (fun x -> x <> "") (String.split_on_char ' ' s)
let ni s = n_of_int (int_of_string s)

exception Dangling

(* which clients know their unique name (got the Hello reply) *)
type view = { mutable known : int list; mutable nclients : int; mutable calls : (int * int) list (* tag, caller; oldest first *) }

let cname (v : view) (c : n) = let i = int_of_n c in if List.mem i v.known then "c" ^ string_of_int i else "u?"
let key_s v = function KU c -> cname v c | KW s -> hex_of_bytes s
let opt_s v = function None -> "-" | Some c -> cname v c

let err_s = function
  | EInvalidArgs -> "InvalidArgs" | EAccessDenied -> "AccessDenied" | ELimitsExceeded -> "LimitsExceeded" | EFailed -> "Failed"
  | ENameHasNoOwner -> "NameHasNoOwner" | EMatchRuleNotFound -> "MatchRuleNotFound" | ENoMemory -> "NoMemory"

let bus_if = "org.freedesktop.DBus."
let msg_s v = function
  | MHelloReply c -> "R<bus>@req(" ^ cname v c ^ ")"
  | MReply code -> "R<bus>@req(" ^ string_of_int (int_of_n code) ^ ")"
  | MAck -> "R<bus>@req()"
  | MError ENoMemory -> "E<bus>" ^ bus_if ^ "Error.NoMemory@req()"
  | MError e -> "E<bus>" ^ bus_if ^ "Error." ^ err_s e ^ "@req(_)"
  | MAcquired k -> "S<bus>" ^ bus_if ^ "NameAcquired(" ^ key_s v k ^ ")"
  | MLost k -> "S<bus>" ^ bus_if ^ "NameLost(" ^ key_s v k ^ ")"
  | MNOC (k, o, nw) -> "S<bus>" ^ bus_if ^ "NameOwnerChanged(" ^ key_s v k ^ "," ^ opt_s v o ^ "," ^ opt_s v nw ^ ")"
  | MCall (f, t) -> "C<" ^ cname v f ^ ">v.T.Call(" ^ string_of_int (int_of_n t) ^ ")"
  | MRet (f, t, false) -> "R<" ^ cname v f ^ ">@t" ^ string_of_int (int_of_n t) ^ "()"
  | MRet (f, t, true) -> "E<" ^ cname v f ^ ">v.T.Err@t" ^ string_of_int (int_of_n t) ^ "()"
  | MSignal (f, m) -> "S<" ^ cname v f ^ ">v.P.M" ^ string_of_int (int_of_n m) ^ "()"

(* a client learns its name from the Hello reply: do that before printing *)
let learn v (os : out list) =
  List.iter (fun (c, m) -> match m with MHelloReply c' when c = c' -> if not (List.mem (int_of_n c) v.known) then v.known <- int_of_n c :: v.known | _ -> ()) os

let outs_s v (os : out list) : string =
  learn v os;
  let per = List.init v.nclients (fun i ->
    let ms = List.filter_map (fun (c, m) -> if int_of_n c = i then Some (msg_s v m) else None) os in
    if ms = [] then None else Some ("c" ^ string_of_int i ^ ":" ^ String.concat "+" ms)) in
  String.concat ";" (List.filter_map (fun x -> x) per)

let queue_s v (q : owner list) : string =
  "[" ^ String.concat "," (List.map (fun o ->
      if not o.o_live then raise Dangling;
      cname v o.o_conn ^ (if o.o_allow then "a" else "") ^ (if o.o_dnq then "d" else "")) q) ^ "]"

let snapshot v (b : bus) (names : n list list) (probes : int list) : string =
  try
    (* the harness walks every queue it prints; ListNames does not touch owners *)
    let nm = List.map (fun s -> hex_of_bytes s ^ "=" ^ (match lookup b.b_services (KW s) with None -> "-" | Some q -> queue_s v q)) names in
    let un = List.filter_map (fun i ->
      if List.mem i v.known then Some ("c" ^ string_of_int i ^ "=" ^ (match lookup b.b_services (KU (n_of_int i)) with None -> "-" | Some q -> queue_s v q)) else None)
      (List.init v.nclients (fun i -> i)) in
    let all = List.sort compare (List.map (fun (k, _) -> key_s v k) b.b_services) in
    let ks = List.init v.nclients (fun i ->
      if not (List.mem i v.known) then "c" ^ string_of_int i ^ ":unreg"
      else match find_conn b.b_conns (n_of_int i) with
        | None -> "c" ^ string_of_int i ^ ":unreg"
        | Some cn -> Printf.sprintf "c%d:%d/%d/%d" i (if cn.c_active then 1 else 0) (List.length cn.c_owned) (List.length cn.c_rules)) in
    let ms =
      if probes = [] || not (List.mem 0 v.known) then ""
      else "|M:" ^ String.concat ";" (List.map (fun m ->
             String.concat "," (List.map (fun c -> "c" ^ string_of_int (int_of_n c) ^ "*1") (recipients b (SgUser (n_of_int m))))) probes) in
    String.concat ";" (nm @ un) ^ "|N:" ^ String.concat "," all ^ "|K:" ^ String.concat "," ks ^ ms
  with Dangling -> "DANGLING"

(* the harness lets every other registered client answer every remembered call *)
let pending_s v (b : bus) : string =
  let idx = List.mapi (fun k (tag, caller) -> (k, tag, caller)) v.calls in
  let hits = List.concat_map (fun (k, tag, caller) ->
    (* with several calls of the same tag (attempt + retry) the entry belongs to the last one *)
    let last = List.fold_left (fun acc (k', t', c') -> if t' = tag && c' = caller then k' else acc) k idx in
    if last <> k then [] else
    List.filter_map (fun j ->
      if j = caller || not (List.mem j v.known) || not (List.mem caller v.known) then None
      else if List.exists (fun p -> int_of_n p.p_caller = caller && int_of_n p.p_callee = j && int_of_n p.p_tag = tag) b.b_pending
      then Some (Printf.sprintf "t%d#%d:c%d>c%d" tag k j caller) else None)
      (List.init v.nclients (fun i -> i))) idx in
  String.concat "," hits

let parse_op (t : string) : event =
  let body = String.sub t 1 (String.length t - 1) in
  let f = String.split_on_char ',' body in
  let dest d = if d.[0] = ':' then DConn (ni (String.sub d 1 (String.length d - 1))) else DName (bytes_of_hex d) in
  let conn_of d = ni (String.sub d 1 (String.length d - 1)) in
  match t.[0], f with
  | 'C', _ -> EvConnect
  | 'H', [c] -> EvHello (ni c)
  | 'R', [c; h; fl] -> EvRequest (ni c, bytes_of_hex h, ni fl)
  | 'L', [c; h] -> EvRelease (ni c, bytes_of_hex h)
  | 'A', [c; r] -> EvAddMatch (ni c, ni r)
  | 'D', [c; r] -> EvRemoveMatch (ni c, ni r)
  | 'M', [c; d; tag] -> EvCall (ni c, dest d, ni tag)
  | 'Y', [c; d; tag] -> EvReply (ni c, conn_of d, ni tag, false)
  | 'E', [c; d; tag] -> EvReply (ni c, conn_of d, ni tag, true)
  | 'S', [c; m] -> EvSignal (ni c, ni m)
  | _ -> failwith ("bad op " ^ t)

let names_of (ops : string list) : n list list =
  List.fold_left (fun acc t ->
    if t.[0] = 'R' || t.[0] = 'L' then
      (match String.split_on_char ',' t with
       | _ :: h :: _ -> let s = bytes_of_hex h in if List.mem s acc then acc else acc @ [s]
       | _ -> acc)
    else acc) [] ops

let note_call v (e : event) = match e with EvCall (c, _, tag) -> v.calls <- v.calls @ [(int_of_n tag, int_of_n c)] | _ -> ()
let note_conn v (e : event) = match e with EvConnect -> v.nclients <- v.nclients + 1 | _ -> ()

let got_oom (c : n option) (os : out list) = match c with
  | None -> false
  | Some c -> List.exists (fun (d, m) -> d = c && m = MError ENoMemory) os

(* one attempt with failure set fs from base state b; returns the outcome string *)
let attempt (v0 : view) (b : bus) (e : event) (fs : n list) (failed : bool) names probes : string =
  let v = { known = v0.known; nclients = v0.nclients; calls = v0.calls } in
  note_call v e; note_conn v e;
  match step_f (fail_set fs) b e with
  | OStop -> "f1|STOP"
  | OOk (b1, os) ->
      let a = outs_s v os in
      let s1 = snapshot v b1 names probes in
      if s1 = "DANGLING" then "f1|DANGLING" else
      let (r, s2, bfin) =
        if failed && got_oom (requester e) os then begin
          note_call v e;
          match step b1 e with
          | OStop -> ("STOP", "", b1)
          | OOk (b2, os2) -> let r = outs_s v os2 in (r, snapshot v b2 names probes, b2)
        end else ("", "", b1) in
      Printf.sprintf "f%d|A[%s]|S[%s]|R[%s]|S2[%s]|P[%s]" (if failed then 1 else 0) a s1 r s2 (pending_s v bfin)

let dedupe (l : string list) : string list =
  let rec go acc cur n = function
    | [] -> (match cur with None -> List.rev acc | Some c -> List.rev ((string_of_int n ^ "*" ^ c) :: acc))
    | x :: r -> (match cur with
        | Some c when c = x -> go acc cur (n + 1) r
        | Some c -> go ((string_of_int n ^ "*" ^ c) :: acc) (Some x) 1 r
        | None -> go acc (Some x) 1 r) in
  go [] None 0 l

let bus_case (args : string list) : string =
  match args with
  | mode :: limits :: probes :: rest ->
      let lim = List.map int_of_string (String.split_on_char ',' limits) in
      let probes = if probes = "-" then [] else List.map int_of_string (String.split_on_char ',' probes) in
      let rec split acc = function "--" :: [t] -> (List.rev acc, t) | x :: r -> split (x :: acc) r | [] -> failwith "no -- <op>" in
      let (hist, test) = split [] rest in
      let names = names_of (hist @ [test]) in
      let v = { known = []; nclients = 0; calls = [] } in
      let maxconns = if List.length lim > 3 then List.nth lim 3 else 256 in
      let b = ref (init_bus_full (n_of_int (List.nth lim 0)) (n_of_int (List.nth lim 1)) (n_of_int (List.nth lim 2)) (n_of_int maxconns)) in
      let stopped = ref false in
      List.iter (fun t ->
        if not !stopped then begin
          let e = parse_op t in
          note_call v e; note_conn v e;
          match step !b e with
          | OStop -> stopped := true
          | OOk (b', os) -> learn v os; b := b'
        end) hist;
      if !stopped then "base=STOP ## end" else begin
        let e = parse_op test in
        let base = snapshot v !b names probes in
        let n = int_of_n (alloc_count !b e) in
        if mode = "pair" then begin
          let outs = ref [] in
          for i = 0 to n - 1 do
            outs := attempt v !b e [n_of_int i] true names probes :: !outs;
            for j = i + 1 to n - 1 do
              outs := attempt v !b e [n_of_int i; n_of_int j] true names probes :: !outs
            done
          done;
          outs := attempt v !b e [] false names probes :: !outs;
          "base=" ^ base ^ " ## " ^ String.concat " ## " (List.sort_uniq compare !outs) ^ " ## end"
        end else begin
          let outs = List.init (n + 1) (fun k -> if k < n then attempt v !b e [n_of_int k] true names probes else attempt v !b e [] false names probes) in
          "base=" ^ base ^ " ## " ^ String.concat " ## " (dedupe outs) ^ " ## end n=" ^ string_of_int n
        end
      end
  | _ -> "?bad-args"

let handlers : (string, string list -> string) Hashtbl.t = Hashtbl.create 8
let () = Hashtbl.replace handlers "bus" bus_case

(* ---- DBusString leg: str <cap> <op> ... -- <op>  (same syntax as harness/c/oom_h.c) ---------------- *)
let rec nat_of_int i = if i <= 0 then O else S (nat_of_int (i - 1))
let rec int_of_nat = function O -> 0 | S k -> 1 + int_of_nat k
let junk_hex (l : n list) : string =
  if l = [] then "-" else String.concat "" (List.map (fun b -> let v = int_of_n b in if v > 255 then "xx" else Printf.sprintf "%02x" v) l)

let parse_sop (t : string) : sop =
  let f = String.split_on_char ',' (String.sub t 1 (String.length t - 1)) in
  let nt s = nat_of_int (int_of_string s) in
  match t.[0], f with
  | 'L', [n] -> OLengthen (nt n)
  | 'H', [n] -> OShorten (nt n)
  | 'T', [n] -> OSetLength (nt n)
  | 'I', [a; n; b] -> OInsertBytes (nt a, nt n, ni b)
  | 'B', [a; b] -> OInsertByte (nt a, ni b)
  | 'A', [a] -> OAlignLength (nt a)
  | 'N', [a; h] -> OInsertAligned (nt a, bytes_of_hex h)
  | 'G', [a; al] -> OInsertAlignment (nt a, nt al)
  | 'S', [n] -> OAllocSpace (nt n)
  | 'P', [h] -> OAppend (bytes_of_hex h)
  | 'Y', [b] -> OAppendByte (ni b)
  | 'D', [a; l] -> ODelete (nt a, nt l)
  | 'C', [h; st; l; a] -> OCopyLen (bytes_of_hex h, nt st, nt l, nt a)
  | 'R', [h; st; l; a; rl] -> OReplaceLen (bytes_of_hex h, nt st, nt l, nt a, nt rl)
  | _ -> failwith ("bad str op " ^ t)

let str_case (args : string list) : string =
  match args with
  | cap :: rest ->
      let rec split acc = function "--" :: [t] -> (List.rev acc, t) | x :: r -> split (x :: acc) r | [] -> failwith "no -- <op>" in
      let (hist, test) = split [] rest in
      let exact = true in                                    (* the checked build: embedded tests + assertions *)
      let s0 = { d_bytes = []; d_alloc = nat_of_int (int_of_string cap + 8) } in
      let s = List.fold_left (fun s t ->
          let op = parse_sop t in
          if not (sop_pre s op) then failwith "precondition of a history op";
          match run_sop exact no_fail N0 s op with
          | ((true, s'), _) -> s'
          | ((false, _), _) -> failwith "history op failed") s0 hist in
      let op = parse_sop test in
      if not (sop_pre s op) then "?precondition" else begin
        let show failed ((ok, s'), _) =
          Printf.sprintf "f%d|%d|%d|%d|%s" (if failed then 1 else 0) (if ok then 1 else 0) (List.length s'.d_bytes) (int_of_nat s'.d_alloc) (junk_hex s'.d_bytes) in
        (* how many allocations does the unfailed operation make? *)
        let ((_, _), n) = run_sop exact no_fail N0 s op in
        let n = int_of_n n in
        let outs = List.init (n + 1) (fun k -> if k < n then show true (run_sop exact (fail_at (n_of_int k)) N0 s op) else show false (run_sop exact no_fail N0 s op)) in
        Printf.sprintf "base=%d|%d|%s ## " (List.length s.d_bytes) (int_of_nat s.d_alloc) (junk_hex s.d_bytes)
        ^ String.concat " ## " (dedupe outs) ^ " ## end allocs=" ^ string_of_int n
      end
  | _ -> "?bad-args"

let () = Hashtbl.replace handlers "str" str_case

(* ---- dbus_message_marshal on an unlocked message: msgmarshal <header length> <body length> ---------- *)
let msgmarshal_case (args : string list) : string =
  match args with
  | [hl; bl] ->
      let mk n v = List.init (int_of_string n) (fun _ -> n_of_int v) in
      let m = { m_header = { h_data = { d_bytes = mk hl 1; d_alloc = nat_of_int (int_of_string hl + 8) }; h_padding = O };
                m_body = { d_bytes = mk bl 2; d_alloc = nat_of_int (int_of_string bl + 8) }; m_locked = false } in
      let (((_, _), n), _) = msg_marshal true no_fail true N0 m in
      let n = int_of_n n in
      let show k =
        let f = if k < n then fail_at (n_of_int k) else no_fail in
        let (((ok, m'), _), d) = msg_marshal true f true N0 m in
        Printf.sprintf "f%d|%s|locked=%d" (if k < n then 1 else 0) (if ok then "ok:" ^ junk_hex d else "oom-unchanged") (if m'.m_locked then 1 else 0) in
      String.concat " ## " (dedupe (List.init (n + 1) show)) ^ " ## end allocs=" ^ string_of_int n
  | _ -> "?bad-args"

let () = Hashtbl.replace handlers "msgmarshal" msgmarshal_case
