(* Trusted glue for package robust (C10): one history per line in, the per-event
   outputs of the extracted model (Robust.Mini.mini_run) out.

   in : hist <uid> <max_incomplete> <auth_timeout_ms> <max_message_size> EV...
        EV = A<c> | R<c>:<hex or -> | r<c>:<hex or -> (writes to c fail) | E<c> | T<ms>
   out: one group per event separated by " ; ", tokens in a group separated by " ",
        "-" for an empty group.  token = auth:<c>:<hex> | seen:<c>:<hex> | hi:<c> |
        bye:<c> | noc:<old c or 0>:<name hex>:<new c or 0> | noreply:<caller c>:<serial> | gone:<c> | refused:<c> *)
open Model_robust

let rec pos_of_int (i : int) : positive =
  if i = 1 then XH else if i land 1 = 0 then XO (pos_of_int (i lsr 1)) else XI (pos_of_int (i lsr 1))
let n_of_int (i : int) : n = if i = 0 then N0 else Npos (pos_of_int i)
let rec int_of_pos = function XH -> 1 | XO p -> 2 * int_of_pos p | XI p -> 2 * int_of_pos p + 1
let int_of_n = function N0 -> 0 | Npos p -> int_of_pos p

let byte_tbl = Array.init 256 n_of_int
let hexval c = match c with
  | '0'..'9' -> Char.code c - 48 | 'a'..'f' -> Char.code c - 87 | 'A'..'F' -> Char.code c - 55
  | _ -> failwith "hex"
let bytes_of_hex (h : string) : n list =
  let h = if h = "-" then "" else h in
  let l = String.length h / 2 in
  let rec go i acc = if i < 0 then acc else go (i - 1) (byte_tbl.(16 * hexval h.[2 * i] + hexval h.[2 * i + 1]) :: acc) in
  go (l - 1) []
let hex_of_bytes (l : n list) : string =
  if l = [] then "-" else begin
    let b = Buffer.create 64 in
    List.iter (fun x -> Buffer.add_string b (Printf.sprintf "%02x" (int_of_n x land 255))) l;
    Buffer.contents b end

let split_ws s = List.filter (fun x -> x <> "") (String.split_on_char ' ' s)

let handlers : (string, string list -> string) Hashtbl.t = Hashtbl.create 4
let reg name f = Hashtbl.replace handlers name f

let event_of_tok (t : string) : event =
  let rest = String.sub t 1 (String.length t - 1) in
  match t.[0] with
  | 'A' -> EAccept (n_of_int (int_of_string rest))
  | 'E' -> EEof (n_of_int (int_of_string rest))
  | 'T' -> ETick (n_of_int (int_of_string rest))
  | 'R' | 'r' -> (match String.index_opt rest ':' with
            | Some i -> ERead (n_of_int (int_of_string (String.sub rest 0 i)),
                               bytes_of_hex (String.sub rest (i + 1) (String.length rest - i - 1)), t.[0] = 'R')
            | None -> failwith "R")
  | _ -> failwith "event"

let tok_of_out (o : mout out) : string =
  match o with
  | OAuth (c, r) -> Printf.sprintf "auth:%d:%s" (int_of_n c) (hex_of_bytes r)
  | OCore (_, Seen (c, raw)) -> Printf.sprintf "seen:%d:%s" (int_of_n c) (hex_of_bytes raw)
  | OCore (_, Hi c) -> Printf.sprintf "hi:%d" (int_of_n c)
  | OCore (_, Bye c) -> Printf.sprintf "bye:%d" (int_of_n c)
  | OCore (_, Noc (name, o, nw)) -> Printf.sprintf "noc:%d:%s:%d" (int_of_n o) (hex_of_bytes name) (int_of_n nw)
  | OCore (_, NoReply (c, sr)) -> Printf.sprintf "noreply:%d:%d" (int_of_n c) (int_of_n sr)
  | OCore (_, Refused (c, sr)) -> Printf.sprintf "limit:%d:%d" (int_of_n c) (int_of_n sr)
  | OCore (_, ActFail (c, sr)) -> Printf.sprintf "actfail:%d:%d" (int_of_n c) (int_of_n sr)
  | OCore (_, ActOk (c, sr)) -> Printf.sprintf "actok:%d:%d" (int_of_n c) (int_of_n sr)
  | OCore (_, Self (c, sr)) -> Printf.sprintf "self:%d:%d" (int_of_n c) (int_of_n sr)
  | OGone c -> Printf.sprintf "gone:%d" (int_of_n c)
  | ORefused c -> Printf.sprintf "refused:%d" (int_of_n c)

let () =
  reg "hist" (fun (uid :: mi :: at :: mm :: evs) ->
    let cf = { max_incomplete = n_of_int (int_of_string mi); auth_timeout = n_of_int (int_of_string at);
               max_message_size = n_of_int (int_of_string mm) } in
    let res = mini_run (n_of_int (int_of_string uid)) cf (List.map event_of_tok evs) in
    String.concat " ; " (List.map (fun g -> if g = [] then "-" else String.concat " " (List.map tok_of_out g)) res))

(* script <uid> <max_incomplete> <auth_timeout_ms> <max_message_size> CEV...
   CEV = C<c> | W<c>:<hex or -> | X<c> | S<ms>
   out: one group per client event separated by " ; "; in a group every bus-side event the
   environment scheduled as @A<c> / @R<c> / @E<c> / @T<ms> followed by its output tokens *)
let cevent_of_tok (t : string) : cevent =
  let rest = String.sub t 1 (String.length t - 1) in
  match t.[0] with
  | 'C' -> CConnect (n_of_int (int_of_string rest))
  | 'X' -> CClose (n_of_int (int_of_string rest))
  | 'S' -> CSleep (n_of_int (int_of_string rest))
  | 'W' -> (match String.index_opt rest ':' with
            | Some i -> CWrite (n_of_int (int_of_string (String.sub rest 0 i)),
                                bytes_of_hex (String.sub rest (i + 1) (String.length rest - i - 1)))
            | None -> failwith "W")
  | _ -> failwith "cevent"

let tag_of_event (e : event) : string =
  match e with
  | EAccept c -> Printf.sprintf "@A%d" (int_of_n c)
  | ERead (c, _, _) -> Printf.sprintf "@R%d" (int_of_n c)
  | EEof c -> Printf.sprintf "@E%d" (int_of_n c)
  | ETick d -> Printf.sprintf "@T%d" (int_of_n d)

let () =
  reg "script" (fun (uid :: mi :: at :: mm :: evs) ->
    let cf = { max_incomplete = n_of_int (int_of_string mi); auth_timeout = n_of_int (int_of_string at);
               max_message_size = n_of_int (int_of_string mm) } in
    let res = mini_env_run (n_of_int (int_of_string uid)) cf (List.map cevent_of_tok evs) in
    String.concat " ; " (List.map (fun g ->
      if g = [] then "-" else
        String.concat " " (List.map (fun (e, os) -> String.concat " " (tag_of_event e :: List.map tok_of_out os)) g)) res))

(* script2 <uid> <max_incomplete> <auth_timeout_ms> <max_message_size> <max_connections_per_user> <max_match_rules_per_connection> CEV...
   same as script, with the two limits of the core given *)
let () =
  reg "script2" (fun (uid :: mi :: at :: mm :: mu :: mr :: evs) ->
    let cf = { max_incomplete = n_of_int (int_of_string mi); auth_timeout = n_of_int (int_of_string at);
               max_message_size = n_of_int (int_of_string mm) } in
    let res = mini_env_run_lim (n_of_int (int_of_string uid)) cf (n_of_int (int_of_string mu)) (n_of_int (int_of_string mr)) (List.map cevent_of_tok evs) in
    String.concat " ; " (List.map (fun g ->
      if g = [] then "-" else
        String.concat " " (List.map (fun (e, os) -> String.concat " " (tag_of_event e :: List.map tok_of_out os)) g)) res))

(* watch <ready> <w>...  with w = e<0|1>o<0|1>f<flags>  ->  woke=<a>,<b> handled=<x>,<y>  (Robust.Watch.iterate, first and a later iteration) *)
let () =
  reg "watch" (fun (ready :: ws) ->
    let w_of t = { w_enabled = t.[1] = '1'; w_oom = t.[3] = '1'; w_flags = n_of_int (int_of_string (String.sub t 5 (String.length t - 5))) } in
    let l = List.map w_of ws in
    let r = n_of_int (int_of_string ready) in
    let (a, x) = iterate l r true and (b, y) = iterate l r false in
    Printf.sprintf "woke=%s,%s handled=%d,%d" (if a then "1" else "0") (if b then "1" else "0") (int_of_n x) (int_of_n y))
