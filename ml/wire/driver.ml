(* Trusted glue: reads one case per line, runs the extracted Coq model / spec
   oracle, prints one canonical result per line. *)
open Model_wire

let rec pos_of_int (i : int) : positive =
  if i = 1 then XH else if i land 1 = 0 then XO (pos_of_int (i lsr 1)) else XI (pos_of_int (i lsr 1))
let n_of_int (i : int) : n = if i = 0 then N0 else Npos (pos_of_int i)
let rec int_of_pos = function XH -> 1 | XO p -> 2 * int_of_pos p | XI p -> 2 * int_of_pos p + 1
let int_of_n = function N0 -> 0 | Npos p -> int_of_pos p
let int_of_z = function Z0 -> 0 | Zpos p -> int_of_pos p | Zneg p -> - (int_of_pos p)
let z_of_int i = if i = 0 then Z0 else if i > 0 then Zpos (pos_of_int i) else Zneg (pos_of_int (-i))

let bytes_of_hex (h : string) : n list =
  let h = if h = "-" then "" else h in
  let l = String.length h / 2 in
  List.init l (fun i -> n_of_int (int_of_string ("0x" ^ String.sub h (2 * i) 2)))
let hex_of_bytes (l : n list) : string =
  if l = [] then "-" else String.concat "" (List.map (fun b -> Printf.sprintf "%02x" (int_of_n b)) l)

let b2s b = if b then "1" else "0"
let ob2s = function Some true -> "1" | Some false -> "0" | None -> "F"

let split_ws s = List.filter (fun x -> x <> "") (String.split_on_char ' ' s)

let handlers : (string, string list -> string) Hashtbl.t = Hashtbl.create 64
let reg name f = Hashtbl.replace handlers name f

let () =
  (* C16: NAME hex -> "<model> <spec>" *)
  reg "iface" (fun [h] -> let s = bytes_of_hex h in b2s (validate_interface s) ^ " " ^ b2s (spec_interface s));
  reg "errname" (fun [h] -> let s = bytes_of_hex h in b2s (validate_error_name s) ^ " " ^ b2s (spec_error_name s));
  reg "member" (fun [h] -> let s = bytes_of_hex h in b2s (validate_member s) ^ " " ^ b2s (spec_member s));
  reg "path" (fun [h] -> let s = bytes_of_hex h in b2s (validate_path s) ^ " " ^ b2s (spec_path s));
  reg "busname" (fun [h] -> let s = bytes_of_hex h in b2s (validate_bus_name s) ^ " " ^ b2s (spec_bus_name s));
  reg "utf8" (fun [h] -> let s = bytes_of_hex h in ob2s (validate_utf8 s) ^ " " ^ b2s (spec_utf8 s));
  (* sig hex -> "<model reason> <spec> <spec single> <parses> <max array nest> <max struct nest>" *)
  reg "sig" (fun [h] -> let s = bytes_of_hex h in
                        let (p, an, sn) = match parse_sig s with
                          | None -> ("0", 0, 0)
                          | Some ts -> ("1", List.fold_left (fun a t -> max a (int_of_n (array_nest t))) 0 ts,
                                        List.fold_left (fun a t -> max a (int_of_n (struct_nest t))) 0 ts) in
                        Printf.sprintf "%d %s %s %s %d %d" (int_of_z (validate_signature_reason s)) (b2s (spec_signature s))
                          (b2s (spec_single_signature s)) p an sn)
