(* Trusted glue: reads one case per line, runs the extracted Coq model / spec
   oracle, prints one canonical result per line. *)
open Model_wire

let rec pos_of_int (i : int) : positive =
  if i = 1 then XH else if i land 1 = 0 then XO (pos_of_int (i lsr 1)) else XI (pos_of_int (i lsr 1))
let n_of_int (i : int) : n = if i = 0 then N0 else Npos (pos_of_int i)
let rec int_of_pos = function XH -> 1 | XO p -> 2 * int_of_pos p | XI p -> 2 * int_of_pos p + 1
let int_of_n = function N0 -> 0 | Npos p -> int_of_pos p
let int_of_z = function Z0 -> 0 | Zpos p -> int_of_pos p | Zneg p -> - (int_of_pos p)
let z_of_int i = if i = 0 then Z0 else if i > 0 then Zpos (pos_of_int i) else Zneg (pos_of_int (-i))

let bytes_of_hex (h : string) : n list =
  let h = if h = "-" then "" else h in
  let l = String.length h / 2 in
  List.init l (fun i -> n_of_int (int_of_string ("0x" ^ String.sub h (2 * i) 2)))
let hex_of_bytes (l : n list) : string =
  if l = [] then "-" else String.concat "" (List.map (fun b -> Printf.sprintf "%02x" (int_of_n b)) l)

module Big_int_str = struct
  (* decimal string of an extracted N (may exceed OCaml's 63-bit int) *)
  let to_string (x : n) : string =
    let rec bits p = match p with XH -> [1] | XO q -> 0 :: bits q | XI q -> 1 :: bits q in
    match x with
    | N0 -> "0"
    | Npos p ->
        let bs = List.rev (bits p) in          (* most significant first *)
        let digits = ref [0] in                 (* little-endian decimal digits *)
        List.iter (fun b ->
          let carry = ref b in
          digits := List.map (fun d -> let v = 2 * d + !carry in carry := v / 10; v mod 10) !digits;
          if !carry > 0 then digits := !digits @ [!carry]) bs;
        String.concat "" (List.rev_map string_of_int !digits)
end
let b2s b = if b then "1" else "0"
let ob2s = function Some true -> "1" | Some false -> "0" | None -> "F"

let split_ws s = List.filter (fun x -> x <> "") (String.split_on_char ' ' s)

let handlers : (string, string list -> string) Hashtbl.t = Hashtbl.create 64
let reg name f = Hashtbl.replace handlers name f

let () =
  (* C16: NAME hex -> "<model> <spec>" *)
  reg "iface" (fun [h] -> let s = bytes_of_hex h in b2s (validate_interface s) ^ " " ^ b2s (spec_interface s));
  reg "errname" (fun [h] -> let s = bytes_of_hex h in b2s (validate_error_name s) ^ " " ^ b2s (spec_error_name s));
  reg "member" (fun [h] -> let s = bytes_of_hex h in b2s (validate_member s) ^ " " ^ b2s (spec_member s));
  reg "path" (fun [h] -> let s = bytes_of_hex h in b2s (validate_path s) ^ " " ^ b2s (spec_path s));
  reg "busname" (fun [h] -> let s = bytes_of_hex h in b2s (validate_bus_name s) ^ " " ^ b2s (spec_bus_name s));
  reg "utf8" (fun [h] -> let s = bytes_of_hex h in ob2s (validate_utf8 s) ^ " " ^ b2s (spec_utf8 s));
  (* sig hex -> "<model reason> <spec> <spec single> <parses> <max array nest> <max struct nest>" *)
  reg "sig" (fun [h] -> let s = bytes_of_hex h in
                        let (p, an, sn) = match parse_sig s with
                          | None -> ("0", 0, 0)
                          | Some ts -> ("1", List.fold_left (fun a t -> max a (int_of_n (array_nest t))) 0 ts,
                                        List.fold_left (fun a t -> max a (int_of_n (struct_nest t))) 0 ts) in
                        Printf.sprintf "%d %s %s %s %d %d" (int_of_z (validate_signature_reason s)) (b2s (spec_signature s))
                          (b2s (spec_single_signature s)) p an sn)

(* C01 / C11: loader *)
let msg_hex (m : message) = hex_of_bytes (m.m_header @ m.m_body)
let nat_of_int (i : int) : nat = let r = ref O in for _ = 1 to i do r := S !r done; !r
let () =
  reg "load" (fun (_mode :: chunks) ->
    let l = List.fold_left (fun l c -> feed l (bytes_of_hex c) N0) loader_new chunks in
    Printf.sprintf "corrupted=%s reason=%d msgs=%s" (b2s l.l_corrupted) (if l.l_corrupted then int_of_z l.l_reason else 0)
      (if l.l_msgs = [] then "-" else String.concat "|" (List.map msg_hex l.l_msgs)));
  reg "loadmax" (fun (mx :: _mode :: chunks) ->
    let l0 = { loader_new with l_max = n_of_int (int_of_string mx) } in
    let l = List.fold_left (fun l c -> feed l (bytes_of_hex c) N0) l0 chunks in
    Printf.sprintf "corrupted=%s reason=%d msgs=%s" (b2s l.l_corrupted) (if l.l_corrupted then int_of_z l.l_reason else 0)
      (if l.l_msgs = [] then "-" else String.concat "|" (List.map msg_hex l.l_msgs)));
  reg "loadf" (fun (nfds :: chunks) ->
    (* the transport's reading loop, step by step (to print the limits), cross-checked against the extracted feed_limited *)
    let reads = ref [] in
    let stalled = ref false in
    let rec loop l (c : n list) fds =
      if c = [] || !stalled then l
      else if l.l_corrupted then l
      else match max_to_read l with
        | None -> stalled := true; reads := "fuel" :: !reads; l
        | Some (mx, may) ->
            let mxi = int_of_n mx in
            reads := Printf.sprintf "%d:%s" mxi (b2s may) :: !reads;
            if mxi = 0 then (stalled := true; l)
            else begin
              let k = min mxi (List.length c) in
              let rec split i acc r = if i = 0 then (List.rev acc, r) else (match r with x :: r' -> split (i - 1) (x :: acc) r' | [] -> (List.rev acc, [])) in
              let (a, b) = split k [] c in
              loop (feed l a fds) b N0
            end in
    let k = n_of_int (int_of_string nfds) in
    let (l, _) = List.fold_left (fun (l, first) c -> (loop l (bytes_of_hex c) (if first then k else N0), false)) (loader_new, true) chunks in
    let (l2, ok2, _) = List.fold_left (fun (l, ok, first) c ->
        if not ok then (l, ok, false) else
        match feed_limited (nat_of_int (List.length (bytes_of_hex c) + 1)) l (bytes_of_hex c) (if first then k else N0) with
        | Inl l' -> (l', true, false) | Inr l' -> (l', false, false)) (loader_new, true, true) chunks in
    let same = (ok2 = not !stalled) && (not ok2 || (l2.l_corrupted = l.l_corrupted && List.map msg_hex l2.l_msgs = List.map msg_hex l.l_msgs)) in
    Printf.sprintf "corrupted=%s stalled=%s reads=%s msgs=%s%s" (b2s l.l_corrupted) (b2s !stalled)
      (if !reads = [] then "-" else String.concat "," (List.rev !reads))
      (if l.l_msgs = [] then "-" else String.concat "|" (List.map msg_hex l.l_msgs))
      (if same then "" else " ?glue-differs-from-feed_limited"));
  reg "demarshal" (fun [h] ->
    let d = bytes_of_hex h in
    let need = int_of_z (bytes_needed d) in
    match demarshal d with
    | DemCorrupt _ -> Printf.sprintf "needed=%d corrupt" need
    | DemMsg m -> Printf.sprintf "needed=%d msg %s" need (msg_hex m)
    | DemIncomplete -> Printf.sprintf "needed=%d incomplete" need)

(* canonical dump of a spec-decoded message: same format as harness/c/wire_h.c dump_message *)
let text_of_bytes (l : n list) = String.concat "" (List.map (fun b -> String.make 1 (Char.chr (int_of_n b))) l)
let rec dump_val (v : val0) : string =
  match v with
  | VNum (c, n) -> if int_of_n c = 104 then "h_" else Printf.sprintf "%c%s" (Char.chr (int_of_n c)) (Big_int_str.to_string n)
  | VStr (c, s) -> Printf.sprintf "%c%s" (Char.chr (int_of_n c)) (hex_of_bytes s)
  | VArr (_, vs) -> "a[" ^ String.concat " " (List.map dump_val vs) ^ "]"
  | VStruct vs -> "(" ^ String.concat " " (List.map dump_val vs) ^ ")"
  | VDictE (k, x) -> "{" ^ dump_val k ^ " " ^ dump_val x ^ "}"
  | VVar (t, x) -> "v<" ^ text_of_bytes (print_ty t) ^ ">" ^ dump_val x ^ "</v>"
let field_str (m : smsg) code =
  match List.find_opt (fun f -> int_of_n f.sf_code = code) m.s_fields with
  | Some { sf_val = VStr (_, s); _ } -> hex_of_bytes s
  | _ -> "~"
let dump_smsg (m : smsg) : string =
  let fl = int_of_n m.s_flags in
  let rs = match List.find_opt (fun f -> int_of_n f.sf_code = 5) m.s_fields with
    | Some { sf_val = VNum (_, n); _ } -> Big_int_str.to_string n | _ -> "0" in
  Printf.sprintf "type=%d flags=%d%d%d serial=%s rs=%s path=%s iface=%s member=%s err=%s dest=%s sender=%s sig=%s body=[%s]"
    (int_of_n m.s_type) (fl land 1) ((fl lsr 1) land 1) ((fl lsr 2) land 1) (Big_int_str.to_string m.s_serial) rs
    (field_str m 1) (field_str m 2) (field_str m 3) (field_str m 4) (field_str m 6) (field_str m 7)
    (hex_of_bytes m.s_sig) (String.concat " " (List.map dump_val m.s_body))
let () =
  (* spec1 hex : the specification's verdict on one message occupying a prefix of the bytes *)
  reg "spec1" (fun [h] ->
    let d = bytes_of_hex h in
    match spec_decode_message d with
    | None -> "invalid"
    | Some (m, total) ->
        let t = int_of_n total in
        let orig = List.filteri (fun i _ -> i < t) d in
        Printf.sprintf "valid total=%d reenc=%s dump=%s" t (if spec_encode_message m = orig then "same" else "diff") (dump_smsg m))

(* ---- C02 / C12: construction programs and header edits -------------------- *)
let bytes_of_text (s : string) : n list = List.init (String.length s) (fun i -> n_of_int (Char.code s.[i]))
let rec pos_of_dec (s : string) : n =
  (* decimal string -> N, without going through OCaml ints (values up to 2^64-1) *)
  let ten = n_of_int 10 in
  let acc = ref N0 in
  String.iter (fun c -> acc := N.add (N.mul !acc ten) (n_of_int (Char.code c - 48))) s; !acc
let ty_of_text (s : string) : ty =
  if String.length s > 0 && s.[0] = '{' then
    (match parse_sig (bytes_of_text ("a" ^ s)) with Some [TArray t] -> t | _ -> failwith ("bad dict entry type " ^ s))
  else match parse_sig (bytes_of_text s) with Some [t] -> t | _ -> failwith ("bad single type " ^ s)
exception Bad_tokens
let parse_vals (toks : string list) : val0 list =
  let rest = ref toks in
  let rec seq (closer : string option) : val0 list =
    match !rest with
    | [] -> if closer = None then [] else raise Bad_tokens
    | t :: r ->
        rest := r;
        if Some t = closer then []
        else begin
          let tail s = String.sub s 1 (String.length s - 1) in
          let v =
            match t.[0] with
            | 'y' | 'b' | 'n' | 'q' | 'i' | 'u' | 'x' | 't' | 'd' | 'h' -> VNum (n_of_int (Char.code t.[0]), pos_of_dec (tail t))
            | 's' | 'o' | 'g' -> VStr (n_of_int (Char.code t.[0]), bytes_of_hex (tail t))
            | 'A' -> let et = ty_of_text (tail t) in let vs = seq (Some "]") in VArr (et, vs)
            | '(' -> VStruct (seq (Some ")"))
            | '{' -> (match seq (Some "}") with [k; x] -> VDictE (k, x) | _ -> raise Bad_tokens)
            | 'V' -> let ct = ty_of_text (tail t) in (match seq (Some ";") with [x] -> VVar (ct, x) | _ -> raise Bad_tokens)
            | _ -> raise Bad_tokens in
          v :: seq closer
        end in
  seq None
let field_code = function
  | "path" -> 1 | "iface" -> 2 | "member" -> 3 | "err" -> 4 | "rs" -> 5 | "dest" -> 6 | "sender" -> 7 | "ci" -> 10 | _ -> -1
let edit_of (kv : string) : edit =
  match String.index_opt kv '=' with
  | None -> raise Bad_tokens
  | Some i ->
      let k = String.sub kv 0 i and v = String.sub kv (i + 1) (String.length kv - i - 1) in
      if k = "strip" then EStrip
      else if k = "rs" then ESet (n_of_int 5, VNum (n_of_int 117, pos_of_dec v))
      else
        let c = field_code k in
        if c < 0 then raise Bad_tokens
        else if v = "~" then EDel (n_of_int c)
        else ESet (n_of_int c, VStr (n_of_int (if c = 1 || c = 10 then 111 else 115), bytes_of_hex v))
let getters_smsg (m : smsg) : string =
  let rs = match List.find_opt (fun f -> int_of_n f.sf_code = 5) m.s_fields with
    | Some { sf_val = VNum (_, n); _ } -> Big_int_str.to_string n | _ -> "0" in
  "rs" ^ rs ^ "," ^ String.concat "," (List.map (field_str m) [1; 2; 3; 4; 6; 7; 10])
let () =
  reg "build" (fun (ty :: fl :: ser :: setters :: toks) ->
    let edits = List.map edit_of (List.filter (fun x -> x <> "") (String.split_on_char ',' setters)) in
    let body = parse_vals toks in
    let m = build true (n_of_int (int_of_string ty)) (n_of_int (int_of_string fl)) (pos_of_dec ser) edits body in
    let le = spec_encode_message m in
    let be = spec_encode_message (swap_order m) in
    let valid = match spec_decode_message le with Some (_, t) when int_of_n t = List.length le -> "1" | _ -> "0" in
    Printf.sprintf "getters=%s bytes=%s dump=%s specvalid=%s be=%s copy=%s" (getters_smsg m) (hex_of_bytes le) (dump_smsg m) valid (hex_of_bytes be)
      (hex_of_bytes (spec_encode_message (copy_msg m))));
  reg "edit" (fun (h :: ops) ->
    match spec_decode_message (bytes_of_hex h) with
    | None -> "corrupt"
    | Some (m, _) ->
        if ops = [] then hex_of_bytes (spec_encode_message m)
        else
          let cur = ref m in
          String.concat "|" (List.map (fun op -> cur := apply_edit !cur (edit_of op); getters_smsg !cur ^ "@" ^ hex_of_bytes (spec_encode_message !cur)) ops))
