(* Trusted glue for the object-tree package (C20): reads one history per line,
   runs the extracted Coq model and the extracted specification oracle, prints
   "<model tokens> | <spec tokens>".
   Line:  <mode> op op ...      (mode is for the C harness only)
     r:/a/b:3   register handler 3 at /a/b        -> 1 | 0
     f:/a:2     register fallback handler 2 at /a -> 1 | 0
     u:/a/b     unregister                        -> u1 | u0 (unregister callback ran / path was not registered)
     c:/a/b:1,3 method call, handlers 1 and 3 accept ("-" = none)  -> c=<invoked>:<H|M|O>
     i:/a       Introspect call, nobody accepts   -> i=<invoked>:<children>
     l:/a       list_registered                   -> l=<children>
   Paths are split at '/' here (the job of _dbus_decompose_path). *)
open Model_objtree

let rec pos_of_int (i : int) : positive =
  if i = 1 then XH else if i land 1 = 0 then XO (pos_of_int (i lsr 1)) else XI (pos_of_int (i lsr 1))
let n_of_int (i : int) : n = if i = 0 then N0 else Npos (pos_of_int i)
let rec int_of_pos = function XH -> 1 | XO p -> 2 * int_of_pos p | XI p -> 2 * int_of_pos p + 1
let int_of_n = function N0 -> 0 | Npos p -> int_of_pos p

let split_ws s = List.filter (fun x -> x <> "") (String.split_on_char ' ' s)

let bytes_of_string (s : string) : n list = List.init (String.length s) (fun i -> n_of_int (Char.code s.[i]))
let string_of_bytes (l : n list) : string = String.concat "" (List.map (fun b -> String.make 1 (Char.chr (int_of_n b))) l)

let path_of_string (s : string) : n list list =
  List.map bytes_of_string (List.filter (fun x -> x <> "") (String.split_on_char '/' s))

let ids l = if l = [] then "-" else String.concat "," (List.map (fun h -> string_of_int (int_of_n h)) l)
let names l = if l = [] then "-" else String.concat "," (List.map string_of_bytes l)
let outc = function Handled -> "H" | UnknownMethod -> "M" | UnknownObject -> "O"

exception Model_fault of string

let unres = function Ok a -> a | Fault -> raise (Model_fault "!FAULT") | OutOfFuel -> raise (Model_fault "!FUEL")

let accept_set (s : string) : n -> bool =
  if s = "-" then (fun _ -> false)
  else let l = List.map int_of_string (String.split_on_char ',' s) in (fun h -> List.mem (int_of_n h) l)

let run_history (ops : string list) : string =
  let t = ref tree_new and s = ref [] in
  let mo = Buffer.create 64 and so = Buffer.create 64 in
  let add b x = (if Buffer.length b > 0 then Buffer.add_char b ' '); Buffer.add_string b x in
  List.iter (fun o ->
      match String.split_on_char ':' o with
      | [k; p; h] when k = "r" || k = "f" ->
          let op = Register ((k = "f"), path_of_string p, n_of_int (int_of_string h)) in
          let (t', ok) = unres (step !t op) in
          t := t'; add mo (if ok then "1" else "0");
          let (s', ok') = s_step !s op in
          s := s'; add so (if ok' then "1" else "0")
      | ["u"; p] ->
          let op = Unregister (path_of_string p) in
          let (t', fr) = unres (step !t op) in
          t := t'; add mo (if fr then "u1" else "u0");
          let (s', fr') = s_step !s op in
          s := s'; add so (if fr' then "u1" else "u0")
      | ["c"; p; a] ->
          let acc = accept_set a in
          let (inv, oc) = unres (tree_dispatch !t (path_of_string p) acc) in
          add mo (Printf.sprintf "c=%s:%s" (ids inv) (outc oc));
          let (inv', oc') = s_dispatch !s (path_of_string p) acc in
          add so (Printf.sprintf "c=%s:%s" (ids inv') (outc oc'))
      | ["i"; p] ->
          let pp = path_of_string p in
          let (inv, _) = unres (tree_dispatch !t pp (fun _ -> false)) in
          add mo (Printf.sprintf "i=%s:%s" (ids inv) (names (unres (list_registered !t pp))));
          add so (Printf.sprintf "i=%s:%s" (ids (s_offered !s pp)) (names (s_children !s pp)))
      | ["l"; p] ->
          let pp = path_of_string p in
          add mo ("l=" ^ names (unres (list_registered !t pp)));
          add so ("l=" ^ names (s_children !s pp))
      | _ -> raise (Model_fault "?bad-op")) ops;
  Buffer.contents mo ^ " | " ^ Buffer.contents so

let handlers : (string, string list -> string) Hashtbl.t = Hashtbl.create 8
let reg name f = Hashtbl.replace handlers name f
let () =
  let h ops = (try run_history ops with Model_fault m -> m) in
  reg "c" h; reg "t" h
