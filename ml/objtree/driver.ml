(* Trusted glue for the object-tree package (C20): reads one history per line,
   runs the extracted Coq model and the extracted specification oracle, prints
   "<model tokens> | <spec tokens>".
   Line:  <mode> op op ...      (mode is for the C harness only)
     r:/a/b:3   register handler 3 at /a/b        -> 1 | 0
     f:/a:2     register fallback handler 2 at /a -> 1 | 0
     u:/a/b     unregister                        -> u1 | u0 (unregister callback ran / path was not registered)
     c:/a/b:1,3 method call, handlers 1 and 3 accept ("-" = none)  -> c=<invoked>:<H|M|O>
     i:/a       Introspect call, nobody accepts   -> i=<invoked>:<children>
     l:/a       list_registered                   -> l=<children>
     g:/a       dbus_connection_get_object_path_data -> g=<id|->
     F:50 / G:50  add / remove connection filter 50 -> -
     d:<path|->:<accept>:<oom>:<kind>:<actions>   any message through the whole of dbus_connection_dispatch
                kind = <type c|s|r|e><interface n|p|i|o><member n|p|g|i|x>; oom = callbacks that answer NEED_MEMORY once;
                actions = <id>=<op>+<op>;<id>=...  with op r~/p~id | f~/p~id | u~/p  (performed by callback <id> when it runs)
                                                  -> d=<callbacks run>:<H|P|G|M|O|N|I<children>>
     p:<accept> the host calls its peer; the reply belongs to the pending call -> p=<callbacks run>:1
     z          end of life (last op): order of the unregister callbacks -> z=<ids>
   Paths are split at '/' here (the job of _dbus_decompose_path). *)
open Model_objtree

let rec pos_of_int (i : int) : positive =
  if i = 1 then XH else if i land 1 = 0 then XO (pos_of_int (i lsr 1)) else XI (pos_of_int (i lsr 1))
let n_of_int (i : int) : n = if i = 0 then N0 else Npos (pos_of_int i)
let rec int_of_pos = function XH -> 1 | XO p -> 2 * int_of_pos p | XI p -> 2 * int_of_pos p + 1
let int_of_n = function N0 -> 0 | Npos p -> int_of_pos p

let split_ws s = List.filter (fun x -> x <> "") (String.split_on_char ' ' s)

let bytes_of_string (s : string) : n list = List.init (String.length s) (fun i -> n_of_int (Char.code s.[i]))
let string_of_bytes (l : n list) : string = String.concat "" (List.map (fun b -> String.make 1 (Char.chr (int_of_n b))) l)

let path_of_string (s : string) : n list list =
  List.map bytes_of_string (List.filter (fun x -> x <> "") (String.split_on_char '/' s))

let ids l = if l = [] then "-" else String.concat "," (List.map (fun h -> string_of_int (int_of_n h)) l)
let names l = if l = [] then "-" else String.concat "," (List.map string_of_bytes l)
let outc = function Handled -> "H" | UnknownMethod -> "M" | UnknownObject -> "O"

exception Model_fault of string

let unres = function Ok a -> a | Fault -> raise (Model_fault "!FAULT") | OutOfFuel -> raise (Model_fault "!FUEL")

let accept_set (s : string) : n -> bool =
  if s = "-" then (fun _ -> false)
  else let l = List.map int_of_string (String.split_on_char ',' s) in (fun h -> List.mem (int_of_n h) l)

let compare_n a b = compare (int_of_n a) (int_of_n b)

let msg_of (kind : string) (p : string) (pending : bool) : msg =
  { m_type = (match kind.[0] with 'c' -> MethodCall | 's' -> Signal | 'r' -> MethodReturn | _ -> ErrorMsg);
    m_iface = (match kind.[1] with 'p' -> IfPeer | 'i' -> IfIntrospectable | 'o' -> IfOther | _ -> IfNone);
    m_member = (match kind.[2] with 'p' -> MemPing | 'g' -> MemGetMachineId | 'i' -> MemIntrospect | 'x' -> MemOther | _ -> MemNone);
    m_path = (if p = "-" then None else Some (path_of_string p));
    m_reply_pending = pending }

(* "<id>=<op>+<op>;<id>=<op>"  with op  r~/p~id | f~/p~id | u~/p *)
let actions_of (s : string) : n -> op list =
  if s = "-" then (fun _ -> [])
  else
    let groups = List.map (fun g ->
        match String.split_on_char '=' g with
        | [id; os] ->
            (int_of_string id,
             List.map (fun o -> match String.split_on_char '~' o with
                 | ["r"; p; h] -> Register (false, path_of_string p, n_of_int (int_of_string h))
                 | ["f"; p; h] -> Register (true, path_of_string p, n_of_int (int_of_string h))
                 | ["u"; p] -> Unregister (path_of_string p)
                 | _ -> raise (Model_fault "?bad-action")) (String.split_on_char '+' os))
        | _ -> raise (Model_fault "?bad-action")) (String.split_on_char ';' s) in
    (fun h -> List.concat (List.map snd (List.filter (fun (id, _) -> id = int_of_n h) groups)))

let reply_str (m : msg) = function
  | RepByCallback -> (match m.m_type with MethodCall -> "H" | _ -> "N")
  | RepPeerPing -> "P" | RepPeerMachineId -> "G" | RepUnknownMethod -> "M" | RepUnknownObject -> "O"
  | RepIntrospect l -> "I" ^ names l | RepPendingCompleted -> "?pending" | RepNone -> "N"

let run_history (ops : string list) : string =
  let t = ref tree_new and s = ref [] and filters = ref [] in
  let mo = Buffer.create 64 and so = Buffer.create 64 in
  let add b x = (if Buffer.length b > 0 then Buffer.add_char b ' '); Buffer.add_string b x in
  List.iter (fun o ->
      match String.split_on_char ':' o with
      | [k; p; h] when k = "r" || k = "f" ->
          let op = Register ((k = "f"), path_of_string p, n_of_int (int_of_string h)) in
          let (t', ok) = unres (step !t op) in
          t := t'; add mo (if ok then "1" else "0");
          let (s', ok') = s_step !s op in
          s := s'; add so (if ok' then "1" else "0")
      | ["u"; p] ->
          let op = Unregister (path_of_string p) in
          let (t', fr) = unres (step !t op) in
          t := t'; add mo (if fr then "u1" else "u0");
          let (s', fr') = s_step !s op in
          s := s'; add so (if fr' then "u1" else "u0")
      | ["c"; p; a] ->
          let acc = accept_set a in
          let (inv, oc) = unres (tree_dispatch !t (path_of_string p) acc) in
          add mo (Printf.sprintf "c=%s:%s" (ids inv) (outc oc));
          let (inv', oc') = s_dispatch !s (path_of_string p) acc in
          add so (Printf.sprintf "c=%s:%s" (ids inv') (outc oc'))
      | ["i"; p] ->
          let pp = path_of_string p in
          let (inv, _) = unres (tree_dispatch !t pp (fun _ -> false)) in
          add mo (Printf.sprintf "i=%s:%s" (ids inv) (names (unres (list_registered !t pp))));
          add so (Printf.sprintf "i=%s:%s" (ids (s_offered !s pp)) (names (s_children !s pp)))
      | ["l"; p] ->
          let pp = path_of_string p in
          add mo ("l=" ^ names (unres (list_registered !t pp)));
          add so ("l=" ^ names (s_children !s pp))
      | ["g"; p] ->
          let pp = path_of_string p in
          let show = function None -> "-" | Some h -> string_of_int (int_of_n h) in
          add mo ("g=" ^ show (unres (get_user_data !t pp)));
          add so ("g=" ^ (match s_lookup !s pp with Some (h, _) -> show (Some h) | None -> "-"))
      | [k; f] when k = "F" || k = "G" ->
          let id = n_of_int (int_of_string f) in
          (if k = "F" then filters := !filters @ [id]
           else filters := List.rev (let rec rm = function [] -> [] | x :: r -> if x = id then r else x :: rm r in rm (List.rev !filters)));
          add mo "-"; add so "-"
      | ["d"; p; a; oom; kind; acts] ->
          let m = msg_of kind p false in
          let b = { accepts = accept_set a; actions = actions_of acts } in
          let oo = if oom = "-" then [] else List.map (fun x -> n_of_int (int_of_string x)) (String.split_on_char ',' oom) in
          let ((t', log), r) = unres (dispatch_message !t !filters m b oo) in
          t := t'; add mo (Printf.sprintf "d=%s:%s" (ids log) (reply_str m r));
          let ((s', log'), r') = unres (s_dispatch_message !s !filters m b oo) in
          s := s'; add so (Printf.sprintf "d=%s:%s" (ids log') (reply_str m r'))
      | "p" :: rest ->
          let a = (match rest with [x] -> x | _ -> "-") in
          let m = msg_of "rnn" "-" true in
          let b = { accepts = accept_set a; actions = (fun _ -> []) } in
          let ((t', log), r) = unres (dispatch_message !t !filters m b []) in
          t := t'; add mo (Printf.sprintf "p=%s:%s" (ids log) (match r with RepPendingCompleted -> "1" | _ -> "0"));
          let ((s', log'), r') = unres (s_dispatch_message !s !filters m b []) in
          s := s'; add so (Printf.sprintf "p=%s:%s" (ids log') (match r' with RepPendingCompleted -> "1" | _ -> "0"))
      | ["z"] ->
          add mo ("z=" ^ ids (free_all !t));
          (* the specification fixes the set (each registered handler exactly once), not the order *)
          add so ("z=" ^ ids (List.sort compare_n (s_handlers !s)))
      | _ -> raise (Model_fault "?bad-op")) ops;
  Buffer.contents mo ^ " | " ^ Buffer.contents so

(* P <hex>: _dbus_decompose_path on raw bytes -> "<n>:<elem hex>,<elem hex>" | "!" (assertion) ;
   specification side: the elements of the string if it is a valid object path, else "n/a" *)
let hex_of (l : n list) = if l = [] then "-" else String.concat "" (List.map (fun b -> Printf.sprintf "%02x" (int_of_n b)) l)
let bytes_of_hex (h : string) : n list =
  let h = if h = "-" then "" else h in
  List.init (String.length h / 2) (fun i -> n_of_int (int_of_string ("0x" ^ String.sub h (2 * i) 2)))
let show_elems l = Printf.sprintf "%d:%s" (List.length l) (if l = [] then "-" else String.concat "," (List.map hex_of l))
let run_decompose (args : string list) : string =
  match args with
  | [h] ->
      let s = bytes_of_hex h in
      let m = (match decompose s with Ok l -> show_elems l ^ ":" ^ hex_of (flatten l) | _ -> "!") in
      let sp = if spec_path s then (let l = path_elements s in show_elems l ^ ":" ^ hex_of s) else "n/a" in
      m ^ " | " ^ sp
  | _ -> "?bad-args"

let handlers : (string, string list -> string) Hashtbl.t = Hashtbl.create 8
let reg name f = Hashtbl.replace handlers name f
let () =
  let h ops = (try run_history ops with Model_fault m -> m) in
  reg "c" h; reg "t" h; reg "P" run_decompose
