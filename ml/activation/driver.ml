(* Trusted glue for the activation package (C19): parses one case per line, runs
   the extracted model, prints one canonical result line.

   hist <max_pending>[/<max_replies>] <services> <event>*        (histid: same, with entry ids in the output)
     services: "-" or name:exec:kind joined by ","   name = w<k> | u<c>; kind 0 = Exec line does not parse, anything else = it does
     events:
       C | CF                              a connection completes Hello (CF: it negotiated unix-fd passing; likewise KF)
                                           class = policy class (0-3) + 4 (carries a unix fd) + 8 (method call expecting a reply)
       K.<sid>                             the same, made by started process sid (no difference for the model)
       A.<c>.<serial>.<name>.<class>       message to <name>, auto-start allowed
       B.<c>.<serial>.<name>.<class>       the same sent as a directed SIGNAL (the bus does not look at the type before it auto-starts)
       U.<c>.<serial>.<name>.<class>       same with NO_AUTO_START
       S.<c>.<serial>.<name>               StartServiceByName
       R.<c>.<serial>.<k>                  RequestName(w<k>, DO_NOT_QUEUE)
       L.<c>.<serial>.<k>                  ReleaseName(w<k>)
       D.<c>                               disconnect
       X.<sid>.<status>                    started process sid exits with status
       G.<sid>                             ... is killed by a signal
       F.<sid>                             ... could not exec
       T.<sid>                             the activation timeout of sid's pending activation fires
       T                                   every pending activation times out, oldest first
       Z.<c>.<serial>                      ReloadConfig
       V.<services>                        the service directory now holds exactly these files (then the bus reloads)
     result: one token per event: "-" (no output), "!" (ill-formed event: actor not connected; skipped),
       or outputs joined by "+":
       sp.<sid>.<name>   k.<sid>   <rcpt>:f.<from>.<serial>   <rcpt>:e.<serial>.<error>
       <rcpt>:s.<serial>.<code>   <rcpt>:d.<serial>.<code>          (histid appends #<id> to f/e/s)
     followed by " | " and the sids still pending at the end
   shell <hex>                 -> ok <hex>,<hex>... | err | nomem
   desk <hex>                  -> ok N=<hex|~> E=<hex|~> U=<hex|~> | err | fuel      (~ = key absent, - = empty value)
   cachem <flags> <op>*       the service-file cache (Activation/Cache.v); flags: one char per directory, '1' = strict naming
                               op = L@<fs> (bus_activation_new / bus_activation_reload) | F.<namehex>@<fs> (activation_find_entry)
                               fs = directories joined by "|"; directory = "!" (cannot be opened) | "-" (empty) | files in
                               readdir order joined by ",", file = <namehex>:<mtime>:<contenthex>
                               -> one token per op: <found entry|none|->/<table>   entry = name:exec:user:systemd:mtime:dir:file
   cachespec <flags> <op>*     same input; per F op what Spec/ActivationSpecCache.v's spec_lookup says for the files as they are
                               at that moment (first valid file in search order), per L op "-"
   helper <namehex> <perm 0|1> <dirs>   dirs: "." (none) or directories joined by "/", each "-" or files joined by ",", file = <namehex>:<contenthex>
                               -> exit <code> | exec <userhex> <argvhex,...> | fault *)
open Model_activation

let rec pos_of_int (i : int) : positive =
  if i = 1 then XH else if i land 1 = 0 then XO (pos_of_int (i lsr 1)) else XI (pos_of_int (i lsr 1))
let n_of_int (i : int) : n = if i = 0 then N0 else Npos (pos_of_int i)
let rec int_of_pos = function XH -> 1 | XO p -> 2 * int_of_pos p | XI p -> 2 * int_of_pos p + 1
let int_of_n = function N0 -> 0 | Npos p -> int_of_pos p

let split_ws s = List.filter (fun x -> x <> "") (String.split_on_char ' ' s)
let handlers : (string, string list -> string) Hashtbl.t = Hashtbl.create 16
let reg name f = Hashtbl.replace handlers name f

let ni s = n_of_int (int_of_string s)

let unhex (s : string) : n list =
  if s = "-" then [] else begin
    if String.length s mod 2 <> 0 then failwith "hex";
    List.init (String.length s / 2) (fun i -> n_of_int (int_of_string ("0x" ^ String.sub s (2 * i) 2)))
  end
let hex (b : n list) : string =
  if b = [] then "-" else String.concat "" (List.map (fun c -> Printf.sprintf "%02x" (int_of_n c)) b)

let parse_name (s : string) : bname =
  let k = ni (String.sub s 1 (String.length s - 1)) in
  match s.[0] with 'w' -> Wk k | 'u' -> Uq k | _ -> failwith "name"
let show_name = function Wk k -> "w" ^ string_of_int (int_of_n k) | Uq c -> "u" ^ string_of_int (int_of_n c)

let parse_services (s : string) : service list =
  if s = "-" then [] else
  List.map (fun t -> match String.split_on_char ':' t with
    | [n; e; k] -> { sv_name = parse_name n; sv_exec = ni e; sv_parse_ok = (k <> "0") }
    | _ -> failwith "service") (String.split_on_char ',' s)

let err_name = function
  | EServiceUnknown -> "ServiceUnknown" | ENameHasNoOwner -> "NameHasNoOwner" | EAccessDenied -> "AccessDenied"
  | ELimitsExceeded -> "LimitsExceeded" | ESpawnInvalidArgs -> "InvalidArgs" | EChildExited -> "ChildExited"
  | EChildSignaled -> "ChildSignaled" | EExecFailed -> "ExecFailed" | ETimedOut -> "TimedOut" | ENotSupported -> "NotSupported"

let show_out (ids : bool) (o : out) : string =
  let i = int_of_n in
  let tag id = if ids then "#" ^ string_of_int (i id) else "" in
  match o with
  | OSpawn (sid, n, _) -> Printf.sprintf "sp.%d.%s" (i sid) (show_name n)
  | OKill sid -> Printf.sprintf "k.%d" (i sid)
  | OFwd (r, id, f, s) -> Printf.sprintf "%d:f.%d.%d%s" (i r) (i f) (i s) (tag id)
  | OErr (r, id, s, e) -> Printf.sprintf "%d:e.%d.%s%s" (i r) (i s) (err_name e) (tag id)
  | OStarted (r, id, s, c) -> Printf.sprintf "%d:s.%d.%d%s" (i r) (i s) (i c) (tag id)
  | ODrv (r, s, c) -> Printf.sprintf "%d:d.%d.%d" (i r) (i s) (i c)
  | OGone id -> if ids then Printf.sprintf "gone#%d" (i id) else ""

(* one token -> the events it stands for (the bare T depends on the state) *)
let parse_events (st : state) (tok : string) : event list =
  match String.split_on_char '.' tok with
  | ["C"] -> [EConnect false]
  | ["CF"] -> [EConnect true]
  | ["K"; _] -> [EConnect false]
  | ["KF"; _] -> [EConnect true]
  | ["A"; c; s; n; cl] -> [ESend (ni c, ni s, parse_name n, false, ni cl)]
  | ["B"; c; s; n; cl] -> [ESend (ni c, ni s, parse_name n, false, ni cl)]
  | ["U"; c; s; n; cl] -> [ESend (ni c, ni s, parse_name n, true, ni cl)]
  | ["S"; c; s; n] -> [EStart (ni c, ni s, parse_name n)]
  | ["R"; c; s; k] -> [ERequest (ni c, ni s, ni k)]
  | ["L"; c; s; k] -> [ERelease (ni c, ni s, ni k)]
  | ["D"; c] -> [EDisconnect (ni c)]
  | ["X"; sid; status] -> [EChild (ni sid, Exited (ni status))]
  | ["G"; sid] -> [EChild (ni sid, Signaled)]
  | ["F"; sid] -> [EChild (ni sid, ExecFailed)]
  | ["T"; sid] -> [ETimeout (ni sid)]
  | ["T"] -> List.map (fun s -> ETimeout s) (pending_sids st)
  | ["Z"; c; s] -> [EReload (ni c, ni s)]
  | ["V"; svcs] -> [ESetServices (parse_services svcs)]
  | _ -> failwith ("event " ^ tok)

let run_hist (ids : bool) (args : string list) : string =
  match args with
  | maxp :: svcs :: evs ->
      let (mp, mr) = (match String.split_on_char '/' maxp with [a] -> (a, "1000") | [a; b] -> (a, b) | _ -> failwith "limits") in
      let cf = std_cfg2 (parse_services svcs) (ni mp) (ni mr) in
      let st = ref (start cf) in
      let toks = List.map (fun tok ->
        let es = parse_events !st tok in
        if not (List.for_all (fun e -> wf_event !st e) es) then "!" else begin
          let outs = List.concat_map (fun e -> let (st', o) = step cf !st e in st := st'; o) es in
          let shown = List.filter (fun x -> x <> "") (List.map (show_out ids) outs) in
          if shown = [] then "-" else String.concat "+" shown
        end) evs in
      String.concat " " toks ^ " | " ^
        (match pending_sids !st with [] -> "-" | l -> String.concat "," (List.map (fun s -> string_of_int (int_of_n s)) l))
  | _ -> failwith "hist"

let parse_fs (s : string) : fsys =
  List.map (fun d ->
    if d = "!" then None else if d = "-" then Some [] else
    Some (List.map (fun f -> match String.split_on_char ':' f with
      | [n; m; c] -> (unhex n, { fl_mtime = ni m; fl_content = unhex c })
      | _ -> failwith "file") (String.split_on_char ',' d))) (String.split_on_char '|' s)

let show_opt = function None -> "~" | Some b -> hex b
let show_sentry (e : sentry) : string =
  Printf.sprintf "%s:%s:%s:%s:%d:%d:%s" (hex e.se_name) (hex e.se_exec) (show_opt e.se_user) (show_opt e.se_systemd)
    (int_of_n e.se_mtime) (int_of_n e.se_dir) (hex e.se_file)
let show_table (c : cache) : string =
  match List.sort compare (List.map show_sentry c.by_name) with [] -> "-" | l -> String.concat ";" l

let run_cache (args : string list) : string =
  match args with
  | flags :: ops ->
      let fl = List.init (String.length flags) (fun i -> flags.[i] = '1') in
      let c = ref empty_cache in
      let toks = List.map (fun op ->
        match String.split_on_char '@' op with
        | ["L"; fs] -> c := reload fl (parse_fs fs); "-/" ^ show_table !c
        | [f; fs] when String.length f > 2 && f.[0] = 'F' ->
            let (c', r) = find_entry fl (parse_fs fs) !c (unhex (String.sub f 2 (String.length f - 2))) in
            c := c';
            (match r with None -> "none" | Some e -> show_sentry e) ^ "/" ^ show_table !c
        | _ -> failwith "cache op") ops in
      if toks = [] then "-" else String.concat " " toks
  | _ -> failwith "cachem"

let run_cachespec (args : string list) : string =
  match args with
  | flags :: ops ->
      let fl = List.init (String.length flags) (fun i -> flags.[i] = '1') in
      let toks = List.map (fun op ->
        match String.split_on_char '@' op with
        | ["L"; _] -> "-"
        | [f; fs] when String.length f > 2 && f.[0] = 'F' ->
            (match spec_lookup fl (parse_fs fs) (unhex (String.sub f 2 (String.length f - 2))) with None -> "none" | Some e -> show_sentry e)
        | _ -> failwith "cache op") ops in
      if toks = [] then "-" else String.concat " " toks
  | _ -> failwith "cachespec"

let () =
  reg "cachem" run_cache;
  reg "cachespec" run_cachespec;
  reg "hist" (run_hist false);
  reg "histid" (run_hist true);
  reg "shell" (fun args -> match args with
    | [h] -> (match shell_parse (unhex h) with
              | ShOk argv -> "ok " ^ String.concat "," (List.map hex argv)
              | ShErr -> "err" | ShNoMem -> "nomem")
    | _ -> failwith "shell");
  reg "desk" (fun args -> match args with
    | [h] -> (match desktop_load (unhex h) with
              | LOk d ->
                  let g k = match get_string d sECTION k with None -> "~" | Some v -> hex v in
                  Printf.sprintf "ok N=%s E=%s U=%s" (g kEY_NAME) (g kEY_EXEC) (g kEY_USER)
              | LErr -> "err" | LFuel -> "fuel")
    | _ -> failwith "desk");
  reg "helper" (fun args -> match args with
    | [name; perm; dirs] ->
        let parse_dir d = if d = "-" then [] else
          List.map (fun f -> match String.split_on_char ':' f with
            | [n; c] -> (unhex n, unhex c) | _ -> failwith "file") (String.split_on_char ',' d) in
        let dirs = if dirs = "." then [] else List.map parse_dir (String.split_on_char '/' dirs) in
        let env = { h_dirs = dirs; h_perm_ok = (perm = "1"); h_user_ok = (fun _ -> true) } in
        (match helper env (unhex name) with
         | HExit c -> "exit " ^ string_of_int (int_of_n c)
         | HExec (argv, user) -> "exec " ^ hex user ^ " " ^ String.concat "," (List.map hex argv)
         | HFault -> "fault")
    | _ -> failwith "helper")
