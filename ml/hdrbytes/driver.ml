(* Trusted glue for the byte-level header editor (coq/Wire/HeaderBytes.v): one case per line in, one result line out.
     hedit <message-hex> <op>...
     hbuild <type> <flags> <serial> <setters>     (the header part of the harness's `build` command, empty body)
   the same op tokens as the `edit` command of harness/c/wire_h.c (apply_setter) and of ml/wire/driver.ml:
     path= iface= member= err= dest= sender= ci=   followed by <hex> (set) or ~ (delete); rs=<decimal>; strip=1
   The message is split into header and body (hb_load: cache as _dbus_header_load leaves it).  After each op the
   glue does what do_edit does through the public API: the getters in the order of dump_getters (path, interface,
   member, error name, destination, sender, container instance, reply serial -- each through the cache), then
   dbus_message_marshal = dbus_message_lock (_dbus_header_update_lengths; with a non-empty body the assertion
   reads the SIGNATURE field through the cache) and header ++ body.
   Output per op, joined with "|":   <getters>@<message hex>#cache=<11 entries>#ecache=<11 entries>
   cache = the cache after getters + marshal (what the next op sees), ecache = right after the edit;
   entries: U (unknown), N (nonexistent) or the cached value position.  An error of the model stops the line:
   !fault / !assert / !fuel / !gap.
   hbuild: dbus_message_new (hb_create, little endian), the flag setters, then the comma separated setters applied in
   order WITHOUT any getter in between (the cache stays invalidated), dbus_message_set_serial, then the getters and
   the marshalled message as `getters=<getters> bytes=<hex> cache=<11 entries>`. *)
open Model_hdrbytes

let rec pos_of_int (i : int) : positive =
  if i = 1 then XH else if i land 1 = 0 then XO (pos_of_int (i lsr 1)) else XI (pos_of_int (i lsr 1))
let n_of_int (i : int) : n = if i = 0 then N0 else Npos (pos_of_int i)
let rec int_of_pos = function XH -> 1 | XO p -> 2 * int_of_pos p | XI p -> 2 * int_of_pos p + 1
let int_of_n = function N0 -> 0 | Npos p -> int_of_pos p

let bytes_of_hex (h : string) : n list =
  let h = if h = "-" then "" else h in
  let l = String.length h / 2 in
  List.init l (fun i -> n_of_int (int_of_string ("0x" ^ String.sub h (2 * i) 2)))
let hex_of_bytes (l : n list) : string =
  if l = [] then "-" else String.concat "" (List.map (fun b -> Printf.sprintf "%02x" (int_of_n b)) l)

(* decimal string <-> extracted N without going through OCaml ints *)
let dec_of_n (x : n) : string =
  let rec bits p = match p with XH -> [1] | XO q -> 0 :: bits q | XI q -> 1 :: bits q in
  match x with
  | N0 -> "0"
  | Npos p ->
      let bs = List.rev (bits p) in
      let digits = ref [0] in
      List.iter (fun b ->
        let carry = ref b in
        digits := List.map (fun d -> let v = 2 * d + !carry in carry := v / 10; v mod 10) !digits;
        if !carry > 0 then digits := !digits @ [!carry]) bs;
      String.concat "" (List.rev_map string_of_int !digits)
let n_of_dec (s : string) : n =
  let ten = n_of_int 10 in
  let acc = ref N0 in
  String.iter (fun c -> acc := N.add (N.mul !acc ten) (n_of_int (Char.code c - 48))) s; !acc

let split_ws s = List.filter (fun x -> x <> "") (String.split_on_char ' ' s)
let handlers : (string, string list -> string) Hashtbl.t = Hashtbl.create 8
let reg name f = Hashtbl.replace handlers name f

let err_str = function R_FAULT -> "fault" | R_ASSERT -> "assert" | R_FUEL -> "fuel" | R_GAP -> "gap"
exception Model_error of rerr
exception Bad_tokens
let ok = function Inl x -> x | Inr e -> raise (Model_error e)

let field_code = function
  | "path" -> 1 | "iface" -> 2 | "member" -> 3 | "err" -> 4 | "rs" -> 5 | "dest" -> 6 | "sender" -> 7 | "ci" -> 10 | _ -> -1
let edit_of (kv : string) : edit =
  match String.index_opt kv '=' with
  | None -> raise Bad_tokens
  | Some i ->
      let k = String.sub kv 0 i and v = String.sub kv (i + 1) (String.length kv - i - 1) in
      if k = "strip" then EStrip
      else if k = "rs" then ESet (n_of_int 5, VNum (n_of_int 117, n_of_dec v))
      else
        let c = field_code k in
        if c < 0 then raise Bad_tokens
        else if v = "~" then EDel (n_of_int c)
        else ESet (n_of_int c, VStr (n_of_int (if c = 1 || c = 10 then 111 else 115), bytes_of_hex v))

let cache_str (h : hdr) : string =
  String.concat "," (List.init 11 (fun i ->
    match cache_get h.h_cache (n_of_int i) with CUnknown -> "U" | CNonexistent -> "N" | CPos p -> string_of_int (int_of_n p)))

(* dump_getters: v[0..6] first, the reply serial last; every getter is _dbus_header_get_field_basic *)
let getters (h : hdr) : string * hdr =
  let cur = ref h in
  let get c = let (v, h') = ok (hb_get (n_of_int c) !cur) in cur := h'; v in
  let strs = List.map (fun c -> match get c with Some (VStr (_, s)) -> hex_of_bytes s | Some _ -> "?" | None -> "~") [1; 2; 3; 4; 6; 7; 10] in
  let rs = match get 5 with Some (VNum (_, n)) -> dec_of_n n | Some _ -> "?" | None -> "0" in
  ("rs" ^ rs ^ "," ^ String.concat "," strs, !cur)

(* dbus_message_marshal: lock (update_lengths; assertion build: get_signature when the body is not empty) *)
let marshal (h : hdr) (body : n list) : string * hdr =
  let h1 = ok (hb_update_lengths (n_of_int (List.length body)) h) in
  let h2 = if body = [] then h1 else snd (ok (hb_get (n_of_int 8) h1)) in
  (hex_of_bytes (h2.h_data @ body), h2)

let () =
  reg "hedit" (fun (hx :: ops) ->
    match hb_load (bytes_of_hex hx) with
    | Inr e -> "?load-" ^ err_str e
    | Inl (h0, body) ->
        if ops = [] then (try fst (marshal h0 body) with Model_error e -> "!" ^ err_str e)
        else begin
          let cur = ref h0 in
          let out = ref [] in
          (try
            List.iter (fun op ->
              let h1 = ok (hb_apply true (edit_of op) !cur) in
              let ec = cache_str h1 in
              let (g, h2) = getters h1 in
              let (bytes, h3) = marshal h2 body in
              cur := h3;
              out := (g ^ "@" ^ bytes ^ "#cache=" ^ cache_str h3 ^ "#ecache=" ^ ec) :: !out) ops
          with Model_error e -> out := ("!" ^ err_str e) :: !out);
          String.concat "|" (List.rev !out)
        end)

let () =
  reg "hbuild" (fun (ty :: fl :: ser :: setters :: _toks) ->
    try
      let flags = int_of_string fl in
      let h = ref (hb_create true (n_of_int (int_of_string ty))) in
      List.iter (fun bit -> if flags land bit <> 0 then h := ok (hb_toggle_flag (n_of_int bit) true !h)) [1; 2; 4];
      List.iter (fun kv -> if kv <> "" && kv <> "-" then h := ok (hb_apply true (edit_of kv) !h)) (String.split_on_char ',' setters);
      h := ok (hb_set_serial (n_of_dec ser) !h);
      let (g, h2) = getters !h in
      let (bytes, h3) = marshal h2 [] in
      Printf.sprintf "getters=%s bytes=%s cache=%s" g bytes (cache_str h3)
    with Model_error e -> "!" ^ err_str e)
