(* Trusted glue for the routing package (C09, C05): parses one history per line,
   runs the extracted model step by step, prints one canonical token per step.

   hist <restrictive 0|1> <max_replies> <timeout ms | -1> <event>*
     C<fds>                                              connect (fds 0|1)
     S.<c>.<c|r|e|s|v|u|w (unknown types 5, 9, 255)>.<noreply>.<noauto>.<serial>.<rserial>.<u|n><k>.<nfds>.<token>
     D.<c>        disconnect      T.<d>   d ms pass
     R.<c>.<serial>.<name>.<flags>   RequestName (bit0 allow_replacement, bit1 replace_existing, bit2 do_not_queue)
     L.<c>.<serial>.<name>           ReleaseName
     G.<c>.<serial>   some other driver method (GetId / NameHasOwner)
     H.<c>   c's socket is closed and the bus's transport has seen EOF; D.<c> (Disconnected processed) follows later
     B.<c>   c stops reading and its queue at the bus is driven over max_outgoing_bytes      U.<c>   c reads again
     M.<c>.<serial>.<eavesdrop 0|1>.<type c|r|e|s|x>.<sender u<k>|n<k>|x>.<destination u<k>|n<k>|x>   AddMatch
   result: per step "-" (no output), "!" (ill-formed event) or outputs joined by "+":
     <rcpt>:F.<from>.<token>   <rcpt>:E.<error>.<reply_serial>   <rcpt>:D.<reply_serial>.<code> *)
open Model_routing

let rec pos_of_int (i : int) : positive =
  if i = 1 then XH else if i land 1 = 0 then XO (pos_of_int (i lsr 1)) else XI (pos_of_int (i lsr 1))
let n_of_int (i : int) : n = if i = 0 then N0 else Npos (pos_of_int i)
let rec int_of_pos = function XH -> 1 | XO p -> 2 * int_of_pos p | XI p -> 2 * int_of_pos p + 1
let int_of_n = function N0 -> 0 | Npos p -> int_of_pos p

let split_ws s = List.filter (fun x -> x <> "") (String.split_on_char ' ' s)
let handlers : (string, string list -> string) Hashtbl.t = Hashtbl.create 16
let reg name f = Hashtbl.replace handlers name f

let ni s = n_of_int (int_of_string s)
let b s = s = "1"

let parse_event (tok : string) : event =
  match String.split_on_char '.' tok with
  | [c] when String.length c = 2 && c.[0] = 'C' -> EConnect (c.[1] = '1')
  | ["S"; c; ty; nr; na; ser; rser; d; nfds; token] ->
      let ty = (match ty with "c" -> TCall | "r" -> TReturn | "e" -> TError | "s" -> TSignal
                | "v" -> TOther (n_of_int 5) | "u" -> TOther (n_of_int 9) | "w" -> TOther (n_of_int 255) | _ -> failwith "type") in
      let k = ni (String.sub d 1 (String.length d - 1)) in
      let d = (match d.[0] with 'u' -> DUnique k | 'n' -> DName k | _ -> failwith "dest") in
      ESend (ni c, { m_type = ty; m_noreply = b nr; m_noauto = b na; m_serial = ni ser; m_rserial = ni rser;
                     m_dest = d; m_nfds = ni nfds; m_token = ni token })
  | ["D"; c] -> EDisconnect (ni c)
  | ["T"; d] -> ETick (ni d)
  | ["R"; c; s; n; f] -> let f = int_of_string f in
      ERequestName (ni c, ni s, ni n, f land 1 <> 0, f land 2 <> 0, f land 4 <> 0)
  | ["L"; c; s; n] -> EReleaseName (ni c, ni s, ni n)
  | ["B"; c] -> EBlock (ni c)
  | ["U"; c] -> EDrain (ni c)
  | ["H"; c] -> EHangup (ni c)
  | ["G"; c; s] -> EDriverCall (ni c, ni s)
  | ["M"; c; s; ev; ty; sd; ds] ->
      let od x = if x = "x" then None else
        let k = ni (String.sub x 1 (String.length x - 1)) in
        Some (match x.[0] with 'u' -> DUnique k | 'n' -> DName k | _ -> failwith "rule name") in
      let oty = (match ty with "x" -> None | "c" -> Some TCall | "r" -> Some TReturn | "e" -> Some TError | "s" -> Some TSignal | _ -> failwith "rule type") in
      EAddMatch (ni c, ni s, { r_eaves = b ev; r_type = oty; r_sender = od sd; r_dest = od ds })
  | _ -> failwith ("event " ^ tok)

let err_name = function
  | EAccessDenied -> "AccessDenied" | ELimitsExceeded -> "LimitsExceeded" | ENotSupported -> "NotSupported"
  | ENoReply -> "NoReply" | ENameHasNoOwner -> "NameHasNoOwner" | EServiceUnknown -> "ServiceUnknown"
let err_of_name = function
  | "AccessDenied" -> EAccessDenied | "LimitsExceeded" -> ELimitsExceeded | "NotSupported" -> ENotSupported
  | "NoReply" -> ENoReply | "NameHasNoOwner" -> ENameHasNoOwner | "ServiceUnknown" -> EServiceUnknown
  | s -> failwith ("error name " ^ s)

let show_out (o : (n * omsg) list) : string =
  if o = [] then "-" else
  String.concat "+" (List.map (fun (r, m) ->
    string_of_int (int_of_n r) ^ ":" ^
    (match m with
     | OFwd (f, m) | OEav (f, m) -> Printf.sprintf "F.%d.%d" (int_of_n f) (int_of_n m.m_token)
     | OErr (e, rs) -> Printf.sprintf "E.%s.%d" (err_name e) (int_of_n rs)
     | ODrv (rs, code) -> Printf.sprintf "D.%d.%d" (int_of_n rs) (int_of_n code)
     | OCall (f, sr) -> Printf.sprintf "C.%d.%d" (int_of_n f) (int_of_n sr))) o)

let parse_cfg r l t : cfg =
  { restrictive = b r; max_replies = ni l; reply_timeout = (let t = int_of_string t in if t < 0 then None else Some (n_of_int t)) }

let show_pend (pl : pend list) : string =
  if pl = [] then "-" else
  String.concat "+" (List.map (fun p -> Printf.sprintf "%d.%s.%d.%d" (int_of_n p.p_get)
    (match p.p_send with Some s -> string_of_int (int_of_n s) | None -> "x") (int_of_n p.p_serial) (int_of_n p.p_added)) pl)

let run_hist (with_pend : bool) (args : string list) : string =
  match args with
  | r :: l :: t :: evs ->
      let cf = parse_cfg r l t in
      let st = ref init in
      let outs = List.map (fun tok ->
        let e = parse_event tok in
        if not (wf_event !st e) then "!" else begin
          let (st', o) = step cf !st e in
          st := st';
          if with_pend then show_out o ^ "/" ^ show_pend st'.st_pend else show_out o
        end) evs in
      String.concat " " outs
  | _ -> "?bad-args"

(* oracle <cfg> <event>=<observed step token>* : the specification oracle (Spec/RoutingSpec.v oracle_step) evaluated
   on an OBSERVED trace; prints one verdict code per step ("9": observation not expressible, e.g. closed socket) *)
let parse_out (sent : (int, msg) Hashtbl.t) (tok : string) : (n * omsg) list option =
  if tok = "-" then Some [] else
  try Some (List.map (fun x ->
    match String.split_on_char ':' x with
    | [r; d] ->
        (match String.split_on_char '.' d with
         | ["F"; f; t] ->
             let t = int_of_string t in
             let m = (match Hashtbl.find_opt sent t with
                      | Some m -> m
                      | None -> { m_type = TSignal; m_noreply = false; m_noauto = false; m_serial = N0; m_rserial = N0;
                                  m_dest = DUnique N0; m_nfds = N0; m_token = n_of_int t }) in
             (ni r, OFwd (ni f, m))
         | ["E"; e; rs] -> (ni r, OErr (err_of_name e, ni rs))
         | ["D"; rs; c] -> (ni r, ODrv (ni rs, ni c))
         | ["C"; f; sr] -> (ni r, OCall (ni f, ni sr))
         | _ -> failwith "out")
    | _ -> failwith "out") (String.split_on_char '+' tok))
  with _ -> None

let run_oracle (args : string list) : string =
  match args with
  | r :: l :: t :: evs ->
      let cf = parse_cfg r l t in
      let st = ref init in
      let tr = ref [] in
      let sent = Hashtbl.create 16 in
      let outs = List.map (fun tok ->
        match String.index_opt tok '=' with
        | None -> "?"
        | Some i ->
          let e = parse_event (String.sub tok 0 i) in
          let otok = String.sub tok (i + 1) (String.length tok - i - 1) in
          (match e with ESend (_, m) -> Hashtbl.replace sent (int_of_n m.m_token) m | _ -> ());
          if not (wf_event !st e) then "!" else begin
            let owner = (match e with
                         | ESend (_, m) -> resolve !st m.m_dest
                         | ERequestName (_, _, n, _, _, _) -> resolve (fst (step cf !st e)) (DName n)      (* primary owner AFTER the step *)
                         | _ -> None) in
            let holdok = (match e, owner with
                          | ESend (_, m), None -> (match m.m_dest with
                                                   | DName n -> activatable n && not m.m_noauto
                                                   | DUnique _ -> false)
                          | _ -> false) in
            let held = (match e with ERequestName (_, _, n, _, _, _) -> held_for !st.st_held n | _ -> []) in
            let eaves = (match e, owner with
                         | ESend (c, m), Some w -> eavesdroppers !st c w m
                         | (ERequestName (c, _, _, _, _, _) | EReleaseName (c, _, _) | EAddMatch (c, _, _) | EDriverCall (c, _)), _ ->
                             drv_eavesdroppers (fst (step cf !st e)) c          (* rules and names as they are after the driver handled the call *)
                         | _ -> []) in
            let res = (match parse_out sent otok with
                       | None -> "9"
                       | Some o ->
                           (* a socket cannot tell a forward from an eavesdropped copy: the owner's FIRST copy is the
                              forward, every other copy (including a second one to the owner) is an eavesdropped copy *)
                           let o = (match owner with
                                    | Some w ->
                                        let seen = ref false in
                                        let is_release = (match e with ERequestName _ -> true | _ -> false) in
                                        let cls = List.map (fun (r, x) -> match x with
                                          | OFwd (f, m) when r = w && (not !seen || is_release) -> seen := true; (r, x)
                                          | OFwd (f, m) -> (r, OEav (f, m))
                                          | _ -> (r, x)) o in
                                        List.filter (fun (_, x) -> match x with OFwd _ -> true | _ -> false) cls @
                                        List.filter (fun (_, x) -> match x with OFwd _ -> false | _ -> true) cls
                                    | None -> o) in
                           let full = (match owner with Some w -> is_full !st w | None -> false) in
                           let c = int_of_n (oracle_step cf !tr owner eaves full holdok held e o) in
                           let detail =
                             if c = 4 then begin
                               let pr l = String.concat "," (List.map (fun (a, s) -> Printf.sprintf "%d.%d" (int_of_n a) (int_of_n s)) l) in
                               let rec minus l1 l2 = (match l2 with [] -> l1 | x :: r ->
                                 let rec rm = (function [] -> [] | y :: t -> if y = x then t else y :: rm t) in minus (rm l1) r) in
                               let obs = noreplies o and exp = expected_noreplies cf.reply_timeout !tr e in
                               "[" ^ pr (minus obs exp) ^ ";" ^ pr (minus exp obs) ^ "]"
                             end else "" in
                           let own = (match e with ESend _ -> "@" ^ (match owner with Some w -> string_of_int (int_of_n w) | None -> "x") | _ -> "") in
                           (* the ledger of open calls (RoutingSpec.age) is defined on send steps; a message that was held for an
                              activation is passed on by the RequestName step: record each such forward as the send it completes *)
                           (match e with
                            | ERequestName _ ->
                                List.iter (fun (r, x) -> match x with
                                  | OFwd (f, m) -> tr := (ESend (f, m), [(r, OFwd (f, m))]) :: !tr
                                  | _ -> ()) o
                            | _ -> ());
                           tr := (e, o) :: !tr; string_of_int c ^ detail ^ own) in
            st := fst (step cf !st e);
            res
          end) evs in
      String.concat " " outs
  | _ -> "?bad-args"

(* exp <expire_after> <op>* : the expiry machinery (Routing/Expire.v) on explicit times; same grammar and output as
   harness/c/routing_h.c *)
let int_of_z = function Z0 -> 0 | Zpos p -> int_of_pos p | Zneg p -> - (int_of_pos p)
let z_of_int i = if i = 0 then Z0 else if i > 0 then Zpos (pos_of_int i) else Zneg (pos_of_int (-i))
let zi s = z_of_int (int_of_string s)

let run_exp (args : string list) : string =
  match args with
  | after :: ops ->
      let x = ref (xinit (zi after)) in
      String.concat " " (List.map (fun tok ->
        let op = (match String.split_on_char '.' tok with
          | ["A"; id; s; u] -> XAdd (zi id, { tv_sec = zi s; tv_usec = zi u })
          | ["R"; id] -> XRemove (zi id)
          | ["K"; id] -> XMark (zi id)
          | ["I"; s1; u1; s2; u2; s3; u3] ->
              XIter ({ tv_sec = zi s1; tv_usec = zi u1 }, { tv_sec = zi s2; tv_usec = zi u2 }, { tv_sec = zi s3; tv_usec = zi u3 })
          | _ -> failwith ("op " ^ tok)) in
        let (x', ex) = xstep !x op in
        x := x';
        let tm = x'.x_timer in
        Printf.sprintf "%s/%d%d/%d/%d.%d/%d"
          (if ex = [] then "-" else String.concat "," (List.map (fun i -> string_of_int (int_of_z i)) ex))
          (if tm.tm_enabled then 1 else 0) (if tm.tm_needs_restart then 1 else 0) (int_of_z tm.tm_interval)
          (int_of_z tm.tm_last.tv_sec) (int_of_z tm.tm_last.tv_usec) (List.length x'.x_items)) ops)
  | _ -> "?bad-args"

let () =
  reg "exp" run_exp;
  reg "oracle" run_oracle;
  reg "plain" (fun evs -> if plain (List.map parse_event evs) then "1" else "0");
  reg "hist" (run_hist false);
  reg "histp" (run_hist true)
