#!/bin/sh
# usage: tools/seed_process.sh <ID> <outdir> <destdir-under-/verif/seeded> [check ids...]
# collects a seeded defect, confirms it (compiles / pinned ctest / demo) and runs the checks against it
id=$1; src=$2; dest=$3; shift 3
mkdir -p /verif/seeded/$dest && cp "$src"/* /verif/seeded/$dest/ 2>/dev/null
( cd /verif && sed "s#out=/verif/seeded/\$id#out=/verif/seeded/$dest#" tools/confirm_seed.sh > /tmp/confirm_$dest.sh && sh /tmp/confirm_$dest.sh $id "$src" > /tmp/confirm_$dest.log 2>&1 )
echo "--- $dest confirm:"; grep -E "compiles|demo on|ctest on|tests passed|tests failed" /verif/seeded/$dest/confirm.txt | tr '\n' ';'; echo
for c in "$@"; do TAIL=3 timeout 2400 /verif/tools/mutcheck.sh /verif/seeded/$dest/patch.diff $c 2>&1 | cut -c1-300 | tail -4; done
