#!/bin/sh
# Runs every registered quick check once (sequentially) and prints a one-line summary per property.
cd "$(dirname "$0")/.."
for id in $(python3 -c "import json; print(' '.join(c['property_id'] for c in json.load(open('MANIFEST.json'))['checks']))"); do
  s=$(date +%s)
  out=$(timeout 2400 python3 tools/check.py $id --tier ${TIER:-quick} 2>&1); rc=$?
  e=$(date +%s)
  nv=$(printf '%s\n' "$out" | grep -c '^VIOLATION')
  nk=$(printf '%s\n' "$out" | grep -c '^KNOWN-FINDING')
  echo "$id rc=$rc violations=$nv known=$nk wall=$((e-s))s"
  [ "$nv" != 0 ] && printf '%s\n' "$out" | grep -A1 '^VIOLATION' | cut -c1-300 | head -6
done
