#!/usr/bin/env python3-vt
import json, sys, glob, jsonschema
m = json.load(open('/verif/MANIFEST.json'))
jsonschema.validate(m, json.load(open('/root/.vp/MANIFEST.schema.json')))
es = json.load(open('/root/.vp/EVIDENCE.schema.json'))
for f in sorted(glob.glob('/verif/evidence/*.json')):
    try:
        jsonschema.validate(json.load(open(f)), es)
        print("ok", f)
    except Exception as e:
        print("INVALID", f, str(e).split("\n")[0])
ids = {c["property_id"] for c in m["checks"]} | {n["property_id"] for n in m.get("not_applicable", [])}
print("manifest ok; covered ids:", len(ids))
