#!/bin/sh
# usage: tools/mutcheck.sh <patch.diff> <ID> [<ID>...]   (env: TIER=quick|thorough)
# Runs the checks for the given properties against a scratch worktree of /repo
# with the patch applied, using a scratch copy of /verif, so that neither /repo
# nor /verif/build nor coq/Gen is disturbed.  Everything is removed afterwards.
set -u
patch=$(readlink -f "$1"); shift
tag=$$
wt=/tmp/mut_repo_$tag
vf=/tmp/mut_verif_$tag
cleanup() { git -C /repo worktree remove --force "$wt" >/dev/null 2>&1; rm -rf "$wt" "$vf"; git -C /repo worktree prune; }
trap cleanup EXIT INT TERM
git -C /repo worktree add -q --detach "$wt" HEAD || exit 2
# carry over uncommitted state of /repo (normally none)
git -C "$wt" apply "$patch" || { echo "mutcheck: patch does not apply"; exit 2; }
mkdir -p "$vf"
rsync -a --exclude build --exclude .git --exclude replays --exclude evidence --exclude '*.vo' --exclude '*.vok' --exclude '*.vos' --exclude '*.glob' --exclude '*.aux' /verif/ "$vf"/
rc=0
for id in "$@"; do
  echo "=== mutcheck $id (patch $(basename "$patch"))"
  ( cd "$vf" && VERIF_REPO="$wt" python3 tools/check.py "$id" --tier "${TIER:-quick}" ) 2>&1 | grep -v '^KNOWN-FINDING' | tail -${TAIL:-15}
done
