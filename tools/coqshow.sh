#!/bin/sh
# usage: coqshow.sh File.v LINE  -- show the goal just before LINE (debug aid)
f=$1; n=$2
d=$(dirname $f); b=$(basename $f .v)
head -n $((n-1)) $f > /tmp/_dbg_$b.v
echo "Show. Abort." >> /tmp/_dbg_$b.v
cd /verif/coq && coqc -Q . DV /tmp/_dbg_$b.v 2>&1 | tail -${3:-40}
rm -f /tmp/_dbg_$b.*  /tmp/._dbg_$b.aux
