"""C04 — name ownership follows the specification's state machine.

Correspondence: every generated history (Connect / Hello / AddMatch /
RequestName / ReleaseName / Disconnect over up to 6 connections and 1-3 names)
is replayed against a fresh dbus-daemon built from /repo's working tree
(harness/py/registry_run.py, raw-wire clients) and through the extracted Coq
model (coq/Registry/Registry.v); after every event the messages every
connection received (per socket, in order), the four query methods and
ListNames (as a set) are compared.  The extracted specification
(coq/Spec/RegistrySpec.v) runs alongside as the oracle, in its literal form
and in the as-implemented form (the recorded exception F4; the former F4b was fixed in /repo and is a
regression input now: corpus/C04/f4b_*.json)."""
import glob, json, multiprocessing, os, random, re, shutil, sys, tempfile
import vlib

sys.path.insert(0, os.path.join(vlib.VERIF, "harness", "py"))
import registry_run

HARNESSES = ()
MLS = ("registry",)
THEOREMS = ["C04_refines_partial", "C04_refines_outside_exceptions", "C04_exceptions_are_the_only_difference",
            "C04_queue_position_refuted", "C04_limit_spares_held_names", "C04_limit_rerequest", "C04_full_statement_refuted",
            "C04_single_primary", "C04_invariant", "C04_reserved", "C04_queries_agree", "C04_signals_before_reply",
            "C04_reply_code_meaning", "C04_no_assertion_reached",
            "C04_unique_names", "C04_string_table_faithful", "C04_driver_refines", "C04_policy_gate", "C04_error_changes_nothing",
            "C04_reload_keeps_names", "C04_raw_queries", "C04_transaction_fifo"]

NPROC = vlib.NPROC

VALID = ["com.example.A", "com.example.B", "org.x.y-z", "a.b"]
LONG_OK = "a." + "b" * 253          # 255 bytes: longest valid name
LONG_BAD = "a." + "b" * 254         # 256 bytes
INVALID = ["", "foo", ":1.0", ":1.1", ":1.7", ":x.y", ":", "org.freedesktop.DBus", ".a.b", "a..b", "a.b.", "a.1b", "a.b c", "a.b/c",
           "a.é", LONG_BAD]
NEAR_BUS = ["org.freedesktop.DBusx", "org.freedesktop.DBu"]   # valid, not the bus name
FLAGS_ODD = [0x8, 0x10, 0xfffffff8, 0x80000000, 0xffffffff, 0xfffffffb, 0x80000002, 0x40000004, 0x9, 0xa, 0xc, 0xe]


def hx(s):
    b = s.encode("utf-8")
    return b.hex() if b else "-"


def R(c, name, flags):
    return "R%d,%s,%d" % (c, hx(name), flags)


def L(c, name):
    return "L%d,%s" % (c, hx(name))


def probes_for(names, nconn):
    ps = ["S" + hx(n) for n in names] + ["U%d" % i for i in range(min(nconn, 3))] + ["S" + hx("org.freedesktop.DBus")]
    return ps


# ---------------------------------------------------------------------------
# generators
# ---------------------------------------------------------------------------
def gen_random(rnd, length, maxconn=6):
    """one random history; connection 0 says Hello and subscribes first and never leaves"""
    nnames = rnd.choice((1, 1, 2, 2, 3))
    pool = rnd.sample(VALID + [LONG_OK] + NEAR_BUS, nnames)
    limit = rnd.choice((512,) * 12 + (2, 2, 3, 3, 3, 4, 4, 1))
    ev = ["C", "H0", "M0"]
    nconn, live, active = 1, [0], {0}
    bad_pool = INVALID
    for _ in range(length):
        r = rnd.random()
        if r < 0.12 and nconn < maxconn:
            ev.append("C")
            c = nconn
            nconn += 1
            live.append(c)
            if rnd.random() < 0.9:
                ev.append("H%d" % c)
                active.add(c)
                if rnd.random() < 0.5:
                    ev.append("M%d" % c)
        elif r < 0.70:
            c = rnd.choice(live)
            name = rnd.choice(pool) if rnd.random() < 0.93 else rnd.choice(bad_pool)
            fl = rnd.randrange(8) if rnd.random() < 0.9 else rnd.choice(FLAGS_ODD)
            ev.append(R(c, name, fl))
        elif r < 0.84:
            c = rnd.choice(live)
            name = rnd.choice(pool) if rnd.random() < 0.9 else rnd.choice(bad_pool)
            ev.append(L(c, name))
        elif r < 0.93:
            cands = [c for c in live if c != 0]
            if cands:
                c = rnd.choice(cands)
                ev.append("D%d" % c)
                live.remove(c)
                active.discard(c)
        elif r < 0.97:
            c = rnd.choice(live)
            ev.append("H%d" % c)
            active.add(c)
        else:
            ev.append("M%d" % rnd.choice(live))
    return (limit, probes_for(pool, nconn), ev)


SETUP3 = ["C", "H0", "M0", "C", "H1", "M1", "C", "H2"]


def gen_exhaustive(depth, flagset=range(8)):
    """every sequence of `depth` operations on ONE name by three registered connections"""
    n = VALID[0]
    ops = [R(c, n, f) for c in range(3) for f in flagset] + [L(c, n) for c in range(3)] + ["D1", "D2"]
    out = []

    def rec(prefix, gone, d):
        if d == 0:
            out.append((512, probes_for([n], 3)[:4], SETUP3 + prefix))
            return
        for op in ops:
            c = int(op[1])
            if c in gone:
                continue
            rec(prefix + [op], gone | ({c} if op[0] == "D" else set()), d - 1)
    rec([], frozenset(), depth)
    return out


def gen_targeted():
    """boundary cases of the proofs' case splits, hand-written"""
    A, B = VALID[0], VALID[1]
    cases = []
    three = ["C", "H0", "M0", "C", "H1", "M1", "C", "H2", "C", "H3"]
    pr = probes_for([A, B], 3)
    # F4: REPLACE_EXISTING that cannot replace: new requester / already queued requester
    cases.append((512, pr, three + [R(0, A, 0), R(1, A, 0), R(2, A, 2), R(1, A, 2), R(3, A, 3), L(0, A), "D1", "D2"]))
    cases.append((512, pr, three + [R(0, A, 0), R(1, A, 0), R(2, A, 0), R(3, A, 0), R(3, A, 2), R(2, A, 6), R(2, A, 2)]))
    # formerly F4b (fixed): re-request at the limit by the owner and by a waiter must not be refused
    cases.append((2, pr, three + [R(0, A, 1), R(0, A, 0), R(0, A, 4), R(1, A, 0), R(1, A, 1), R(1, A, 4), R(0, B, 0), L(0, A), R(0, B, 0), R(1, A, 0)]))
    cases.append((1, pr, three + [R(0, A, 0), L(0, A), R(1, B, 7)]))
    cases.append((3, pr, three + [R(0, A, 0), R(0, B, 0), R(0, VALID[2], 0), R(1, A, 0), R(1, B, 0), R(1, A, 4), R(1, VALID[2], 0), L(0, A), R(0, A, 0)]))
    # replacement: owner allows / does not allow, owner with and without DO_NOT_QUEUE, requester queued before
    for of in (1, 5):
        for rf in (2, 3, 6, 7):
            cases.append((512, pr, three + [R(0, A, of), R(1, A, 0), R(2, A, rf), R(0, A, rf), R(1, A, 2), L(2, A), L(0, A), L(1, A)]))
            cases.append((512, pr, three + [R(0, A, of), R(2, A, 0), R(1, A, 0), R(2, A, rf), L(2, A)]))
    # owner changes its flags, then is replaced or not
    for f1 in range(8):
        for f2 in (0, 1, 4, 5):
            cases.append((512, pr, three + [R(0, A, f1), R(0, A, f2), R(1, A, 2), R(2, A, 6), R(3, A, 0), "D1", L(0, A)]))
    # DO_NOT_QUEUE by a waiter leaves the queue; then release / disconnect hand-over chains
    cases.append((512, pr, three + [R(0, A, 0), R(1, A, 0), R(2, A, 0), R(1, A, 4), R(1, A, 4), L(1, A), L(0, A), "D2", R(3, A, 4)]))
    cases.append((512, pr, three + [R(1, A, 0), R(2, A, 0), R(3, A, 0), R(1, B, 0), R(2, B, 0), "D1", "D2", "D3"]))
    # disconnect order: last acquired first, unique name last; queued (not owned) names are dropped silently
    cases.append((512, pr, three + [R(1, A, 0), R(1, B, 0), R(1, VALID[2], 0), R(2, B, 0), R(2, A, 0), L(1, B), R(1, B, 0), "D1", "D2"]))
    # names that can be neither requested nor released; undefined flag bits; before Hello; second Hello
    bad = []
    for nme in INVALID + NEAR_BUS + [LONG_OK]:
        bad += [R(1, nme, 0), R(1, nme, 7), L(1, nme)]
    cases.append((512, probes_for([LONG_OK, "org.freedesktop.DBusx"], 3) + ["S" + hx(""), "S" + hx("foo"), "S" + hx("a..b")], three + bad))
    cases.append((512, pr, ["C", "H0", "M0", "C", R(1, A, 0), L(1, A), "M1", "H1", "H1", "H0", R(1, A, 0xfffffff8), R(0, A, 0x80000002), R(0, A, 0xa), "D1"]))
    for f in FLAGS_ODD:
        cases.append((512, pr, three + [R(0, A, f), R(1, A, f), R(2, A, f ^ 2), L(0, A)]))
    return cases


# ---- driver layer: own-policy gate, ReloadConfig, raw query strings ------------------------------
XPROBES = ["x" + hx(":1.0"), "x" + hx(":1.2"), "x" + hx(":1.4"), "x" + hx(":0.1"), "x" + hx(".."), "x"]
POLICY_NAMES = ["com.example", "com.example.A", "com.example.B", "com.exampleX.y", "com.exampl.e", "org.x.y-z", "a.b", "a.b.c", "a.bc"]


def rule(allow, kind, name=None):
    return ("a" if allow else "d") + ("*" if kind == "*" else kind + hx(name))


def gen_rules(rnd):
    n = rnd.choice((0, 1, 2, 2, 3, 3, 4))
    rs = []
    for _ in range(n):
        k = rnd.choice("*NNPP")
        rs.append(rule(rnd.random() < 0.6, k, None if k == "*" else rnd.choice(["com.example", "com.example.A", "com.example.B", "a.b", "org.x", "org.x.y-z", "com"])))
    return "+".join(rs) if rs else "-"


def gen_policy_random(rnd, length, maxconn=5):
    """random history under a random own / own_prefix policy, with ReloadConfig events changing policy and limit"""
    pool = rnd.sample(POLICY_NAMES, rnd.choice((2, 3, 4)))
    limit = rnd.choice((512,) * 6 + (2, 3, 4))
    rules = gen_rules(rnd)
    ev = ["C", "H0", "M0"]
    nconn, live = 1, [0]
    for _ in range(length):
        r = rnd.random()
        if r < 0.12 and nconn < maxconn:
            ev += ["C", "H%d" % nconn] + (["M%d" % nconn] if rnd.random() < 0.4 else [])
            live.append(nconn)
            nconn += 1
        elif r < 0.62:
            name = rnd.choice(pool) if rnd.random() < 0.92 else rnd.choice(INVALID)
            ev.append(R(rnd.choice(live), name, rnd.randrange(8)))
        elif r < 0.74:
            ev.append(L(rnd.choice(live), rnd.choice(pool)))
        elif r < 0.82:
            cands = [c for c in live if c != 0]
            if cands:
                c = rnd.choice(cands)
                ev.append("D%d" % c)
                live.remove(c)
        else:
            ev.append("W%d,%s,%d" % (rnd.choice(live), gen_rules(rnd), rnd.choice((512, 512, 1, 2, 3, 4))))
    return {"limit": limit, "rules": rules, "probes": ["S" + hx(n) for n in pool[:3]] + rnd.sample(XPROBES, 3), "events": ev}


def gen_policy_targeted():
    A, B, X, P = "com.example.A", "com.example.B", "com.exampleX.y", "com.example"
    three = ["C", "H0", "M0", "C", "H1", "M1", "C", "H2"]
    pr = ["S" + hx(n) for n in (A, B, X, P)] + XPROBES[:4]
    cases = []

    def add(limit, rules, ev, probes=pr):
        cases.append({"limit": limit, "rules": rules, "probes": probes, "events": three + ev})
    every = [R(1, n, 0) for n in POLICY_NAMES] + [R(2, n, 7) for n in POLICY_NAMES]
    # own_prefix: the name itself and names below it, not names that merely start with the same letters
    for rules in (rule(True, "P", P), rule(True, "*") + "+" + rule(False, "P", P), rule(True, "P", "com"), rule(True, "P", "a.b"),
                  rule(True, "N", A), rule(True, "*") + "+" + rule(False, "N", A), rule(False, "*") + "+" + rule(True, "N", A),
                  rule(True, "N", A) + "+" + rule(False, "*"), rule(True, "P", P) + "+" + rule(False, "N", A) + "+" + rule(True, "N", B), "-",
                  rule(False, "P", P) + "+" + rule(True, "P", A), rule(True, "P", A) + "+" + rule(False, "P", P)):
        add(512, rules, every)
    # the gate sits after the name checks and before the limit; nothing is refused by policy that is refused for syntax
    add(1, rule(False, "*"), [R(1, A, 0), R(1, "foo", 0), R(1, ":1.1", 0), R(1, "org.freedesktop.DBus", 0), L(1, A)])
    add(2, rule(True, "N", A), [R(1, A, 0), R(1, B, 0), R(1, A, 1), R(2, B, 0), R(2, A, 4), R(2, A, 0)])
    # ReloadConfig: names held stay; the new policy applies to the next request, even a flag refresh by the owner;
    # a waiter is promoted although the policy no longer lets it ask; the new limit applies at once
    add(512, rule(True, "*"), [R(1, A, 1), R(2, A, 0), "W0,%s,512" % rule(False, "N", A), R(1, A, 0), R(2, A, 2), R(0, A, 0), L(1, A), R(1, A, 0),
                               "W1,%s,512" % rule(True, "*"), R(1, A, 0), L(2, A)])
    add(512, rule(True, "*"), [R(1, A, 0), R(1, B, 0), "W0,%s,2" % rule(True, "*"), R(1, X, 0), R(1, A, 1), L(1, A), R(1, A, 0), "W0,%s,3" % rule(True, "*"), R(1, A, 0), R(1, X, 0)])
    add(512, rule(True, "*"), [R(1, A, 0), "D1", "W0,-,512", R(2, A, 0), "W2,%s,512" % rule(True, "P", P), R(2, A, 0), R(2, X, 0)])
    # ReloadConfig before Hello is refused
    cases.append({"limit": 512, "rules": "a*", "probes": pr, "events": ["C", "H0", "M0", "C", "W1,-,512", R(0, A, 0), "H1", "W1,-,512", R(0, B, 0)]})
    return cases


def gen_raw_targeted():
    """raw strings as query arguments: unique names of connections that exist, have left, never existed; junk"""
    A = VALID[0]
    probes = ["S" + hx(A)] + ["x" + hx(s) for s in (":1.0", ":1.1", ":1.2", ":1.3", ":1.10", ":1.01", ":1.", ":2.0", ":0.0", "1.1", ":", "", "..", "a", "a.b.", "org.freedesktop.DBus",
                                                     "org.freedesktop.DBus.", "org.freedesktop.dbus", LONG_BAD)]
    ev = ["C", "H0", "M0", "C", "C", "H2", "H1", R(1, A, 0), R(2, A, 0), "D1", "C", "H3", "C", "H4", "D2", "C", "H5", "H5", "D3", R(4, ":1.1", 0), L(4, ":1.4")]
    many = ["C", "H0", "M0"] + sum((["C", "H%d" % i] + (["D%d" % i] if i % 3 else []) for i in range(1, 13)), []) + [R(12, A, 0), R(3, A, 0), "D12"]
    return [{"limit": 512, "rules": "a*", "probes": probes, "events": ev},
            {"limit": 512, "rules": "a*", "probes": ["S" + hx(A)] + ["x" + hx(":1.%d" % i) for i in (0, 3, 9, 10, 11, 12, 13)], "events": many}]


def as_case(t):
    """(limit, probes, events) of the first-round generators -> case with the permissive policy and a few raw probes"""
    limit, probes, ev = t
    return {"limit": limit, "rules": "a*", "probes": list(probes) + XPROBES[:3], "events": list(ev)}


def load_corpus():
    out = []
    for p in sorted(glob.glob(os.path.join(vlib.VERIF, "corpus", "C04", "*.json"))):
        d = json.load(open(p))
        out.append({"limit": int(d["limit"]), "rules": d.get("rules", "a*"), "probes": list(d["probes"]), "events": list(d["events"])})
    return out


# ---------------------------------------------------------------------------
# comparison
# ---------------------------------------------------------------------------
BLOCK = re.compile(r"^M (\S+) S (\S+) L (\S+) T ([01])$")


def canon(res):
    """group the messages by receiving connection (per-socket order kept), sort the name set"""
    parts = res.split(";")
    if len(parts) != 3:
        return res
    o, q, n = parts
    if o != "-":
        items = o.split(",")
        items = sorted(range(len(items)), key=lambda i: (int(items[i].split(">", 1)[0]), i))
        o = ",".join(o.split(",")[i] for i in items)
    if n != "-" and not n.startswith(("e:", "?")):
        n = "+".join(sorted(n.split("+")))
    return o + ";" + q + ";" + n


def agree(impl, other):
    """impl result vs model/spec result; before connection 0 is registered there are no query results"""
    if impl.endswith(";-;-"):
        return impl.split(";")[0] == other.split(";")[0]
    return impl == other


def parse_model(line):
    blocks = []
    for b in line.split(" | "):
        m = BLOCK.match(b.strip())
        if not m:
            return None
        mm = canon(m.group(1))
        s = mm if m.group(2) == "=" else canon(m.group(2))
        l = mm if m.group(3) == "=" else canon(m.group(3))
        blocks.append((mm, s, l, m.group(4) == "1"))
    return blocks


def all_known():
    """recorded findings: known-findings.json, plus this package's proposed entries until they are merged there"""
    known = {k["id"]: k for k in vlib.load_known("C04")}
    p = ""      # only the committed known-findings.json is consulted at run time
    if os.path.exists(p):
        for k in json.load(open(p)):
            if k.get("property") == "C04" and k.get("status") == "known":
                known.setdefault(k["id"], k)
    return known


def classify_exception(ev, m, l):
    """model = implementation differ from the literal specification at this event: which recorded exception is it?"""
    mo, mq, mn = m.split(";")
    lo, lq, ln = l.split(";")
    if ev[0] != "R":
        return None
    flags = int(ev.split(",")[2])
    if flags & 2 and not flags & 4 and mo == lo and mn == ln and mq != lq:
        # same messages, same names, only the queue order differs
        def qsets(q):
            return [sorted(x.split("/")[2].split("+")) for x in q.split(",")]
        if qsets(mq) == qsets(lq):
            return "F4"
    return None


def replay_of(case, step, impl, blocks, leg=None):
    limit, rules, probes, ev = case["limit"], case["rules"], case["probes"], case["events"]
    d = {"limit": limit, "rules": rules, "probes": probes, "events": ev, "failing_step": step, "event": ev[step] if step is not None and step < len(ev) else None,
         "how": "python3 harness/py/registry_run.py build/dbus/bin/dbus-daemon %d '%s' %s %s" % (limit, rules, ",".join(probes) or "-", " ".join(ev))}
    if leg:
        d["leg"] = leg
    if step is not None and impl is not None and step < len(impl):
        d["implementation"] = impl[step]
    if step is not None and blocks is not None and step < len(blocks):
        d["model"], d["spec_as_implemented"], d["spec_literal"] = blocks[step][0], blocks[step][1], blocks[step][2]
    return d


LEGS = {"abstract": ("Registry.step (names as keys, connections as indices)", "run"),
        "driver": ("Driver.dstep (raw strings, own-policy gate, ReloadConfig)", "drun")}


def judge(rep, known, stats, case, leg, mline, ires, ierr, count):
    """one leg of one history: implementation vs model, then model vs specification.  Returns (validated, interesting)."""
    limit, ev = case["limit"], case["events"]
    blocks = parse_model(mline) if not mline.startswith(("?", "!")) else None
    if blocks is None or len(blocks) != len(ev):
        rep.violation("model driver output unparsable (%s leg) for history %s: %s" % (leg, " ".join(ev)[:200], mline[:200]),
                      {"names": "ml/registry/driver.ml", "leg": leg, "events": ev}, found_input=False)
        return False, False
    bad_step = None
    for i, e in enumerate(ev):
        if i >= len(ires):
            bad_step = i
            break
        m, s, l, trig = blocks[i]
        if "FAULT" in m.split(";")[0] or (not ires[i].endswith(";-;-") and "FAULT" in m):
            rep.violation("model reports FAULT (assertion path or ill-formed event) at event %d `%s` (%s leg)" % (i, e, leg),
                          dict(replay_of(case, i, ires, blocks, leg), names="generator / " + LEGS[leg][0]), found_input=False)
            return False, False
        if not agree(ires[i], m):
            bad_step = i
            break
    if bad_step is not None:
        i = bad_step
        if i >= len(ires):
            rep.violation("history %s: the implementation side stopped at event %d `%s`: %s" % (" ".join(ev)[:200], i, ev[i], ierr),
                          replay_of(case, i, ires, blocks, leg))
            return False, False
        m, s, l, trig = blocks[i]
        what = "event %d `%s` of history [%s] (limit %d, rules %s, %s leg): implementation %s | model %s" % (
            i, ev[i], " ".join(ev[:i + 1])[-400:], limit, case["rules"], leg, ires[i], m)
        if agree(ires[i], l) or agree(ires[i], s):
            which = "literal specification" if agree(ires[i], l) else "specification (as-implemented variant)"
            rep.violation(what + " -- the implementation agrees with the %s, the model does not" % which,
                          dict(replay_of(case, i, ires, blocks, leg), names="correspondence %s vs dbus-daemon" % LEGS[leg][0]), found_input=False)
        else:
            rep.violation(what + " | specification %s -- the implementation's behaviour is not what the ownership rules prescribe" % l,
                          replay_of(case, i, ires, blocks, leg))
        return False, False
    if ierr:
        rep.violation("history %s: implementation side error after the last event: %s" % (" ".join(ev)[:200], ierr), replay_of(case, len(ev) - 1, ires, blocks, leg))
        return False, False
    # implementation = model on the whole history; now model vs specification, event by event
    interesting = False
    for i, e in enumerate(ev):
        m, s, l, trig = blocks[i]
        mo = m.split(";")[0]
        if count:
            stats["events"] += 1
            for tok in mo.split(","):
                t = tok.split(">", 1)[-1]
                if t.startswith("reply:") or t.startswith("err:"):
                    stats["reply"][e[0] + ":" + t] = stats["reply"].get(e[0] + ":" + t, 0) + 1
                if t.startswith("lost:"):
                    stats["handover"] += 1
                    interesting = True
            if e[0] == "D" and re.search(r"noc:(?!3a)", mo):
                stats["disconnect_with_names"] += 1
        if m != s:
            rep.violation("event %d `%s` of [%s] (%s leg): code and model give %s, the specification (with the recorded exception) %s" % (i, e, " ".join(ev[:i + 1])[-300:], leg, m, s),
                          replay_of(case, i, ires, blocks, leg))
            break
        if m != l:
            fid = classify_exception(e, m, l)
            if fid and fid in known and trig:
                rep.known(known[fid], {"limit": limit, "events": ev[:i + 1]})
                if count:
                    stats["exceptions"][fid] = stats["exceptions"].get(fid, 0) + 1
            else:
                rep.violation("event %d `%s` of [%s] (%s leg): code and model give %s, the specification says %s (not a recorded finding)" % (i, e, " ".join(ev[:i + 1])[-300:], leg, m, l),
                              replay_of(case, i, ires, blocks, leg))
                break
    return True, interesting


def run(ctx):
    rep, tier, info = ctx["rep"], ctx["tier"], ctx["info"]
    rnd = random.Random(ctx["seed"])
    known = all_known()
    quick = tier == "quick"
    cases, origin = [], {}

    def add(kind, cs):
        for c in cs:
            origin[len(cases)] = kind
            cases.append(c)
    if ctx.get("replay"):
        d = json.load(open(ctx["replay"]))
        d = d.get("replay", d)
        add("replay", [{"limit": int(d["limit"]), "rules": d.get("rules", "a*"), "probes": list(d["probes"]), "events": list(d["events"])}])
    else:
        add("corpus", load_corpus())
        add("targeted", [as_case(t) for t in gen_targeted()])
        add("policy-targeted", gen_policy_targeted())
        add("raw-targeted", gen_raw_targeted())
        add("exhaustive-2", [as_case(t) for t in gen_exhaustive(2)])
        if quick:
            ex3 = gen_exhaustive(3, flagset=(0, 1, 2, 3, 4, 6))
            add("exhaustive-3-sample", [as_case(t) for t in rnd.sample(ex3, 1000)])
            add("random", [as_case(gen_random(rnd, rnd.choice((12, 20, 30)))) for _ in range(1200)])
            add("policy-random", [gen_policy_random(rnd, rnd.choice((12, 20, 30))) for _ in range(500)])
        else:
            add("exhaustive-3", [as_case(t) for t in gen_exhaustive(3)])
            add("random", [as_case(gen_random(rnd, rnd.choice((12, 20, 30, 45)))) for _ in range(30000)])
            add("policy-random", [gen_policy_random(rnd, rnd.choice((12, 20, 30, 45))) for _ in range(10000)])
    # which legs: the abstract registry model knows neither policy nor reload
    def has_abstract(c):
        return c["rules"] == "a*" and not any(e[0] == "W" for e in c["events"])
    alines, aidx, dlines = [], [], []
    for i, c in enumerate(cases):
        ev = " ".join(c["events"])
        dlines.append("drun %d %s %s %s" % (c["limit"], c["rules"], ",".join(p for p in c["probes"] if p[0] in "Sx") or "-", ev))
        if has_abstract(c):
            aidx.append(i)
            alines.append("run %d %s %s" % (c["limit"], ",".join(p for p in c["probes"] if p[0] in "US") or "-", ev))
    amodel, mcr1 = vlib.run_lines(info["model_registry"], alines)
    dmodel, mcr2 = vlib.run_lines(info["model_registry"], dlines)
    for line, err in mcr1 + mcr2:
        rep.violation("extracted model failed on `%s`: %s" % (line[:200], err[-300:]), {"input": line, "names": "model driver"}, found_input=False)
    amodel = dict(zip(aidx, amodel))
    # Private snapshot of the daemon and its libdbus, taken under the build lock: other checks (or a new commit in
    # /repo) may relink build/dbus/bin/dbus-daemon while this run is still spawning daemons.
    snap = tempfile.mkdtemp(prefix="c04_daemon_")
    old_ld = os.environ.get("LD_LIBRARY_PATH")
    try:
        with vlib.Lock():
            exe = os.path.join(snap, "dbus-daemon")
            shutil.copy2(info["daemon"], exe)
            lib = os.path.realpath(os.path.join(vlib.DBUS_BUILD, "lib", "libdbus-1.so.3"))
            shutil.copy2(lib, os.path.join(snap, "libdbus-1.so.3"))
        os.environ["LD_LIBRARY_PATH"] = snap + ((":" + old_ld) if old_ld else "")   # the binary has a RUNPATH, so this wins
        jobs = [(exe, c["limit"], c["rules"], c["probes"], c["events"]) for c in cases]
        with multiprocessing.get_context("fork").Pool(NPROC) as pool:
            impl = pool.map(registry_run.worker, jobs, chunksize=4)
    finally:
        if old_ld is None:
            os.environ.pop("LD_LIBRARY_PATH", None)
        else:
            os.environ["LD_LIBRARY_PATH"] = old_ld
        shutil.rmtree(snap, ignore_errors=True)

    stats = {"events": 0, "reply": {}, "exceptions": {}, "handover": 0, "disconnect_with_names": 0}
    nontrivial = set()
    validated = {"abstract": 0, "driver": 0}
    for idx, (case, (ires, names, ierr, ibad)) in enumerate(zip(cases, impl)):
        ev = case["events"]
        if ibad:
            rep.violation("dbus-daemon crashed / sanitizer report during history %s: %s" % (" ".join(ev)[:300], ibad[-700:]),
                          dict(replay_of(case, len(ires), ires, None), stderr=ibad))
            continue
        ok, interesting = judge(rep, known, stats, case, "driver", dmodel[idx], [canon(registry_run.raw_result(x, lambda p: p[0] in "Sx")) for x in ires], ierr, True)
        validated["driver"] += ok
        if ok and idx in amodel:
            ok2, _ = judge(rep, known, stats, case, "abstract", amodel[idx], [canon(registry_run.canon_result(x, names)) for x in ires], ierr, False)
            validated["abstract"] += ok2
        if ok and interesting:
            nontrivial.add((case["limit"], case["rules"], tuple(ev)))
    dist = {}
    for i in range(len(cases)):
        dist[origin[i]] = dist.get(origin[i], 0) + 1
    step = max(1, len(cases) // 10)
    rep.coverage.update({
        "evaluations": len(cases), "distinct_nontrivial": len(nontrivial),
        "rule": "histories start with connection 0 registering and subscribing to NameOwnerChanged; targeted boundary histories (ownership rules, own/own_prefix "
                "policies incl. prefix boundaries and rule order, ReloadConfig changing policy and limit, raw query strings incl. unique names of present / departed / "
                "never existing connections); every 2-operation sequence (and, thorough, every 3-operation sequence) of RequestName(8 flag sets)/ReleaseName/disconnect "
                "by three registered connections on one name; random histories of 12-45 events over <= 6 connections, 1-4 names (incl. 255-byte and near-bus names), "
                "limits 1,2,3,4,512, 7% invalid names, 10% undefined flag bits, and random policies with reloads; non-trivial = at least one NameLost (hand-over) occurred; "
                "distinct = distinct (limit, rules, event list)",
        "samples": [{"limit": cases[i]["limit"], "rules": cases[i]["rules"], "events": cases[i]["events"]} for i in range(0, len(cases), step)][:10],
        "input_distribution": dist, "traces_validated_against_impl": validated["driver"], "traces_validated_abstract_leg": validated["abstract"],
        "events_compared": stats["events"],
        "reply_histogram": stats["reply"], "recorded_exceptions_seen": stats["exceptions"], "handovers": stats["handover"],
        "disconnects_releasing_wellknown_names": stats["disconnect_with_names"],
        "disagreements_checked": len(rep.violations), "exhaustive": False,
        "explanation": "theorems: invariants and refinement of the specification for every history, at the registry level and at the driver level (raw strings); "
                       "correspondence: daemon = Driver.dstep on every generated history, comparing the raw strings on the wire (messages per socket in order, "
                       "GetNameOwner/NameHasOwner/ListQueuedOwners per probe string, ListNames as a set, after every event), and daemon = Registry.step in the abstract "
                       "vocabulary on the histories without policy/reload",
    })
    rep.assumptions = [
        "coq/Registry/Registry.v and Driver.v are hand-written after bus/services.c, bus/driver.c, bus/connection.c; flag and reply constants and the bus name come from the generated tables",
        "one uid, <policy context=\"default\"> only (the own-rule decision itself is C06's model Policy.check_can_own); no SELinux/AppArmor, no activation, default connection limits; OOM paths are not modelled (C14)",
        "a fresh daemon per history (next_minor_number starts at 0, major 1); fewer than 2^31 Hellos",
        "NameOwnerChanged delivery is modelled for one fixed match rule per connection; the matchmaker itself belongs to C07",
        "harness/py/registry_run.py and harness/py/rawbus.py are trusted glue; synchronisation by round trips on every socket",
    ]
