"""C11 — message framing is independent of how the byte stream is chunked."""
import os, random, re, sys
import vlib
sys.path.insert(0, os.path.join(vlib.VERIF, "tools"))
import wiregen

HARNESSES = ("wire_h", "flow_h")
MLS = ("wire", "flow")
THEOREMS = []
if os.path.exists(os.path.join(vlib.COQ, "Props", "C11.v")):
    THEOREMS = re.findall(r"^Theorem\s+(C11_[A-Za-z0-9_]+)", open(os.path.join(vlib.COQ, "Props", "C11.v")).read(), re.M)


def partitions(n):
    """all compositions of n (as cut sets) -- only for tiny n"""
    for mask in range(1 << (n - 1)):
        cuts = [i + 1 for i in range(n - 1) if mask >> i & 1]
        yield cuts


def split_at(b, cuts):
    out, prev = [], 0
    for c in list(cuts) + [len(b)]:
        if c > prev:
            out.append(b[prev:c])
            prev = c
    return out


def interesting_cuts(stream, bounds, rnd, k):
    """cut sets aimed at field boundaries: fixed header (4, 8, 12, 16), header end, message ends, each +-1, plus random"""
    pts = set()
    for start, hl, total in bounds:
        for p in (1, 4, 8, 12, 15, 16, 17, hl - 1, hl, hl + 1, total - 1, total, total + 1):
            if 0 < start + p < len(stream):
                pts.add(start + p)
    pts = sorted(pts)
    res = [[], list(range(1, len(stream))) if len(stream) <= 600 else []]
    for p in pts:
        res.append([p])
    for _ in range(k):
        n = rnd.randint(1, 6)
        src = pts if rnd.random() < 0.6 and pts else range(1, len(stream))
        res.append(sorted(set(rnd.choice(list(src)) for _ in range(n))))
    return res


def handshake_leg(ctx, rep, rnd, tier):
    """partitions of the handshake-to-message boundary: message bytes arriving in the same read as BEGIN, against the real daemon"""
    import socket, time
    sys.path.insert(0, os.path.join(vlib.VERIF, "harness", "py"))
    from rawbus import Daemon, Msg, parse_message, METHOD_CALL, F_PATH, F_INTERFACE, F_MEMBER, F_DESTINATION
    d = Daemon(ctx["info"]["daemon"])
    n_part = 0
    try:
        def calls():
            out = []
            for k in range(1, 42):
                big = "x" * rnd.choice((1, 10, 200, 700)) if k % 3 else "org.freedesktop.DBus"
                out.append(Msg(METHOD_CALL, 0, k, {F_PATH: "/org/freedesktop/DBus", F_INTERFACE: "org.freedesktop.DBus", F_MEMBER: "NameHasOwner" if k > 1 else "Hello",
                                                  F_DESTINATION: "org.freedesktop.DBus"}, "s" if k > 1 else "", (big,) if k > 1 else (), le=(k % 2 == 0)).encode())
            return b"".join(out), len(out)
        stream, nmsgs = calls()

        def session(chunks, pause):
            s = socket.socket(socket.AF_UNIX, socket.SOCK_STREAM)
            s.settimeout(5.0)
            s.connect(d.sock)
            s.sendall(b"\0AUTH EXTERNAL " + str(os.getuid()).encode().hex().encode() + b"\r\n")
            buf = b""
            while b"\r\n" not in buf:
                buf += s.recv(4096)
            try:
                for c in chunks:
                    s.sendall(c)
                    if pause:
                        time.sleep(pause)
            except OSError:
                pass
            data = bytearray()
            got = []
            s.settimeout(3.0)
            try:
                while len(got) < nmsgs + 1:
                    b = s.recv(65536)
                    if not b:
                        got.append("EOF")
                        break
                    data += b
                    while True:
                        m, n = parse_message(data)
                        if m is None:
                            break
                        del data[:n]
                        if m.mtype in (2, 3):
                            body = m.body if m.mtype == 2 else m.fields.get(4)
                            if m.fields.get(5) == 1 and m.mtype == 2:
                                body = "UNIQUE-NAME"      # the Hello reply differs per connection
                            got.append((m.fields.get(5), m.mtype, body))
                        if len([g for g in got if g != "EOF"]) >= nmsgs:
                            break
                    if len([g for g in got if g != "EOF"]) >= nmsgs:
                        break
            except socket.timeout:
                got.append("TIMEOUT")
            except OSError as e:
                got.append("EOF")
            s.close()
            return got
        whole = b"BEGIN\r\n" + stream
        ref = session([b"BEGIN\r\n", stream], 0.05)
        if len(ref) != nmsgs or "EOF" in ref or "TIMEOUT" in ref:
            rep.violation("reference session (BEGIN alone, then the messages) did not get %d replies: %s" % (nmsgs, str(ref)[:300]), {"names": "handshake leg reference"}, found_input=False)
            return 0
        cutsets = [[3], [6], [7], [8], [7, 8], [7 + 16], [7 + 100], [7 + 2047], [7 + 2048], [7 + 2049], [7 + 4096], [7 + 2048, 7 + 4096], [len(whole) - 1],
                   list(range(1, 40)), [7 + 5000], [2, 9, 7 + 3000]]
        for _ in range(6 if tier == "quick" else 60):
            cutsets.append(sorted(set(rnd.randrange(1, len(whole)) for _ in range(rnd.randint(1, 5)))))
        for cuts in cutsets:
            for pause in (0, 0.002):
                got = session(split_at(whole, cuts), pause)
                n_part += 1
                if got != ref:
                    rep.violation("handshake boundary: BEGIN + %d messages written in chunks %s (pause %s) gives different replies than when the messages follow BEGIN in a separate write: got %d replies %s..., reference %d" % (
                        nmsgs, [len(c) for c in split_at(whole, cuts)][:12], pause, len(got), str(got[:3])[:150], len(ref)),
                        {"leg": "handshake", "cuts": cuts, "pause": pause, "got": str(got)[:2000], "stream_hex": whole.hex()[:400]})
                    break
    finally:
        rc, err = d.stop()
        if rc not in (0, -15) or "ERROR: AddressSanitizer" in err or "runtime error" in err:
            rep.violation("daemon died or reported a sanitizer error during the handshake leg: rc=%s %s" % (rc, err[-500:]), {"leg": "handshake", "stderr": err})
    return n_part


def fd_stream_leg(ctx, rep, rnd, tier, only=None):
    """streams in which messages carry unix descriptors: the transport's reading loop with the loader's read limit
    (_dbus_message_loader_get_buffer slow path) against the model (Wire.Message.max_to_read / feed_limited)"""
    from rawbus import Msg
    info = ctx["info"]
    cases = []
    if only is not None:
        cases = [only]
    else:
        for si in range(40 if tier == "quick" else 1500):
            msgs, total_fds = [], 0
            for k in range(rnd.choice((1, 2, 3, 5))):
                nf = rnd.choice((0, 1, 1, 2, 3))
                total_fds += nf
                f = {1: "/a", 2: "a.b", 3: "S"}
                if nf:
                    f[9] = nf
                sig, body = ("h" * nf, tuple(range(nf))) if rnd.random() < 0.7 else ("s", ("x" * rnd.choice((0, 1, 7, 8, 300)),))
                if rnd.random() < 0.15:
                    sig, body = "", ()
                msgs.append(Msg(rnd.choice((1, 4)), 0, k + 1, f, sig, body, le=rnd.random() < 0.5).encode())
            stream = b"".join(msgs)
            bounds, off = [], 0
            for m in msgs:
                bounds.append((off, wiregen.header_len(m), len(m)))
                off += len(m)
            if rnd.random() < 0.25:
                bad = bytearray(msgs[0])
                bad[rnd.randrange(len(bad))] ^= 0x41
                stream += bytes(bad)
            nfds = total_fds if rnd.random() < 0.8 else max(0, total_fds - 1)
            for cuts in interesting_cuts(stream, bounds, rnd, 4 if tier == "quick" else 12):
                cases.append((nfds, stream, split_at(stream, cuts)))
    lines = ["loadf %d %s" % (nf, " ".join(vlib.hexs(c) for c in chunks)) for nf, _, chunks in cases]
    oneshot = ["loadf %d %s" % (nf, vlib.hexs(st)) for nf, st, _ in cases]
    impl, icr = vlib.run_lines(info["wire_h"], lines)
    implone, icr1 = vlib.run_lines(info["wire_h"], oneshot)
    model, _ = vlib.run_lines(info["model"], lines)
    for line, err in icr + icr1:
        rep.violation("implementation crashed on `%s`: %s" % (line[:300], err[-600:]), {"input": line, "stderr": err})
    limited = 0
    for (nf, stream, chunks), l, i, i1, m in zip(cases, lines, impl, implone, model):
        if "!CRASH" in (i, i1):
            continue
        di, d1 = (dict(x.split("=", 1) for x in r.split(" ")[:4]) for r in (i, i1))
        if ":0" in di["reads"]:
            limited += 1
        if di["stalled"] == "1":
            rep.violation("with %d descriptors pending the loader asked for a 0-byte read in the middle of the stream (the socket transport takes that for end-of-file and disconnects): chunks %s reads %s" % (
                nf, [len(c) for c in chunks][:20], di["reads"][:200]), {"cmd": l, "impl_chunked": i, "impl_unsplit": i1, "leg": "fdstream"})
        elif (di["corrupted"], di["msgs"]) != (d1["corrupted"], d1["msgs"]):
            rep.violation("descriptor-carrying stream: chunked feed gives a different outcome than the unsplit stream: chunks %s -> %s ; unsplit -> %s" % (
                [len(c) for c in chunks][:20], i[:160], i1[:160]), {"cmd": l, "impl_chunked": i, "impl_unsplit": i1, "leg": "fdstream"})
        elif m.startswith("?") or "?glue" in m:
            rep.violation("model driver failed on %s: %s" % (l[:200], m[:200]), {"cmd": l, "names": "ml/wire driver loadf", "leg": "fdstream"}, found_input=False)
        elif i != m:
            rep.violation("read limits / outcome differ from the model for chunks %s: impl %s vs model %s" % ([len(c) for c in chunks][:20], i[:160], m[:160]),
                          {"cmd": l, "impl": i, "model": m, "leg": "fdstream", "names": "correspondence wire_h/loadf vs Wire.Message.max_to_read + feed_limited"}, found_input=False)
    return len(cases), limited


def fd_daemon_leg(ctx, rep, rnd, tier):
    """the same through the real socket transport: a descriptor-carrying message addressed to the sender itself, written in two
    pieces (descriptor attached to the first), cut at every offset of the fixed header and around the header end"""
    import os as _os, time
    sys.path.insert(0, os.path.join(vlib.VERIF, "harness", "py"))
    from rawbus import Daemon, Msg, RawConn
    d = Daemon(ctx["info"]["daemon"])
    n = 0
    try:
        c = RawConn(d.address, want_fds=True)
        c.hello()
        if not c.can_fds:
            return 0
        serial = 100
        for le in (True, False):
            probe = Msg(4, 0, 1, {1: "/a", 2: "a.b", 3: "S", 6: c.unique, 9: 1}, "hs", (0, "y" * 40), le=le).encode()
            cuts = list(range(1, 26)) + [wiregen.header_len(probe) - 1, wiregen.header_len(probe), wiregen.header_len(probe) + 1, len(probe) - 1]
            for cut in cuts if tier != "quick" else cuts[::1]:
                serial += 1
                b = Msg(4, 0, serial, {1: "/a", 2: "a.b", 3: "S", 6: c.unique, 9: 1}, "hs", (0, "y" * 40), le=le).encode()
                r, w = _os.pipe()
                try:
                    c.send_raw(b[:cut], fds=(r,))
                    time.sleep(0.002)
                    c.send_raw(b[cut:])
                    # a second, descriptor-free message right behind it
                    c.send(Msg(4, 0, serial + 100000, {1: "/a", 2: "a.b", 3: "T", 6: c.unique}, "", ()))
                except OSError:
                    pass
                finally:
                    _os.close(r); _os.close(w)
                got, t_end = [], time.time() + 3.0
                while len(got) < 2 and time.time() < t_end and not c.closed:
                    c._pump(0.2)
                    got += [m for m in c.inbox if m.mtype == 4 and m.fields.get(3) in ("S", "T")]
                    c.inbox = []
                n += 1
                for m in got:
                    for fd in getattr(m, "fds", []):
                        _os.close(fd)
                ok = len(got) == 2 and got[0].fields.get(3) == "S" and got[1].fields.get(3) == "T" and len(getattr(got[0], "fds", [])) == 1
                if not ok:
                    rep.violation("descriptor-carrying message written to the bus in pieces of %d + %d bytes (byte order %s) and a following message: received %s, connection closed=%s; the unsplit stream is delivered" % (
                        cut, len(b) - cut, "l" if le else "B", [(m.fields.get(3), len(getattr(m, "fds", []))) for m in got], c.closed),
                        {"leg": "fd-daemon", "cut": cut, "le": le, "stream_hex": b.hex()})
                    if c.closed:
                        c = RawConn(d.address, want_fds=True)
                        c.hello()
                    break
        c.close()
    finally:
        rc, err = d.stop()
        if rc not in (0, -15) or "ERROR: AddressSanitizer" in err or "runtime error" in err:
            rep.violation("daemon died or reported a sanitizer error during the fd leg: rc=%s %s" % (rc, err[-500:]), {"leg": "fd-daemon", "stderr": err})
    return n


def corrupt_tail_leg(ctx, rep, rnd, tier, only=None):
    """through the real socket transport and bus: K valid messages to a second connection, then an invalid message and one more
    valid message, written in various partitions (one write for everything; cuts before / inside / after the invalid message;
    byte by byte): the receiver must get exactly the K messages before the invalid one, in order, for EVERY partition"""
    import time
    sys.path.insert(0, os.path.join(vlib.VERIF, "harness", "py"))
    from rawbus import Daemon, Msg, RawConn
    d = Daemon(ctx["info"]["daemon"])
    n = 0
    try:
        b = RawConn(d.address)
        b.hello()
        configs = [(1, "version"), (3, "version"), (5, "string"), (17, "type0"), (4, "string")] if tier == "quick" else \
                  [(k, kind) for k in (1, 2, 3, 5, 9, 17, 40) for kind in ("version", "string", "type0", "length")]
        if only is not None:
            configs = [(only["k"], only["kind"])]
        for K, kind in configs:
            def stream():
                ms = [Msg(1, 1, 10 + k, {1: "/t", 2: "t.I", 3: "M%d" % k, 6: b.unique}, "su", ("x" * (k % 7), k), le=(k % 2 == 0)).encode() for k in range(K)]
                bad = bytearray(Msg(1, 1, 900, {1: "/t", 2: "t.I", 3: "BAD", 6: b.unique}, "s", ("hello",)).encode())
                if kind == "version":
                    bad[3] = 2
                elif kind == "type0":
                    bad[1] = 0
                elif kind == "length":
                    bad[4:8] = b"\xff\xff\xff\x7f"
                else:
                    bad[-3] = 0xff           # invalid UTF-8 inside the body string: only visible once the whole message is there
                after = Msg(1, 1, 901, {1: "/t", 2: "t.I", 3: "AFTER", 6: b.unique}, "", ()).encode()
                return ms, bytes(bad), after
            ms, bad, after = stream()
            pre = sum(len(m) for m in ms)
            whole = b"".join(ms) + bad + after
            cutsets = [[], [pre], [pre + 1], [pre + 15], [pre + 16], [pre + 17], [pre + len(bad) - 1], [pre + len(bad)], [pre - 1] if pre > 1 else [1],
                       [len(ms[0])], [pre, pre + len(bad)], list(range(1, len(whole))) if len(whole) < 700 else [pre + 8]]
            for _ in range(2 if tier == "quick" else 10):
                cutsets.append(sorted(set(rnd.randrange(1, len(whole)) for _ in range(rnd.randint(1, 4)))))
            if only is not None:
                cutsets = [only["cuts"]]
            for cuts in cutsets:
                a = RawConn(d.address)
                a.hello()
                try:
                    for c in split_at(whole, cuts):
                        a.send_raw(c)
                        if len(cuts) < 50:
                            time.sleep(0.003)
                except OSError:
                    pass
                t_end = time.time() + 5.0
                while not a.is_closed(0.05) and time.time() < t_end:
                    pass
                closed = a.closed
                a.close()
                b.barrier()
                got = [m.fields.get(3) for m in b.drain(quiet=0.02, maxwait=0.5) if m.fields.get(2) == "t.I"]
                n += 1
                want = ["M%d" % k for k in range(K)]
                if got != want or not closed:
                    rep.violation("stream of %d valid messages, an invalid one (%s) and one more, written in chunks %s: the receiver got %s (expected exactly the %d messages before the invalid one), sender disconnected=%s" % (
                        K, kind, [len(c) for c in split_at(whole, cuts)][:12], got[:12], K, closed),
                        {"leg": "corrupt-tail", "k": K, "kind": kind, "cuts": cuts, "got": got, "stream_hex": whole.hex()[:600]})
                    break
        b.close()
    finally:
        rc, err = d.stop()
        if rc not in (0, -15) or "ERROR: AddressSanitizer" in err or "runtime error" in err:
            rep.violation("daemon died or reported a sanitizer error during the corrupt-tail leg: rc=%s %s" % (rc, err[-500:]), {"leg": "corrupt-tail", "stderr": err})
    return n


def quota_leg(ctx, rep, rnd, tier, only=None):
    """flow control must not make framing depend on chunking: a daemon with a small max_incoming_bytes; a stream whose first
    message makes the connection's live incoming bytes hit the limit exactly / one below / one above, followed by calls to the
    bus; every partition (cuts at the message boundary, inside the next fixed header, byte by byte, inside the big message)
    must get the same replies as the unsplit stream"""
    import socket, time
    sys.path.insert(0, os.path.join(vlib.VERIF, "harness", "py"))
    from rawbus import Daemon, Msg, parse_message
    LIMIT = 5000
    d = Daemon(ctx["info"]["daemon"], limits='<limit name="max_incoming_bytes">%d</limit>' % LIMIT)
    n = 0
    try:
        def session(chunks):
            s = socket.socket(socket.AF_UNIX, socket.SOCK_STREAM)
            s.settimeout(5.0)
            s.connect(d.sock)
            s.sendall(b"\0AUTH EXTERNAL " + str(os.getuid()).encode().hex().encode() + b"\r\nBEGIN\r\n")
            buf = b""
            while b"\r\n" not in buf:
                buf += s.recv(4096)
            hello = Msg(1, 0, 1, {1: "/org/freedesktop/DBus", 2: "org.freedesktop.DBus", 3: "Hello", 6: "org.freedesktop.DBus"}).encode()
            s.sendall(hello)
            data = bytearray()
            got = []
            def pump(want, timeout):
                s.settimeout(timeout)
                try:
                    while len(got) < want:
                        b = s.recv(65536)
                        if not b:
                            got.append("EOF"); return
                        data.extend(b)
                        while True:
                            m, k = parse_message(data)
                            if m is None:
                                break
                            del data[:k]
                            if m.mtype in (2, 3) and m.fields.get(5, 0) >= 1:
                                got.append((m.fields.get(5), m.mtype))
                except socket.timeout:
                    got.append("TIMEOUT")
            pump(1, 5.0)
            try:
                for c in chunks:
                    s.sendall(c)
                    time.sleep(0.004)
            except OSError:
                pass
            pump(4, 2.5)
            s.close()
            return got[1:]
        for delta in ((0, -1, 1, -8, 8) if tier == "quick" else range(-9, 10)):
            for le in (True, False):
                base = len(Msg(4, 0, 2, {1: "/t", 2: "t.I", 3: "Big"}, "ay", (b"",), le=le).encode())
                big = Msg(4, 0, 2, {1: "/t", 2: "t.I", 3: "Big"}, "ay", (bytes(LIMIT + delta - base),), le=le).encode()
                calls = [Msg(1, 0, 3 + k, {1: "/org/freedesktop/DBus", 2: "org.freedesktop.DBus", 3: "GetId" if k != 1 else "ListNames", 6: "org.freedesktop.DBus"}, le=(k % 2 == 0) == le).encode() for k in range(3)]
                whole = big + b"".join(calls)
                L = len(big)
                cutsets = [[], [L], [L + 1], [L + 8], [L + 16], [L - 1], [L - 100], [2048], [4096], [L, L + len(calls[0])], [L + k for k in range(0, len(whole) - L)]]
                if only is not None:
                    cutsets = [only["cuts"]]
                ref = session([whole])
                if len(ref) != 3 or "EOF" in ref or "TIMEOUT" in ref:
                    if LIMIT + delta > LIMIT or True:
                        pass
                for cuts in cutsets:
                    got = session(split_at(whole, cuts))
                    n += 1
                    if got != ref:
                        rep.violation("max_incoming_bytes=%d, a %d-byte message followed by three calls: written in chunks %s the replies are %s, written in one piece they are %s" % (
                            LIMIT, len(big), [len(c) for c in split_at(whole, cuts)][:12], got[:5], ref[:5]),
                            {"leg": "quota", "delta": delta, "le": le, "cuts": cuts, "got": str(got), "ref": str(ref)})
                        break
    finally:
        rc, err = d.stop()
        if rc not in (0, -15) or "ERROR: AddressSanitizer" in err or "runtime error" in err:
            rep.violation("daemon died or reported a sanitizer error during the quota leg: rc=%s %s" % (rc, err[-500:]), {"leg": "quota", "stderr": err})
    return n


def run(ctx):
    rep, tier, info = ctx["rep"], ctx["tier"], ctx["info"]
    rnd = random.Random(ctx["seed"])
    nstreams = 150 if tier == "quick" else 5000
    cases = []   # (stream bytes, chunks list)
    meta = {"streams": 0, "with_invalid_tail": 0, "one_byte_chunks": 0, "exhaustive_partitions": 0, "stream_oracle_checked": 0}
    expect = {}   # stream -> (hex of the valid messages in front, nothing else follows)
    for si in range(nstreams):
        n = rnd.choice((1, 1, 2, 3, 5, 8))
        msgs = [wiregen.encode(wiregen.rand_message(rnd, max_depth=rnd.choice((0, 1, 2, 3)))) for _ in range(n)]
        if rnd.random() < 0.1:
            # a large one
            from rawbus import Msg
            msgs.append(Msg(4, 0, 1, {1: "/a", 2: "a.b", 3: "S"}, "ay", (bytes(rnd.randrange(256) for _ in range(rnd.choice((4000, 20000, 70000)))),), le=rnd.random() < 0.5).encode())
        bounds, off = [], 0
        for m in msgs:
            bounds.append((off, wiregen.header_len(m), len(m)))
            off += len(m)
        stream = b"".join(msgs)
        expect[stream] = ([m.hex() for m in msgs], True)
        if rnd.random() < 0.5:
            bad = bytearray(wiregen.encode(wiregen.rand_message(rnd, max_depth=1)))
            i = rnd.randrange(len(bad))
            bad[i] = rnd.choice((0, 1, 0xff, bad[i] ^ 0x40))
            tail = bytes(bad) + b"".join(wiregen.encode(wiregen.rand_message(rnd, max_depth=1)) for _ in range(rnd.randint(0, 2)))
            bounds.append((len(stream), wiregen.header_len(bytes(bad)) if len(bad) >= 16 else 16, len(bad)))
            stream += tail
            expect[stream] = ([m.hex() for m in msgs], False)
            meta["with_invalid_tail"] += 1
        meta["streams"] += 1
        for cuts in interesting_cuts(stream, bounds, rnd, 8 if tier == "quick" else 30):
            if len(cuts) == len(stream) - 1 and cuts:
                meta["one_byte_chunks"] += 1
            cases.append((stream, split_at(stream, cuts)))
    # exhaustive partitions of tiny streams (one minimal message = 16..40 bytes is too many: use the first 14 cut points of a 2-message stream)
    from rawbus import Msg
    tiny = Msg(2, 0, 1, {5: 1}).encode() + Msg(2, 0, 2, {5: 2}, le=False).encode()
    pts = [1, 4, 12, 15, 16, 17, 23, 24, 25, 28, 36, 40, 41, 47]
    expect[tiny] = ([tiny[:24].hex(), tiny[24:].hex()], True)
    for mask in range(1 << len(pts)) if tier != "quick" else range(0, 1 << len(pts), 7):
        cuts = [p for i, p in enumerate(pts) if mask >> i & 1]
        cases.append((tiny, split_at(tiny, cuts)))
        meta["exhaustive_partitions"] += 1
    if ctx.get("replay"):
        import json
        rp = json.load(open(ctx["replay"]))["replay"]
        if rp.get("leg") == "handshake":
            handshake_leg(ctx, rep, rnd, tier)
            cases = []
        elif rp.get("leg") == "flow":
            from props import c11_flow
            c11_flow.leg(ctx, rep, rnd, tier, only=rp)
            cases = []
        elif rp.get("leg") == "quota":
            quota_leg(ctx, rep, rnd, tier, only=rp)
            cases = []
        elif rp.get("leg") == "corrupt-tail":
            corrupt_tail_leg(ctx, rep, rnd, tier, only=rp)
            cases = []
        elif rp.get("leg") == "fd-daemon":
            fd_daemon_leg(ctx, rep, rnd, tier)
            cases = []
        elif rp.get("leg") == "fdstream":
            t = rp["cmd"].split(" ")
            chunks = [bytes.fromhex(x) for x in t[2:]]
            fd_stream_leg(ctx, rep, rnd, tier, only=(int(t[1]), b"".join(chunks), chunks))
            cases = []
        else:
            chunks = [bytes.fromhex("" if x == "-" else x) for x in rp["cmd"].split(" ")[2:]]
            cases = [(b"".join(chunks), chunks)]
    lines = ["load m " + " ".join(vlib.hexs(c) for c in chunks) for _, chunks in cases]
    oneshot = ["load m " + vlib.hexs(s) for s, _ in cases]
    impl, icr = vlib.run_lines(info["wire_h"], lines)
    implone, icr1 = vlib.run_lines(info["wire_h"], oneshot)
    model, _ = vlib.run_lines(info["model"], lines)
    for line, err in icr + icr1:
        rep.violation("implementation crashed on `%s`: %s" % (line[:300], err[-600:]), {"input": line, "stderr": err})
    nontrivial = set()

    def outcome(r):
        d = dict(x.split("=", 1) for x in r.split(" "))
        return d["corrupted"], d["msgs"]       # reason codes are deliberately not part of the outcome
    for (stream, chunks), l, i, i1, m in zip(cases, lines, impl, implone, model):
        if "!CRASH" in (i, i1):
            continue
        if len(chunks) > 1:
            nontrivial.add(l)
        # oracle stated by C11_stream_delivery / _then_corruption, independent of the model: the valid messages in front are
        # queued one for one, in order, with exactly their bytes; with nothing else in the stream there is no corruption verdict
        if stream in expect:
            want, clean = expect[stream]
            gotm = [x for x in outcome(i)[1].split("|") if x not in ("", "-")]
            meta["stream_oracle_checked"] += 1
            if gotm[:len(want)] != want or (clean and (outcome(i)[0] != "0" or len(gotm) != len(want))):
                rep.violation("stream of %d valid messages%s in chunks %s: the loader queued %d messages, corrupted=%s; the first difference is at message %d" % (
                    len(want), "" if clean else " followed by other bytes", [len(c) for c in chunks][:40], len(gotm), outcome(i)[0],
                    next((k for k in range(len(want)) if k >= len(gotm) or gotm[k] != want[k]), len(want))),
                    {"cmd": l, "impl_chunked": i, "expected_messages": len(want)})
                continue
        if outcome(i) != outcome(i1):
            rep.violation("chunked feed gives a different outcome than the unsplit stream: chunks %s -> %s ; unsplit -> %s" % ([len(c) for c in chunks][:40], i[:160], i1[:160]),
                          {"cmd": l, "impl_chunked": i, "impl_unsplit": i1})
        elif outcome(i) != outcome(m):
            rep.violation("loader outcome differs from model for chunks %s: impl %s vs model %s" % ([len(c) for c in chunks][:40], i[:120], m[:120]),
                          {"cmd": l, "impl": i, "model": m, "names": "correspondence wire_h/load (chunked) vs Wire.Message.feed_all"}, found_input=False)
    n_hs = handshake_leg(ctx, rep, rnd, tier) if not ctx.get("replay") else 0
    meta["handshake_partitions"] = n_hs
    n_fd, n_lim, n_fdd = 0, 0, 0
    if not ctx.get("replay"):
        n_fd, n_lim = fd_stream_leg(ctx, rep, rnd, tier)
        n_fdd = fd_daemon_leg(ctx, rep, rnd, tier)
        meta["corrupt_tail_partitions"] = corrupt_tail_leg(ctx, rep, rnd, tier)
        meta["quota_partitions"] = quota_leg(ctx, rep, rnd, tier)
        from props import c11_flow
        meta.update({k: v for k, v in c11_flow.leg(ctx, rep, rnd, tier).items() if not isinstance(v, (list, dict)) or len(str(v)) < 800})
    meta["fd_stream_cases"] = n_fd
    meta["fd_stream_cases_with_limited_reads"] = n_lim
    meta["fd_daemon_partitions"] = n_fdd
    rep.coverage.update({
        "evaluations": len(cases) + n_hs + n_fd + n_fdd + meta.get("corrupt_tail_partitions", 0) + meta.get("quota_partitions", 0) + meta.get("flow_cases", 0) + meta.get("tflow_cases", 0), "distinct_nontrivial": len(nontrivial),
        "rule": "streams of 1-8 random valid messages (both byte orders, sizes 16 B - 70 KB), half of them followed by a corrupted message and more bytes; "
                "cut sets: every single cut at fixed-header/ header-end / message-end boundaries +-1, one-byte chunks for streams <= 600 bytes, random multi-cuts; "
                "all subsets of 14 boundary cut points of a two-message stream (thorough; every 7th in quick). non-trivial = more than one chunk. "
                "descriptor leg: streams of 1-5 messages with UNIX_FDS 0-3 each, descriptors handed over with the first read, same cut sets, through the transport's reading loop "
                "honouring the loader's read limit: limits asked for, stall flag, messages and verdict = model (max_to_read / feed_limited) and = unsplit; "
                "and against the real daemon: a descriptor-carrying message to oneself written in two pieces cut at offsets 1..25, header end +-1, last byte, both byte orders; "
                "corrupt-tail leg against the real daemon: K valid messages to a second connection + an invalid one (bad version / type 0 / insane length / bad UTF-8 in the body) + one more, "
                "in one write and cut before / inside / after the invalid message and byte by byte: the receiver gets exactly the K messages, the sender is disconnected; "
                "quota leg: daemon with max_incoming_bytes=5000, a message of exactly / around that size followed by three calls, cut at the boundary, inside the next header, byte by byte: same replies as in one piece",
        "samples": [{"chunks": [len(c) for c in ch][:20], "impl": i[:100]} for (_, ch), i in list(zip(cases, impl))[::max(1, len(cases) // 8)]][:8],
        "input_distribution": meta, "traces_validated_against_impl": len(cases), "disagreements_checked": len(rep.violations),
    })
    rep.assumptions = ["the harness feeds the loader through get_buffer/return_buffer + queue_messages after every chunk, honouring max_to_read, as the socket transport does",
                       "the handshake-to-message boundary is exercised against the real daemon over a unix socket (BEGIN + 41 pipelined calls, 9 KB, both byte orders) with cuts inside BEGIN, right after it, around 2048/4096 bytes and random, with and without a 2 ms pause between writes; expected outcome = the same daemon's replies when the messages follow BEGIN in a separate write"]
