"""C11, flow-control leg: libdbus' incoming flow control (DBusCounter with its notify guard, dbus/dbus-resources.c; the charge /
release of messages, dbus/dbus-message.c; the transport's dispatch-status test and read watch, dbus/dbus-transport.c,
dbus/dbus-transport-socket.c) against the Coq model Wire/Flow.v (extracted to ml/flow; Proofs/FlowProofs.v proves that the
model can never wedge: with no notification pending the read watch is enabled iff both values are below their limits).

Implementation side, build/flow_h (harness/c/flow_h.c):
  flow  <max_size> <max_fds> <event>...   a real DBusCounter with the transport's guards, real DBusMessages charged with
                                          _dbus_message_add_counter_link and released with dbus_message_unref
  tflow <max_size> <max_fds> <event>...   a real server-side DBusTransport over a socketpair, driven through its watches;
                                          the watch state printed is dbus_watch_get_enabled of the transport's read watch
Model side, build/ml/flow/model: the same command lines.  One entry per event: value,fdvalue,pending,watch,mayqueue[,undelivered].

Verdicts: an implementation state with both values below their limits, no notification pending and the read watch disabled
is THE WEDGE: a concrete violation (the connection will never be read again by a watch-driven main loop).  Any other
difference from the model is reported with found_input=False (the model or the harness is off, or the change is harmless)."""
import itertools, os, sys
import vlib

LEG = "flow"
F_SETLIMITS = "F11-flow-setlimits"
F_LOADER = "F11-flow-loader-stall"


# ----------------------------------------------------------------------------------------------------------- generators
def release_orders(n):
    """every order of releasing n live messages, as positions in the shrinking live list"""
    out = []
    for perm in itertools.permutations(range(n)):
        alive, ks = list(range(n)), []
        for p in perm:
            ks.append(alive.index(p))
            alive.remove(p)
        out.append(ks)
    return out


def compositions(total, parts, lo):
    """a few ways of writing total as `parts` sizes >= lo"""
    if parts == 1:
        return [[total]] if total >= lo else []
    if total < parts * lo:
        return []
    out = []
    rest = total - parts * lo
    out.append([lo] * (parts - 1) + [lo + rest])                 # the last one makes the jump
    out.append([lo + rest] + [lo] * (parts - 1))                 # the first one is big, the last minimal
    even = [lo + rest // parts] * parts
    even[-1] += rest - (rest // parts) * parts
    out.append(even)
    uniq = []
    for c in out:
        if c not in uniq:
            uniq.append(c)
    return uniq


def notify_patterns(ks, filler):
    """the releases ks with the notification immediate / delayed to the end / delayed past an arrival / mixed"""
    pats = [["U%d" % k for k in ks],
            ["R%d" % k for k in ks] + ["N"],
            [x for k in ks for x in ("R%d" % k, "N")]]
    if ks:
        pats.append(["R%d" % ks[0], filler, "N"] + ["U%d" % k for k in ks[1:]])
        pats.append(["R%d" % ks[0]] + ["U%d" % k for k in ks[1:]])
        pats.append(["R%d" % k for k in ks[:-1]] + ["N", "R%d" % ks[-1], filler, "N"])
    uniq = []
    for p in pats:
        if p not in uniq:
            uniq.append(p)
    return uniq


def directed_flow(minsize, tier):
    """(label, max_size, max_fds, events) aimed at the boundary: value exactly at / one below / one above each limit"""
    out = []
    lo = minsize[0]
    filler = "A%d,0" % lo
    tail = [filler, "N", filler, "N"]
    limits = [4 * lo + 17, 1000] if tier == "quick" else [3 * lo, 4 * lo + 17, 1000, 5000, 66060288 // 64]
    for L in limits:
        for d in (-1, 0, 1):
            for pre in ([], [lo]):                         # with / without a message that stays live throughout
                t = L + d - sum(pre)
                for parts in (1, 2, 3):
                    for comp in compositions(t, parts, lo):
                        arrive = ["A%d,0" % s for s in pre + comp]
                        for ks in release_orders(len(comp)):
                            ks2 = [k + len(pre) for k in ks]        # the kept message stays at position 0
                            for pat in notify_patterns(ks2, filler):
                                out.append(("size%+d/%dparts%s" % (d, parts, "+kept" if pre else ""), L, 16, arrive + pat + tail))
    # the descriptor limit
    for F in (1, 2, 3):
        for d in (-1, 0, 1):
            t = F + d
            if t <= 0:
                continue
            splits = [[t]] + ([[1, t - 1], [t - 1, 1]] if t >= 2 else []) + ([[1] * t] if t >= 3 else [])
            for sp in splits:
                if any(x >= len(minsize) for x in sp):
                    continue
                arrive = ["A%d,%d" % (minsize[x] + 3 * i, x) for i, x in enumerate(sp)]
                for ks in release_orders(len(sp)):
                    for pat in notify_patterns(ks, "A%d,1" % minsize[1]):
                        out.append(("fds%+d/%dparts" % (d, len(sp)), 100000, F, arrive + pat + ["A%d,1" % minsize[1], "N", filler, "N"]))
    # both limits reached by the same message, and one after the other
    for ds in (-1, 0, 1):
        for df in (-1, 0, 1):
            L, F = 1000, 2
            if F + df < 1:
                continue
            for pat in notify_patterns([0], filler):
                out.append(("both%+d%+d" % (ds, df), L, F, ["A%d,%d" % (L + ds, F + df)] + pat + tail))
            for ks in release_orders(2):
                for pat in notify_patterns(ks, filler):
                    out.append(("both-two%+d%+d" % (ds, df), L, F, ["A%d,0" % (L + ds - minsize[F + df]), "A%d,%d" % (minsize[F + df], F + df)] + pat + tail))
    # the faithful model's witnesses of Proofs/FlowProofs.v (seeded_witness and neighbours)
    if lo <= 99:
        for sz in (99, 100, 101):
            out.append(("witness", 100, 10, ["A%d,0" % sz, "R0", "N", filler]))
    return out


def random_flow(rnd, minsize, count):
    out = []
    lo = minsize[0]
    for _ in range(count):
        L = rnd.choice((3 * lo, 4 * lo + 17, 700, 1000, 4096))
        F = rnd.choice((1, 2, 3, 16))
        live, evs = [], []          # generator's bookkeeping only (which sizes would land on the boundary)
        for _ in range(rnd.randint(6, 40)):
            v, f = sum(s for s, _ in live), sum(x for _, x in live)
            r = rnd.random()
            if r < 0.45 or not live:
                nf = 0
                if rnd.random() < 0.4:
                    want = F - f + rnd.choice((-1, 0, 0, 1))
                    nf = min(max(want, 0), len(minsize) - 1)
                want = L - v + rnd.choice((-1, 0, 0, 0, 1))
                if rnd.random() < 0.35 or want < minsize[nf]:
                    want = rnd.randint(minsize[nf], max(minsize[nf], L // 2))
                evs.append("A%d,%d" % (want, nf))
                if v < L and f < F:
                    live.append((want, nf))
            elif r < 0.85:
                k = rnd.randrange(len(live))
                live.pop(k)
                evs.append(rnd.choice(("R%d", "U%d", "U%d")) % k)
            else:
                evs.append("N")
        evs.append("N")
        out.append(("random", L, F, evs))
    return out


TBIG = 2100      # tflow sizes stay above the transport's 2048-byte read, so that one read completes at most one message


def directed_tflow(minsize, tier):
    out = []
    L = 10000
    for d in (-1, 0, 1):
        for parts in (1, 2, 3):
            for comp in compositions(L + d, parts, TBIG):
                arrive = ["A%d,0" % s for s in comp]
                for nback in ((1,) if tier == "quick" else (0, 1, 2)):
                    back = ["A%d,0" % (TBIG + 11 * i) for i in range(nback)]      # written while the watch may be off
                    for ks in release_orders(len(comp)):
                        out.append(("t-size%+d/%dparts/%dwaiting" % (d, parts, nback), L, 16,
                                    arrive + back + ["U%d" % k for k in ks] + ["N", "A%d,0" % TBIG, "U0"]))
    for F in (1, 2):
        for d in (-1, 0, 1):
            t = F + d
            if t <= 0:
                continue
            splits = [[t]] + ([[1, t - 1]] if t >= 2 else [])
            for sp in splits:
                arrive = ["A%d,%d" % (TBIG + 5 * i, x) for i, x in enumerate(sp)]
                for ks in release_orders(len(sp)):
                    out.append(("t-fds%+d/%dparts" % (d, len(sp)), 1000000, F, arrive + ["A%d,1" % TBIG] + ["U%d" % k for k in ks] + ["N", "A%d,0" % TBIG]))
    return out


def sameread_tflow(minsize, tier):
    """several small messages in ONE read (W = written, main loop not run yet): the dispatch-status test decides, message by
    message, what leaves the loader; the limit is reached exactly / missed by one while complete messages are still in the loader"""
    out = []
    a = max(100, minsize[0])
    for d in (-1, 0, 1):
        for k in (1, 2, 3):                                  # the k-th message brings the value to limit + d
            L = k * a - d
            if L <= 0:
                continue
            for extra in (1, 2):
                sizes = [a] * k + [a - 10 - i for i in range(extra)]
                arrive = ["W%d,0" % x for x in sizes[:-1]] + ["A%d,0" % sizes[-1]]
                n = len(sizes)
                for rel in (["U0"] * n, ["U0"] * n + ["A%d,0" % a] + ["U0"] * n, ["U%d" % (k - 1)] + ["U0"] * n, ["U0", "N", "A%d,0" % a] + ["U0"] * n):
                    out.append(("t-sameread%+d/%d+%d" % (d, k, extra), L, 16, arrive + rel + ["N"]))
    return out


def random_tflow(rnd, count):
    out = []
    for _ in range(count):
        small = rnd.random() < 0.5                         # small messages: many per read (no descriptors, see ml/flow/driver.ml)
        L = rnd.choice((300, 500, 1000)) if small else rnd.choice((7000, 10000))
        F = 16 if small else rnd.choice((1, 2, 16))
        lo, hi = (100, 400) if small else (TBIG, 4000)
        live, waiting, evs = [], [], []
        for _ in range(rnd.randint(4, 16)):
            v, f = sum(s for s, _ in live), sum(x for _, x in live)
            while waiting and v < L and f < F:                 # rough bookkeeping of what has been delivered (sizes only aim at the boundary)
                live.append(waiting.pop(0))
                v, f = sum(s for s, _ in live), sum(x for _, x in live)
            r = rnd.random()
            if (r < 0.5 or not live) and len(waiting) < 4:
                nf = rnd.choice((0, 0, 1, 2)) if F < 16 else 0
                want = L - v + rnd.choice((-1, 0, 0, 1))
                if want < lo or want > 9000 or rnd.random() < 0.3:
                    want = rnd.randint(lo, hi)
                evs.append("%s%d,%d" % ("W" if small and rnd.random() < 0.5 else "A", want, nf))
                waiting.append((want, nf))
            elif live:
                k = rnd.randrange(len(live))
                live.pop(k)
                evs.append("U%d" % k)
            else:
                evs.append("N")
        evs.append("N")
        out.append(("t-random-small" if small else "t-random", L, F, evs))
    return out


# -------------------------------------------------------------------------------------------------------------- oracles
def parse_entry(e):
    """value, fdvalue, pending ('0'/'1'/'-'), watch ('0'/'1'/'X'), mayqueue, undelivered or None"""
    p = e.split(",")
    if len(p) not in (5, 6):
        return None
    try:
        return (int(p[0]), int(p[1]), p[2], p[3], int(p[4]), int(p[5]) if len(p) == 6 else None)
    except ValueError:
        return None


def wedged(entry, ms, mf):
    """both values below their limits, nothing pending, read watch disabled"""
    v, f, pend, w, _, _ = entry
    return v < ms and f < mf and pend in ("0", "-") and w == "0"


def cmdline(mode, L, F, evs):
    return "%s %d %d %s" % (mode, L, F, " ".join(evs))


# ------------------------------------------------------------------------------------------------------------------ leg
def leg(ctx, rep, rnd, tier, only=None):
    """returns coverage numbers; reports violations through rep"""
    info = ctx["info"]
    res = {"flow_cases": 0, "tflow_cases": 0, "tflow_final_states_with_message_left_in_loader": 0, "flow_events": 0, "flow_labels": {}, "flow_downward_crossings_at_limit": 0, "flow_downward_crossings": 0,
           "flow_states_exactly_at_limit": 0, "flow_delayed_notifications": 0, "flow_refused_arrivals": 0, "flow_distinct_nontrivial": 0,
           "flow_findings_reproduced": [], "flow_unregistered_findings": [], "flow_samples": []}
    try:
        model_exe = vlib.build_ml("flow")
    except vlib.BuildBroken as e:
        rep.violation("flow model does not build: %s" % str(e)[-800:], {"leg": LEG, "names": "coq/Extract/ExtractFlow.v, ml/flow"}, found_input=False)
        return res
    try:
        impl_exe = info.get("flow_h") or vlib.build_harness("flow_h")
    except vlib.BuildBroken as e:
        rep.violation("flow harness does not build against the current tree: %s" % str(e)[-800:], {"leg": LEG, "names": "harness/c/flow_h.c"}, found_input=False)
        return res

    # the smallest message the harness can build, per number of descriptors
    q, _ = vlib.run_lines(impl_exe, ["flow 1000000 1000 A0,%d" % k for k in range(5)], shards=1)
    try:
        minsize = [int(x.split("?minsize=")[1]) for x in q]
    except (IndexError, ValueError):
        rep.violation("flow harness does not answer the size query: %s" % str(q)[:300], {"leg": LEG, "names": "harness/c/flow_h.c"}, found_input=False)
        return res
    res["flow_min_message_size"] = minsize

    if only is not None:
        t = only["cmd"].split(" ")
        cases = [("replay", t[0], int(t[1]), int(t[2]), t[3:])]
    else:
        cases = [(lab, "flow", L, F, evs) for lab, L, F, evs in directed_flow(minsize, tier)]
        cases += [(lab, "flow", L, F, evs) for lab, L, F, evs in random_flow(rnd, minsize, 1500 if tier == "quick" else 40000)]
        cases += [(lab, "tflow", L, F, evs) for lab, L, F, evs in directed_tflow(minsize, tier)]
        cases += [(lab, "tflow", L, F, evs) for lab, L, F, evs in sameread_tflow(minsize, tier)]
        cases += [(lab, "tflow", L, F, evs) for lab, L, F, evs in random_tflow(rnd, 150 if tier == "quick" else 3000)]
    seen, uniq = set(), []
    for c in cases:
        key = cmdline(*c[1:])
        if key not in seen:
            seen.add(key)
            uniq.append(c)
    cases = uniq
    lines = [cmdline(*c[1:]) for c in cases]
    impl, icr = vlib.run_lines(impl_exe, lines)
    model, mcr = vlib.run_lines(model_exe, lines)
    for line, err in icr:
        rep.violation("implementation crashed / asserted / sanitizer report during flow control: `%s`: %s" % (line[:300], err[-700:]),
                      {"leg": LEG, "cmd": line, "stderr": err})
    for line, err in mcr:
        rep.violation("flow model driver crashed on `%s`: %s" % (line[:200], err[-300:]), {"leg": LEG, "cmd": line, "names": "ml/flow driver"}, found_input=False)

    nontrivial = set()
    for (label, mode, L, F, evs), line, i, m in zip(cases, lines, impl, model):
        if i == "!CRASH" or m == "!CRASH":
            continue
        res["flow_cases" if mode == "flow" else "tflow_cases"] += 1
        res["flow_labels"][label] = res["flow_labels"].get(label, 0) + 1
        ie, me = i.split(" "), m.split(" ")
        replay = {"leg": LEG, "cmd": line, "label": label, "impl": i[:1500], "model": m[:1500]}
        if i.startswith("?") or any(x.startswith("?") for x in ie):
            rep.violation("flow harness cannot run a generated case (%s): %s" % (label, i[-80:]), dict(replay, names="generator / harness/c/flow_h.c"), found_input=False)
            continue
        prev, reported = None, False
        for idx, (ev, x) in enumerate(zip(evs, ie)):
            if x == "F":
                break
            st = parse_entry(x)
            if st is None:
                rep.violation("unparsable state `%s` from the flow harness" % x[:60], dict(replay, names="harness/c/flow_h.c"), found_input=False)
                reported = True
                break
            res["flow_events"] += 1
            if st[0] == L or st[1] == F:
                res["flow_states_exactly_at_limit"] += 1
            if ev[0] == "A" and prev is not None and (prev[0], prev[1]) == (st[0], st[1]):
                res["flow_refused_arrivals"] += 1
            if ev[0] == "R":
                res["flow_delayed_notifications"] += 1
            if prev is not None and (prev[0] >= L or prev[1] >= F) and st[0] < L and st[1] < F:
                res["flow_downward_crossings"] += 1
                nontrivial.add(line)
                if prev[0] == L or prev[1] == F:
                    res["flow_downward_crossings_at_limit"] += 1
            # THE WEDGE, judged on the implementation alone
            if wedged(st, L, F) and not reported:
                why = ""
                if prev is not None:
                    why = " (before this event: value %d, descriptors %d%s)" % (prev[0], prev[1], "; a value sat EXACTLY on its limit" if prev[0] == L or prev[1] == F else "")
                like = ""
                if mode == "flow":
                    s, _ = vlib.run_lines(model_exe, ["s" + line], shards=1)
                    if s and s[0].split(" ")[:idx + 1] == ie[:idx + 1] and me[:idx + 1] != ie[:idx + 1]:
                        like = "; the implementation behaves like the model with the crossing test (old <= guard) != (new <= guard)"
                rep.violation("incoming flow control wedges the connection: limits %d bytes / %d descriptors, after `%s` the live messages total %d bytes / %d descriptors "
                              "(below both limits), %s and the read watch is DISABLED%s: nothing will ever re-enable it, the connection is never read again. "
                              "The proved model (Proofs/FlowProofs.v flow_no_wedge) says the watch must be enabled here%s [%s, event %d]" % (
                                  L, F, " ".join(evs[:idx + 1]), st[0], st[1],
                                  "no notification is pending" if mode == "flow" else "the main loop has run to quiescence (one thread: no notification can be outstanding)",
                                  why, like, mode, idx),
                              dict(replay, event_index=idx, state=x))
                reported = True
            prev = st
        if mode == "tflow" and prev is not None and prev[5] and prev[3] == "1" and prev[4] == 1:
            res["tflow_final_states_with_message_left_in_loader"] += 1
        if reported:
            continue
        # agreement with the model, event by event
        if mode == "flow":
            same = ie == me
        else:
            strip = lambda es: [",".join(e.split(",")[:2] + e.split(",")[3:]) for e in es]
            same = strip(ie) == strip(me)
        if not same:
            k = next((j for j in range(min(len(ie), len(me))) if (ie[j] != me[j] if mode == "flow" else strip([ie[j]]) != strip([me[j]]))), min(len(ie), len(me)))
            rep.violation("flow control: implementation and model differ at event %d (`%s`) of `%s`: impl %s vs model %s (value,fdvalue,pending,watch,mayqueue%s); no wedge in the implementation's states" % (
                k, evs[k] if k < len(evs) else "-", line[:200], ie[k] if k < len(ie) else "-", me[k] if k < len(me) else "-", ",undelivered" if mode == "tflow" else ""),
                dict(replay, event_index=k, names="correspondence harness/c/flow_h.c (%s) vs Wire.Flow.%s" % (mode, "fstep" if mode == "flow" else "fstep + socket glue of ml/flow/driver.ml")),
                found_input=False)
    res["flow_distinct_nontrivial"] = len(nontrivial)
    step = max(1, len(cases) // 6)
    res["flow_samples"] = [{"cmd": l[:160], "impl": i[:160]} for l, i in list(zip(lines, impl))[::step]][:6]

    if only is None:
        probes(rep, res, impl_exe, model_exe)
    return res


def probes(rep, res, impl_exe, model_exe):
    """behaviours of the UNCHANGED tree that are outside the no-wedge theorem (its hypotheses exclude them); reported as known
    findings when registered in known-findings.json under C11, otherwise only recorded in the coverage"""
    known = {e["id"]: e for e in vlib.load_known("C11")}

    def note(fid, what, sample):
        res["flow_findings_reproduced"].append(fid)
        if fid in known:
            rep.known(known[fid], sample)
        else:
            res["flow_unregistered_findings"].append({"id": fid, "what": what, "sample": sample})

    # 1. changing the limits of a live connection (Proofs/FlowProofs.v flow_set_limits_can_wedge): model and implementation agree
    for line, L2, F2 in (("flow 200 10 A200,0 L400,10 U0 N", 400, 10), ("tflow 10000 10 A5000,0 A5000,0 L20000,10 U0 U0 A3000,0 N", 20000, 10)):
        i, icr = vlib.run_lines(impl_exe, [line], shards=1)
        m, _ = vlib.run_lines(model_exe, [line], shards=1)
        if icr or not i or i[0] == "!CRASH":
            rep.violation("implementation crashed while the limits of a live connection were changed: `%s`" % line, {"leg": LEG, "cmd": line, "stderr": icr[0][1] if icr else ""})
            continue
        ie, me = i[0].split(" "), m[0].split(" ")
        strip = (lambda es: es) if line.startswith("flow") else (lambda es: [",".join(e.split(",")[:2] + e.split(",")[3:]) for e in es])
        if strip(ie) != strip(me):
            rep.violation("changing the limits of a live connection: implementation %s vs model %s on `%s`" % (i[0][:200], m[0][:200], line),
                          {"leg": LEG, "cmd": line, "impl": i[0], "model": m[0], "names": "correspondence _dbus_transport_set_max_received_size vs Wire.Flow.step (SetLimits)"}, found_input=False)
            continue
        last = parse_entry(ie[-1])
        if last is not None and wedged(last, L2, F2):
            note(F_SETLIMITS, "raising max_received_size on a connection that has reached it leaves the read watch disabled for ever "
                              "(_dbus_counter_set_notify clears notify_pending, no check_read_watch; later releases stay below the new guard)", {"cmd": line, "impl": i[0]})
    # 2. a complete message left in the loader when the limit was reached is not queued when capacity returns
    line = "tflow 200 10 W100,0 W100,0 A100,0 U0 U0"
    i, icr = vlib.run_lines(impl_exe, [line], shards=1)
    if icr or not i or i[0] == "!CRASH":
        rep.violation("implementation crashed on `%s`" % line, {"leg": LEG, "cmd": line, "stderr": icr[0][1] if icr else ""})
    else:
        last = parse_entry(i[0].split(" ")[-1])
        if last is not None and last[0] == 0 and last[3] == "1" and last[5]:
            note(F_LOADER, "three 100-byte messages arrive in ONE read with max_received_size 200: two are queued, the third stays in the loader; after both "
                           "are released (0 live bytes, read watch enabled) the third is still not delivered, because live_messages_notify only re-arms the read "
                           "watch and nothing re-runs _dbus_transport_queue_messages until more bytes arrive; written in a separate write it IS delivered", {"cmd": line, "impl": i[0]})
