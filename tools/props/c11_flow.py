"""C11, flow-control leg: libdbus' incoming flow control (DBusCounter with its notify guard, dbus/dbus-resources.c; the charge /
release of messages, dbus/dbus-message.c; the transport's dispatch-status test and read watch, dbus/dbus-transport.c,
dbus/dbus-transport-socket.c) against the Coq model Wire/Flow.v (extracted to ml/flow; Proofs/FlowProofs.v proves that the
model can never wedge: with no notification pending the read watch is enabled iff both values are below their limits).

Implementation side, build/flow_h (harness/c/flow_h.c):
  flow  <max_size> <max_fds> <event>...   a real DBusCounter with the transport's guards, real DBusMessages charged with
                                          _dbus_message_add_counter_link and released with dbus_message_unref
  tflow <max_size> <max_fds> <event>...   a real server-side DBusTransport over a socketpair, driven through its watches;
                                          the watch state printed is dbus_watch_get_enabled of the transport's read watch
Model side, build/ml/flow/model: the same command lines.  One entry per event: value,fdvalue,pending,watch,mayqueue[,undelivered].

Verdicts: an implementation state with both values below the limits in force, no notification pending and the read watch
disabled is THE WEDGE: a concrete violation (the connection will never be read again by a watch-driven main loop); this
includes sequences that change the limits of the live connection (L events; F11-flow-setlimits, fixed in /repo d42cc8a).  Any
other difference from the model is reported with found_input=False (the model or the harness is off, or the change is harmless).
Model (driver glue) = implementation with a complete message left undelivered in the loader is the known finding
F11-flow-loader-stall (known-findings.json, property C11); if it is not registered there it is a violation."""
import itertools, os, sys
import vlib

LEG = "flow"
F_LOADER = "F11-flow-loader-stall"


# ----------------------------------------------------------------------------------------------------------- generators
def release_orders(n):
    """every order of releasing n live messages, as positions in the shrinking live list"""
    out = []
    for perm in itertools.permutations(range(n)):
        alive, ks = list(range(n)), []
        for p in perm:
            ks.append(alive.index(p))
            alive.remove(p)
        out.append(ks)
    return out


def compositions(total, parts, lo):
    """a few ways of writing total as `parts` sizes >= lo"""
    if parts == 1:
        return [[total]] if total >= lo else []
    if total < parts * lo:
        return []
    out = []
    rest = total - parts * lo
    out.append([lo] * (parts - 1) + [lo + rest])                 # the last one makes the jump
    out.append([lo + rest] + [lo] * (parts - 1))                 # the first one is big, the last minimal
    even = [lo + rest // parts] * parts
    even[-1] += rest - (rest // parts) * parts
    out.append(even)
    uniq = []
    for c in out:
        if c not in uniq:
            uniq.append(c)
    return uniq


def notify_patterns(ks, filler):
    """the releases ks with the notification immediate / delayed to the end / delayed past an arrival / mixed"""
    pats = [["U%d" % k for k in ks],
            ["R%d" % k for k in ks] + ["N"],
            [x for k in ks for x in ("R%d" % k, "N")]]
    if ks:
        pats.append(["R%d" % ks[0], filler, "N"] + ["U%d" % k for k in ks[1:]])
        pats.append(["R%d" % ks[0]] + ["U%d" % k for k in ks[1:]])
        pats.append(["R%d" % k for k in ks[:-1]] + ["N", "R%d" % ks[-1], filler, "N"])
    uniq = []
    for p in pats:
        if p not in uniq:
            uniq.append(p)
    return uniq


def directed_flow(minsize, tier):
    """(label, max_size, max_fds, events) aimed at the boundary: value exactly at / one below / one above each limit"""
    out = []
    lo = minsize[0]
    filler = "A%d,0" % lo
    tail = [filler, "N", filler, "N"]
    limits = [4 * lo + 17, 1000] if tier == "quick" else [3 * lo, 4 * lo + 17, 1000, 5000, 66060288 // 64]
    for L in limits:
        for d in (-1, 0, 1):
            for pre in ([], [lo]):                         # with / without a message that stays live throughout
                t = L + d - sum(pre)
                for parts in (1, 2, 3):
                    for comp in compositions(t, parts, lo):
                        arrive = ["A%d,0" % s for s in pre + comp]
                        for ks in release_orders(len(comp)):
                            ks2 = [k + len(pre) for k in ks]        # the kept message stays at position 0
                            for pat in notify_patterns(ks2, filler):
                                out.append(("size%+d/%dparts%s" % (d, parts, "+kept" if pre else ""), L, 16, arrive + pat + tail))
    # the descriptor limit
    for F in (1, 2, 3):
        for d in (-1, 0, 1):
            t = F + d
            if t <= 0:
                continue
            splits = [[t]] + ([[1, t - 1], [t - 1, 1]] if t >= 2 else []) + ([[1] * t] if t >= 3 else [])
            for sp in splits:
                if any(x >= len(minsize) for x in sp):
                    continue
                arrive = ["A%d,%d" % (minsize[x] + 3 * i, x) for i, x in enumerate(sp)]
                for ks in release_orders(len(sp)):
                    for pat in notify_patterns(ks, "A%d,1" % minsize[1]):
                        out.append(("fds%+d/%dparts" % (d, len(sp)), 100000, F, arrive + pat + ["A%d,1" % minsize[1], "N", filler, "N"]))
    # both limits reached by the same message, and one after the other
    for ds in (-1, 0, 1):
        for df in (-1, 0, 1):
            L, F = 1000, 2
            if F + df < 1:
                continue
            for pat in notify_patterns([0], filler):
                out.append(("both%+d%+d" % (ds, df), L, F, ["A%d,%d" % (L + ds, F + df)] + pat + tail))
            for ks in release_orders(2):
                for pat in notify_patterns(ks, filler):
                    out.append(("both-two%+d%+d" % (ds, df), L, F, ["A%d,0" % (L + ds - minsize[F + df]), "A%d,%d" % (minsize[F + df], F + df)] + pat + tail))
    # the faithful model's witnesses of Proofs/FlowProofs.v (seeded_witness and neighbours)
    if lo <= 99:
        for sz in (99, 100, 101):
            out.append(("witness", 100, 10, ["A%d,0" % sz, "R0", "N", filler]))
    return out


def random_flow(rnd, minsize, count):
    out = []
    lo = minsize[0]
    for _ in range(count):
        L = rnd.choice((3 * lo, 4 * lo + 17, 700, 1000, 4096))
        F = rnd.choice((1, 2, 3, 16))
        L0, F0 = L, F
        live, evs = [], []          # generator's bookkeeping only (which sizes would land on the boundary)
        for _ in range(rnd.randint(6, 40)):
            v, f = sum(s for s, _ in live), sum(x for _, x in live)
            r = rnd.random()
            if r < 0.45 or not live:
                nf = 0
                if rnd.random() < 0.4:
                    want = F - f + rnd.choice((-1, 0, 0, 1))
                    nf = min(max(want, 0), len(minsize) - 1)
                want = L - v + rnd.choice((-1, 0, 0, 0, 1))
                if rnd.random() < 0.35 or want < minsize[nf]:
                    want = rnd.randint(minsize[nf], max(minsize[nf], L // 2))
                evs.append("A%d,%d" % (want, nf))
                if v < L and f < F:
                    live.append((want, nf))
            elif r < 0.85:
                k = rnd.randrange(len(live))
                live.pop(k)
                evs.append(rnd.choice(("R%d", "U%d", "U%d")) % k)
            elif r < 0.95:
                evs.append("N")
            else:
                L = max(1, v + rnd.choice((-1, 0, 1, 1, lo, -lo, 3 * lo)))     # move the size limit onto / next to the value
                F = max(1, f + rnd.choice((0, 1, 1, 2))) if rnd.random() < 0.3 else F
                evs.append("L%d,%d" % (L, F))
        evs.append("N")
        out.append(("random", L0, F0, evs))
    return out


TBIG = 2100      # tflow sizes stay above the transport's 2048-byte read, so that one read completes at most one message


def directed_tflow(minsize, tier):
    out = []
    L = 10000
    for d in (-1, 0, 1):
        for parts in (1, 2, 3):
            for comp in compositions(L + d, parts, TBIG):
                arrive = ["A%d,0" % s for s in comp]
                for nback in ((1,) if tier == "quick" else (0, 1, 2)):
                    back = ["A%d,0" % (TBIG + 11 * i) for i in range(nback)]      # written while the watch may be off
                    for ks in release_orders(len(comp)):
                        out.append(("t-size%+d/%dparts/%dwaiting" % (d, parts, nback), L, 16,
                                    arrive + back + ["U%d" % k for k in ks] + ["N", "A%d,0" % TBIG, "U0"]))
    for F in (1, 2):
        for d in (-1, 0, 1):
            t = F + d
            if t <= 0:
                continue
            splits = [[t]] + ([[1, t - 1]] if t >= 2 else [])
            for sp in splits:
                arrive = ["A%d,%d" % (TBIG + 5 * i, x) for i, x in enumerate(sp)]
                for ks in release_orders(len(sp)):
                    out.append(("t-fds%+d/%dparts" % (d, len(sp)), 1000000, F, arrive + ["A%d,1" % TBIG] + ["U%d" % k for k in ks] + ["N", "A%d,0" % TBIG]))
    return out


def sameread_tflow(minsize, tier):
    """several small messages in ONE read (W = written, main loop not run yet): the dispatch-status test decides, message by
    message, what leaves the loader; the limit is reached exactly / missed by one while complete messages are still in the loader"""
    out = []
    a = max(100, minsize[0])
    for d in (-1, 0, 1):
        for k in (1, 2, 3):                                  # the k-th message brings the value to limit + d
            L = k * a - d
            if L <= 0:
                continue
            for extra in (1, 2):
                sizes = [a] * k + [a - 10 - i for i in range(extra)]
                arrive = ["W%d,0" % x for x in sizes[:-1]] + ["A%d,0" % sizes[-1]]
                n = len(sizes)
                for rel in (["U0"] * n, ["U0"] * n + ["A%d,0" % a] + ["U0"] * n, ["U%d" % (k - 1)] + ["U0"] * n, ["U0", "N", "A%d,0" % a] + ["U0"] * n):
                    out.append(("t-sameread%+d/%d+%d" % (d, k, extra), L, 16, arrive + rel + ["N"]))
    return out


def random_tflow(rnd, count):
    out = []
    for _ in range(count):
        small = rnd.random() < 0.5                         # small messages: many per read (no descriptors, see ml/flow/driver.ml)
        L = rnd.choice((300, 500, 1000)) if small else rnd.choice((7000, 10000))
        F = 16 if small else rnd.choice((1, 2, 16))
        lo, hi = (100, 400) if small else (TBIG, 4000)
        L0, F0 = L, F
        live, waiting, evs = [], [], []
        for _ in range(rnd.randint(4, 16)):
            v, f = sum(s for s, _ in live), sum(x for _, x in live)
            while waiting and v < L and f < F:                 # rough bookkeeping of what has been delivered (sizes only aim at the boundary)
                live.append(waiting.pop(0))
                v, f = sum(s for s, _ in live), sum(x for _, x in live)
            r = rnd.random()
            if (r < 0.5 or not live) and len(waiting) < 4:
                nf = rnd.choice((0, 0, 1, 2)) if F < 16 else 0
                want = L - v + rnd.choice((-1, 0, 0, 1))
                if want < lo or want > 9000 or rnd.random() < 0.3:
                    want = rnd.randint(lo, hi)
                evs.append("%s%d,%d" % ("W" if small and rnd.random() < 0.5 else "A", want, nf))
                waiting.append((want, nf))
            elif live and r < 0.93:
                k = rnd.randrange(len(live))
                live.pop(k)
                evs.append("U%d" % k)
            elif r < 0.97:
                evs.append("N")
            else:
                L = max(1, v + rnd.choice((-1, 0, 1, 1, lo, 2 * lo)))
                evs.append("L%d,%d" % (L, F))
        evs.append("N")
        out.append(("t-random-small" if small else "t-random", L0, F0, evs))
    return out


def setlimits_cases(minsize, tier):
    """the limits of a LIVE connection are changed (dbus_connection_set_max_received_size / _unix_fds): raised past / to / just
    short of the current value while the watch is off, lowered onto / below it while it is on, with a notification still owed"""
    out = []
    lo = minsize[0]
    a, b = lo + 24, lo + 50
    v = a + b
    for d in (-1, 0, 1):                                     # the live bytes are v; the connection was at limit v + d
        L = v + d
        arrive = ["A%d,0" % a, "A%d,0" % b]
        for new in (v - 1, v, v + 1, 2 * v, a, a + 1, 1):
            for rel in (["U0", "U0"], ["R0", "N", "U0"], ["U1", "U0"]):
                out.append(("setlimits%+d" % d, "flow", L, 16, arrive + ["L%d,16" % new] + rel + ["A%d,0" % lo, "N"]))
                out.append(("setlimits-owed%+d" % d, "flow", L, 16, arrive + ["R1", "L%d,16" % new] + rel[:1] + ["N", "A%d,0" % lo, "N"]))
            out.append(("setlimits-twice%+d" % d, "flow", L, 16, arrive + ["L%d,16" % new, "L%d,16" % L, "U0", "U0", "N"]))
    for newf in (1, 2, 3):
        out.append(("setlimits-fds", "flow", 100000, 2, ["A%d,2" % minsize[2], "L100000,%d" % newf, "U0", "A%d,1" % minsize[1], "N"]))
        out.append(("setlimits-fds", "flow", 100000, 2, ["A%d,1" % minsize[1], "L100000,%d" % newf, "A%d,1" % minsize[1], "U0", "N"]))
    # the real setters on the real transport; the first one is the witness of the fixed finding F11-flow-setlimits
    out.append(("t-setlimits", "tflow", 10000, 10, ["A5000,0", "A5000,0", "L20000,10", "U0", "U0", "A3000,0", "N"]))
    for d in (-1, 0, 1):
        for new in (9999, 10000, 10001, 20000, 5000, 5001):
            out.append(("t-setlimits", "tflow", 10000 + d, 10, ["A5000,0", "A5000,0", "A%d,0" % TBIG, "L%d,10" % new, "U0", "U0", "A3000,0", "U0", "N"]))
    for newf in (1, 2, 3):
        out.append(("t-setlimits-fds", "tflow", 1000000, 2, ["A%d,2" % TBIG, "A%d,0" % (TBIG + 7), "L1000000,%d" % newf, "U0", "A%d,1" % TBIG, "N"]))
    # the witness of the known finding F11-flow-loader-stall
    out.append(("t-loader-stall", "tflow", 200, 10, ["W100,0", "W100,0", "A100,0", "U0", "U0"]))
    return out


# -------------------------------------------------------------------------------------------------------------- oracles
def parse_entry(e):
    """value, fdvalue, pending ('0'/'1'/'-'), watch ('0'/'1'/'X'), mayqueue, undelivered or None"""
    p = e.split(",")
    if len(p) not in (5, 6):
        return None
    try:
        return (int(p[0]), int(p[1]), p[2], p[3], int(p[4]), int(p[5]) if len(p) == 6 else None)
    except ValueError:
        return None


def wedged(entry, ms, mf):
    """both values below their limits, nothing pending, read watch disabled"""
    v, f, pend, w, _, _ = entry
    return v < ms and f < mf and pend in ("0", "-") and w == "0"


def cmdline(mode, L, F, evs):
    return "%s %d %d %s" % (mode, L, F, " ".join(evs))


# ------------------------------------------------------------------------------------------------------------------ leg
def leg(ctx, rep, rnd, tier, only=None):
    """returns coverage numbers; reports violations through rep"""
    info = ctx["info"]
    res = {"flow_cases": 0, "tflow_cases": 0, "tflow_final_states_with_message_left_in_loader": 0, "flow_events": 0, "flow_labels": {}, "flow_downward_crossings_at_limit": 0, "flow_downward_crossings": 0,
           "flow_states_exactly_at_limit": 0, "flow_delayed_notifications": 0, "flow_refused_arrivals": 0, "flow_distinct_nontrivial": 0,
           "flow_limit_changes": 0, "flow_samples": []}
    stall_sample = None
    try:
        model_exe = vlib.build_ml("flow")
    except vlib.BuildBroken as e:
        rep.violation("flow model does not build: %s" % str(e)[-800:], {"leg": LEG, "names": "coq/Extract/ExtractFlow.v, ml/flow"}, found_input=False)
        return res
    try:
        impl_exe = info.get("flow_h") or vlib.build_harness("flow_h")
    except vlib.BuildBroken as e:
        rep.violation("flow harness does not build against the current tree: %s" % str(e)[-800:], {"leg": LEG, "names": "harness/c/flow_h.c"}, found_input=False)
        return res

    # the smallest message the harness can build, per number of descriptors
    q, _ = vlib.run_lines(impl_exe, ["flow 1000000 1000 A0,%d" % k for k in range(5)], shards=1)
    try:
        minsize = [int(x.split("?minsize=")[1]) for x in q]
    except (IndexError, ValueError):
        rep.violation("flow harness does not answer the size query: %s" % str(q)[:300], {"leg": LEG, "names": "harness/c/flow_h.c"}, found_input=False)
        return res
    res["flow_min_message_size"] = minsize

    if only is not None:
        t = only["cmd"].split(" ")
        cases = [("replay", t[0], int(t[1]), int(t[2]), t[3:])]
    else:
        cases = [(lab, "flow", L, F, evs) for lab, L, F, evs in directed_flow(minsize, tier)]
        cases += [(lab, "flow", L, F, evs) for lab, L, F, evs in random_flow(rnd, minsize, 1500 if tier == "quick" else 40000)]
        cases += [(lab, "tflow", L, F, evs) for lab, L, F, evs in directed_tflow(minsize, tier)]
        cases += [(lab, "tflow", L, F, evs) for lab, L, F, evs in sameread_tflow(minsize, tier)]
        cases += [(lab, "tflow", L, F, evs) for lab, L, F, evs in random_tflow(rnd, 150 if tier == "quick" else 3000)]
        cases += setlimits_cases(minsize, tier)
    seen, uniq = set(), []
    for c in cases:
        key = cmdline(*c[1:])
        if key not in seen:
            seen.add(key)
            uniq.append(c)
    cases = uniq
    lines = [cmdline(*c[1:]) for c in cases]
    impl, icr = vlib.run_lines(impl_exe, lines)
    model, mcr = vlib.run_lines(model_exe, lines)
    for line, err in icr:
        rep.violation("implementation crashed / asserted / sanitizer report during flow control: `%s`: %s" % (line[:300], err[-700:]),
                      {"leg": LEG, "cmd": line, "stderr": err})
    for line, err in mcr:
        rep.violation("flow model driver crashed on `%s`: %s" % (line[:200], err[-300:]), {"leg": LEG, "cmd": line, "names": "ml/flow driver"}, found_input=False)

    nontrivial = set()
    for (label, mode, L0, F0, evs), line, i, m in zip(cases, lines, impl, model):
        if i == "!CRASH" or m == "!CRASH":
            continue
        L, F = L0, F0            # the limits in force (L<ms>,<mf> events change them)
        res["flow_cases" if mode == "flow" else "tflow_cases"] += 1
        res["flow_labels"][label] = res["flow_labels"].get(label, 0) + 1
        ie, me = i.split(" "), m.split(" ")
        replay = {"leg": LEG, "cmd": line, "label": label, "impl": i[:1500], "model": m[:1500]}
        if i.startswith("?") or any(x.startswith("?") for x in ie):
            rep.violation("flow harness cannot run a generated case (%s): %s" % (label, i[-80:]), dict(replay, names="generator / harness/c/flow_h.c"), found_input=False)
            continue
        prev, reported = None, False
        for idx, (ev, x) in enumerate(zip(evs, ie)):
            if x == "F":
                break
            st = parse_entry(x)
            if st is None:
                rep.violation("unparsable state `%s` from the flow harness" % x[:60], dict(replay, names="harness/c/flow_h.c"), found_input=False)
                reported = True
                break
            res["flow_events"] += 1
            if ev[0] == "L":
                prev_limits = (L, F)
                L, F = (int(x) for x in ev[1:].split(","))
                res["flow_limit_changes"] += 1
                if prev is not None and (prev[0] >= prev_limits[0] or prev[1] >= prev_limits[1]) and st[0] < L and st[1] < F:
                    nontrivial.add(line)
            if st[0] == L or st[1] == F:
                res["flow_states_exactly_at_limit"] += 1
            if ev[0] == "A" and prev is not None and (prev[0], prev[1]) == (st[0], st[1]):
                res["flow_refused_arrivals"] += 1
            if ev[0] == "R":
                res["flow_delayed_notifications"] += 1
            if prev is not None and (prev[0] >= L or prev[1] >= F) and st[0] < L and st[1] < F:
                res["flow_downward_crossings"] += 1
                nontrivial.add(line)
                if prev[0] == L or prev[1] == F:
                    res["flow_downward_crossings_at_limit"] += 1
            # THE WEDGE, judged on the implementation alone
            if wedged(st, L, F) and not reported:
                why = ""
                if prev is not None:
                    why = " (before this event: value %d, descriptors %d%s)" % (prev[0], prev[1], "; a value sat EXACTLY on its limit" if prev[0] == L or prev[1] == F else "")
                like = ""
                if mode == "flow" and me[:idx + 1] != ie[:idx + 1]:
                    for variant, text in (("s", "with the crossing test (old <= guard) != (new <= guard)"), ("p", "whose limit setters do not re-evaluate the read watch (the code before d42cc8a)")):
                        s, _ = vlib.run_lines(model_exe, [variant + line], shards=1)
                        if s and s[0].split(" ")[:idx + 1] == ie[:idx + 1]:
                            like = "; the implementation behaves like the model " + text
                            break
                if any(e[0] == "L" for e in evs[:idx + 1]):
                    why += "; the limits were changed to %d / %d by an earlier event of this sequence" % (L, F)
                rep.violation("incoming flow control wedges the connection: limits %d bytes / %d descriptors, after `%s` the live messages total %d bytes / %d descriptors "
                              "(below both limits), %s and the read watch is DISABLED%s: nothing will ever re-enable it, the connection is never read again. "
                              "The proved model (Proofs/FlowProofs.v flow_no_wedge) says the watch must be enabled here%s [%s, event %d]" % (
                                  L, F, " ".join(evs[:idx + 1]), st[0], st[1],
                                  "no notification is pending" if mode == "flow" else "the main loop has run to quiescence (one thread: no notification can be outstanding)",
                                  why, like, mode, idx),
                              dict(replay, event_index=idx, state=x))
                reported = True
            prev = st
        if reported:
            continue
        # agreement with the model, event by event
        if mode == "flow":
            same = ie == me
        else:
            strip = lambda es: [",".join(e.split(",")[:2] + e.split(",")[3:]) for e in es]
            same = strip(ie) == strip(me)
        if not same:
            k = next((j for j in range(min(len(ie), len(me))) if (ie[j] != me[j] if mode == "flow" else strip([ie[j]]) != strip([me[j]]))), min(len(ie), len(me)))
            rep.violation("flow control: implementation and model differ at event %d (`%s`) of `%s`: impl %s vs model %s (value,fdvalue,pending,watch,mayqueue%s); no wedge in the implementation's states" % (
                k, evs[k] if k < len(evs) else "-", line[:200], ie[k] if k < len(ie) else "-", me[k] if k < len(me) else "-", ",undelivered" if mode == "tflow" else ""),
                dict(replay, event_index=k, names="correspondence harness/c/flow_h.c (%s) vs Wire.Flow.%s" % (mode, "fstep" if mode == "flow" else "fstep + socket glue of ml/flow/driver.ml")),
                found_input=False)
        elif mode == "tflow" and prev is not None and prev[5] and prev[3] == "1" and prev[4] == 1:
            res["tflow_final_states_with_message_left_in_loader"] += 1
            if stall_sample is None or label == "t-loader-stall":
                stall_sample = {"cmd": line, "impl": i[:600]}
    res["flow_distinct_nontrivial"] = len(nontrivial)
    step = max(1, len(cases) // 6)
    res["flow_samples"] = [{"cmd": l[:160], "impl": i[:160]} for l, i in list(zip(lines, impl))[::step]][:6]

    if stall_sample is not None:
        # model (driver glue) = implementation, but a written message is never delivered: must be the registered finding
        entry = {e["id"]: e for e in vlib.load_known("C11")}.get(F_LOADER)
        if entry is not None:
            for _ in range(res["tflow_final_states_with_message_left_in_loader"]):
                rep.known(entry, stall_sample)
        else:
            rep.violation("a complete message that was in the loader when a limit was reached is not delivered after the live messages are released "
                          "(0 or few live bytes, read watch enabled, message undelivered): `%s` -> %s; written one message per read it is delivered. "
                          "Not registered in known-findings.json as %s" % (stall_sample["cmd"], stall_sample["impl"][:300], F_LOADER), dict(stall_sample, leg=LEG))
    return res
