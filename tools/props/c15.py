"""C15 — passed file descriptors arrive intact and are never leaked."""
import json, os, random, resource, sys
import vlib
sys.path.insert(0, os.path.join(vlib.VERIF, "harness", "py"))
import fds_check as fc
import fds_gen as fg

# the extracted model counts fuel in unary nat: a megabyte-long message needs a deep (non-tail) recursion once per write
try:
    _soft, _hard = resource.getrlimit(resource.RLIMIT_STACK)
    resource.setrlimit(resource.RLIMIT_STACK, (_hard, _hard))
except (ValueError, OSError):
    pass

MLS = ("fds",)
HARNESSES = ("fds_h",)
LEVEL = "proof"
THEOREMS = ["C15_conservation", "C15_closed_exactly_once", "C15_received_from_sent", "C15_order_and_count",
            "C15_only_negotiated", "C15_full", "C15_fuel_suffices", "C15_write_split", "C15_delivery_on_the_wire",
            "C15_api_conservation", "C15_api_open_table", "C15_api_closes_only_own", "C15_api_identity", "C15_api_get_same_file",
            "C15_api_copy_same_files", "C15_byte_erasure", "C15_byte_conservation", "C15_byte_no_fault", "C15_read_limit_refines",
            "C15_protocol_sender_any_schedule"]

NONTRIVIAL = {"delivered-with-fds", "error-NotSupported", "error-AccessDenied", "error-NoDest", "sender-disconnected-by-bus",
              "descriptors-held", "pending-timeout-fired", "driver-reply"}


def gen_cases(tier, rnd):
    cases = list(fg.scenarios()) + fc.load_corpus("C15")
    n_plain, n_timed = (330, 36) if tier == "quick" else (20000, 400)
    cfgs = fg.configs(tier)
    for i in range(n_plain):
        cfg = cfgs[i % len(cfgs)]
        cases.append(("gen%d" % i, cfg, fg.gen_history(rnd, cfg, rnd.randint(5, 14))))
    n_long = 10 if tier == "quick" else 160
    for i in range(n_long):
        cfg = (rnd.choice([1, 2, 4, 4, 16]), fg.UNTIMED, rnd.choice([-1, -1, -1, 3]), fg.CAP)
        cases.append(("long%d" % i, cfg, fg.gen_long_history(rnd, cfg, rnd.randint(2, 5))))
    for i in range(n_timed):
        cfg = fg.TIMED_CFGS[i % len(fg.TIMED_CFGS)]
        gen = fg.gen_timed_history if i % 3 else fg.gen_history
        cases.append(("timed%d" % i, cfg, gen(rnd, cfg, rnd.randint(4, 9))))
    return cases


def run(ctx):
    rep, tier, info = ctx["rep"], ctx["tier"], ctx["info"]
    rnd = random.Random(ctx["seed"])
    model = info["model_fds"]
    lib_replay = []
    if ctx.get("replay"):
        r = json.load(open(ctx["replay"]))["replay"]
        if r.get("leg") == "api":
            cases = []
        else:
            one = [(r.get("name") or "replay", tuple(r["cfg"]), list(r["events"]))]
            cases, lib_replay = ([], one) if r.get("leg") == "library" else (one, [])
    else:
        cases = gen_cases(tier, rnd)
    cases, removed = fc.clean(model, cases)
    seen, uniq = set(), []
    for c in cases:
        key = (tuple(c[1]), tuple(c[2]))
        if key not in seen:
            seen.add(key)
            uniq.append(c)
    cases = uniq
    mtoks, mcr = fc.run_model(model, cases)
    for line, err in mcr:
        rep.violation("extracted model failed on `%s`: %s" % (line[:300], err[-300:]), {"input": line, "names": "model driver"}, found_input=False)
    impl, bad = fc.run_impl(info["daemon"], cases) if cases else ([], [])
    for cfg, rc, err, hists in bad:
        rep.violation("dbus-daemon ended with status %s / sanitizer or assertion output while replaying %d histories: %s" % (rc, len(hists), err[-700:]),
                      {"cfg": list(cfg), "histories": [" ".join(h) for h in hists], "stderr": err[-4000:]})
    known = vlib.load_known("C15")
    dist, nontrivial, steps, tainted, disagreements, validated, oracle_flags = {}, set(), 0, 0, 0, 0, 0
    samples = []
    partial_writes = 0
    for i, (name, cfg, ev) in enumerate(cases):
        replay = {"cfg": list(cfg), "events": ev, "name": name,
                  "how": "python3 tools/check.py C15 --replay <this file>  (model alone: echo 'hist %s %s' | build/ml/fds/model; long messages need `ulimit -s unlimited`)" % (fc.cfg_str(cfg), " ".join(ev)[:3000])}
        toks, notes = impl[i] if impl[i] else (None, {})
        if toks is None:
            if notes.get("daemon_alive") is False or "Sanitizer" in notes.get("stderr", ""):
                rep.violation("dbus-daemon died while replaying a history: %s" % notes.get("stderr", "")[-600:], dict(replay, stderr=notes.get("stderr")))
            else:
                rep.violation("harness could not replay a history: %s" % notes.get("exception"), dict(replay, names="harness/py/fds_impl.py", notes=notes), found_input=False)
            continue
        if notes.get("tainted"):
            tainted += 1
            continue
        mt = [fc.canon(t) for t in mtoks[i]] + ["end/0/0"]
        it = [fc.canon(t) for t in toks]
        steps += len(ev)
        validated += 1
        cl = fc.classify(ev, mt)
        for c in cl:
            dist[c] = dist.get(c, 0) + 1
        if cl & NONTRIVIAL:
            nontrivial.add((tuple(cfg), tuple(ev)))
        partial_writes += notes.get("partial_writes", 0)
        flags = fc.oracle(cfg, ev, it, notes)
        if flags:
            oracle_flags += 1
        if len(samples) < 10 and i % max(1, len(cases) // 10) == 0:
            samples.append({"cfg": list(cfg), "events": " ".join(ev), "impl": " ".join(it), "model": " ".join(mt)})
        if mt != it:
            disagreements += 1
            k = next(j for j in range(max(len(mt), len(it))) if j >= len(it) or j >= len(mt) or mt[j] != it[j])
            evk = ev[k] if k < len(ev) else "(teardown)"
            if flags:
                j, text = flags[0]
                rep.violation("step %d `%s`: %s (daemon `%s`, model expected `%s` at step %d)" % (
                    j, ev[j] if 0 <= j < len(ev) else "(teardown)", text, it[k] if k < len(it) else "?", mt[k] if k < len(mt) else "?", k),
                    dict(replay, impl=it, model=mt, oracle=flags, step=j))
            else:
                rep.violation("implementation and model differ at step %d `%s`: implementation `%s`, model `%s`; the C15 oracle accepts the implementation's behaviour"
                              % (k, evk, it[k] if k < len(it) else "?", mt[k] if k < len(mt) else "?"),
                              dict(replay, impl=it, model=mt, step=k, names="correspondence harness/py/fds_impl.py (dbus-daemon) vs Fds.step (extracted)"),
                              found_input=False)
        elif flags:
            j, text = flags[0]
            hit = next((kf for kf in known if kf.get("oracle_text") and kf["oracle_text"] in text), None)
            if hit:
                rep.known(hit, {"cfg": list(cfg), "events": " ".join(ev), "step": j, "text": text})
            else:
                rep.violation("model and implementation agree but break the specification at step %d: %s" % (j, text),
                              dict(replay, impl=it, model=mt, oracle=flags, step=j))
    # ---- library side: a real libdbus client connection reading from a scripted peer (harness/c/fds_h.c)
    lib_n = 0 if ctx.get("replay") else (3000 if tier == "quick" else 60000)
    lrnd = random.Random(ctx["seed"] * 7919 + 1)
    lcases = list(lib_replay)
    for i in range(lib_n):
        cfg = (lrnd.choice([1, 2, 3, 4, 16]), fg.UNTIMED, -1, fg.CAP)
        lcases.append(("lib%d" % i, cfg, fg.gen_lib_history(lrnd, cfg, lrnd.randint(3, 10))))
    lcases, lremoved = fc.clean(model, lcases)
    lmt, lmcr = fc.run_model(model, lcases)
    lres, lcrashes = vlib.run_lines(info["fds_h"], [fc.lib_line(cfg, ev) for _, cfg, ev in lcases]) if lcases else ([], [])
    for line, err in lcrashes:
        rep.violation("libdbus (harness fds_h) crashed or reported a sanitizer error: %s" % err[-600:], {"input": line[:4000], "stderr": err[-3000:], "leg": "library"})
    lib_dis, lib_dist, lib_nontrivial = 0, {}, set()
    for (name, cfg, ev), mt0, r in zip(lcases, lmt, lres):
        if r == "!CRASH":
            continue
        mt, it = fc.lib_canon_model(ev, mt0), r.split()
        for t in mt:
            k = "disconnected" if "/x/" in t else ("held" if t.count("/") == 2 and t.split("/")[2] != "0" else ("with-fds" if "M." in t and ".-" not in t else None))
            if k:
                lib_dist[k] = lib_dist.get(k, 0) + 1
                lib_nontrivial.add((tuple(cfg), tuple(ev)))
        flags = fc.lib_oracle(cfg, ev, it)
        replay = {"cfg": list(cfg), "events": ev, "name": name, "leg": "library", "line": fc.lib_line(cfg, ev)[:6000],
                  "how": "echo '<line>' | build/fds_h   (model: echo 'hist %s %s' | build/ml/fds/model)" % (fc.cfg_str(cfg), " ".join(ev))}
        if mt != it:
            lib_dis += 1
            k = next(j for j in range(max(len(mt), len(it))) if j >= len(it) or j >= len(mt) or mt[j] != it[j])
            if flags:
                rep.violation("library, step %d: %s (libdbus `%s`, model `%s`)" % (flags[0][0], flags[0][1], it[k] if k < len(it) else "?", mt[k] if k < len(mt) else "?"),
                              dict(replay, impl=it, model=mt, oracle=flags))
            else:
                rep.violation("libdbus and model differ at step %d: libdbus `%s`, model `%s`; the C15 oracle accepts libdbus's behaviour" % (
                    k, it[k] if k < len(it) else "?", mt[k] if k < len(mt) else "?"),
                    dict(replay, impl=it, model=mt, names="correspondence harness/c/fds_h.c (libdbus client connection) vs Fds.step (extracted)"), found_input=False)
        elif flags:
            rep.violation("library: model and libdbus agree but break the specification at step %d: %s" % flags[0], dict(replay, impl=it, model=mt, oracle=flags))
    # ---- the same library histories through the BYTE-LEVEL model (Fds/ByteLoader.v: the wire package's validators on the real bytes)
    byte_dis = 0
    if lcases:
        blines = []
        for (_, cfg, ev) in lcases:
            f = fc.lib_line(cfg, ev).split(" ")
            blines.append("bytes %s %s %s %d %s" % (f[1], f[2], f[3], cfg[3], " ".join(f[4:])))
        bres, bcr = vlib.run_lines(model, blines, shards=min(vlib.NPROC, max(1, len(blines) // 200)))
        for line, err in bcr:
            rep.violation("extracted byte-level model failed: %s" % err[-300:], {"input": line[:3000], "names": "model driver"}, found_input=False)
        for (name, cfg, ev), bm, r in zip(lcases, bres, lres):
            if r == "!CRASH" or bm == "!CRASH":
                continue
            if bm != r:
                byte_dis += 1
                flags = fc.lib_oracle(cfg, ev, r.split())
                replay = {"cfg": list(cfg), "events": ev, "name": name, "leg": "library", "line": fc.lib_line(cfg, ev)[:6000]}
                bt, it = bm.split(), r.split()
                k = next(j for j in range(max(len(bt), len(it))) if j >= len(it) or j >= len(bt) or bt[j] != it[j])
                if flags:
                    rep.violation("library, step %d: %s (libdbus `%s`, byte-level model `%s`)" % (flags[0][0], flags[0][1], it[k] if k < len(it) else "?", bt[k] if k < len(bt) else "?"),
                                  dict(replay, impl=it, model=bt, oracle=flags))
                else:
                    rep.violation("libdbus and the byte-level model differ at step %d: libdbus `%s`, model `%s`; the C15 oracle accepts libdbus's behaviour"
                                  % (k, it[k] if k < len(it) else "?", bt[k] if k < len(bt) else "?"),
                                  dict(replay, impl=it, model=bt, names="correspondence harness/c/fds_h.c vs Fds.ByteLoader.bread (extracted)"), found_input=False)
    # ---- the message API: append / copy / get_basic / get_args / ref / unref with real EMFILE failures (Fds/MsgApi.v)
    api_n = 0 if ctx.get("replay") else (2500 if tier == "quick" else 40000)
    arnd = random.Random(ctx["seed"] * 104729 + 3)
    aseqs = [fg.gen_api_sequence(arnd, arnd.randint(5, 40)) for _ in range(api_n)]
    if ctx.get("replay") and json.load(open(ctx["replay"]))["replay"].get("leg") == "api":
        aseqs = [json.load(open(ctx["replay"]))["replay"]["ops"]]
    api_dis, api_failures = 0, 0
    if aseqs:
        alines = ["api " + " ".join(o) for o in aseqs]
        ares, acr = vlib.run_lines(info["fds_h"], alines)
        amod, amcr = vlib.run_lines(model, alines)
        for line, err in acr:
            rep.violation("libdbus (harness fds_h, message API) crashed or reported a sanitizer error: %s" % err[-600:],
                          {"input": line[:4000], "stderr": err[-3000:], "leg": "api"})
        for line, err in amcr:
            rep.violation("extracted model failed on `%s`: %s" % (line[:300], err[-300:]), {"input": line, "names": "model driver"}, found_input=False)
        for ops, am, ar in zip(aseqs, amod, ares):
            if ar == "!CRASH" or am == "!CRASH":
                continue
            api_failures += sum(1 for t in ar.split() if t.startswith("0/") or t.startswith("-/"))
            mt, it = am.split() + ["end/0"], ar.split()
            flags = fc.api_oracle(ops, it)
            replay = {"leg": "api", "ops": ops, "how": "echo 'api %s' | build/fds_h   (model: the same line | build/ml/fds/model)" % " ".join(ops)}
            if mt != it:
                api_dis += 1
                k = next(j for j in range(max(len(mt), len(it))) if j >= len(it) or j >= len(mt) or mt[j] != it[j])
                if flags:
                    rep.violation("message API, op %d `%s`: %s (libdbus `%s`, model `%s`)" % (
                        flags[0][0], ops[flags[0][0]] if flags[0][0] < len(ops) else "(end)", flags[0][1], it[k] if k < len(it) else "?", mt[k] if k < len(mt) else "?"),
                        dict(replay, impl=it, model=mt, oracle=flags))
                else:
                    rep.violation("libdbus and the message API model differ at op %d `%s`: libdbus `%s`, model `%s`; the C15 oracle accepts libdbus's behaviour"
                                  % (k, ops[k] if k < len(ops) else "(end)", it[k] if k < len(it) else "?", mt[k] if k < len(mt) else "?"),
                                  dict(replay, impl=it, model=mt, names="correspondence harness/c/fds_h.c api vs MsgApi.lstep (extracted)"), found_input=False)
            elif flags:
                rep.violation("message API: model and libdbus agree but break the specification at op %d: %s" % flags[0], dict(replay, impl=it, model=mt, oracle=flags))
    # ---- exploration outside the model: a recipient that never reads (outgoing queue holds descriptors)
    import fds_impl
    blocked = []
    if not ctx.get("replay"):
        for nf, mi in ((3, 6), (1, 2), (8, 8)):
            try:
                r = fds_impl.run_blocked(info["daemon"], nf, mi)
            except Exception as e:
                rep.violation("harness could not run the blocked-recipient exploration: %r" % (e,), {"names": "harness/py/fds_impl.py run_blocked"}, found_input=False)
                continue
            blocked.append(dict(r, nfds=nf, max_incoming=mi, stderr=""))
            how = {"scenario": "blocked-recipient", "nfds_per_message": nf, "max_incoming_unix_fds": mi, "observed": {k: v for k, v in r.items() if k != "stderr"},
                   "how": "python3 -c 'import sys; sys.path.insert(0,\"harness/py\"); import fds_impl; print(fds_impl.run_blocked(\"build/dbus/bin/dbus-daemon\", %d, %d))'" % (nf, mi)}
            if r["rc"] != 0 or "Sanitizer" in r["stderr"] or "assertion failed" in r["stderr"].lower():
                rep.violation("dbus-daemon ended with status %s / sanitizer output in the blocked-recipient exploration: %s" % (r["rc"], r["stderr"][-500:]), how)
            elif r["after_sender_left"] != 0 or r["after_recipient_left"] not in (1, 1 + nf):
                # the sender's last write may have been cut short by the full socket: then one message is half-received and
                # its descriptors are pending in the sender's loader, which is within the limit
                rep.violation("descriptors queued for a recipient that never read were not all closed: %d above baseline after the recipient left "
                              "(expected 1: the sender's socket, or 1+%d with a half-written last message), %d after the sender left (expected 0)"
                              % (r["after_recipient_left"], nf, r["after_sender_left"]), how)
            elif r["blocked"] > 2 + mi + nf:
                rep.violation("the bus held %d descriptors for a blocked recipient, more than max_incoming_unix_fds (%d) plus one message allows" % (r["blocked"] - 2, mi), how)
    rep.coverage.update({
        "evaluations": len(cases) + len(lcases) + len(aseqs), "distinct_nontrivial": len(nontrivial) + len(lib_nontrivial),
        "daemon_histories": len(cases), "library_histories": len(lcases), "library_disagreements": lib_dis, "library_distribution": lib_dist, "library_histories_through_byte_level_model": len(lcases), "byte_level_disagreements": byte_dis,
        "api_sequences": len(aseqs), "api_disagreements": api_dis, "api_failed_calls_provoked": api_failures, "blocked_recipient_exploration": blocked,
        "rule": "histories over 2-5 raw clients (with / without NEGOTIATE_UNIX_FD, with / without a match rule for the test broadcast): whole messages, "
                "two messages in one write, messages split into 2-3 writes at offsets {1,8,15,16,17,20,len/2,len-8,len-1,random} with the descriptors "
                "on the first, the last or spread over the pieces, messages longer than one read (2048), UNIX_FDS announced in {0,1,2,max-1,max,max+1,"
                "policy count limit-1/limit}, attached = announced (62%%), a surplus of 1-2 or up to the maximum (24%%), or fewer / 0 / max+1 (14%%), destinations: negotiated / "
                "non-negotiated / own / dead / never-existing connection, missing name, bus driver, broadcast; policy denial by interface and by "
                "descriptor count; messages invalid in the fixed header (byte order, lengths over max_message_size) or only once complete (missing required field, bad UTF-8, protocol version); "
                "disconnects of senders and recipients between the pieces; a group of histories with descriptor-carrying messages of 300 KB - 1 MB "
                "(70%% in the header: a legal, very long object path; else in the body) to recipients that read nothing until the bus has written what "
                "their socket takes, so that the bus needs several sendmsg calls per message (measured: steps_with_partial_writes_by_the_bus); max_message_unix_fds in {1,2,3,4,16}; pending_fd_timeout %d ms with "
                "ticks of %d/%d ms in the timed group (every sum of ticks is at least 200 ms away from the timeout); plus %d hand-written boundary scenarios.  Events the model calls ill-formed (writes on "
                "connections the bus has closed) are removed before the run (%d removed).  non-trivial = the model predicts at least one of %s; "
                "distinct = distinct (configuration, event list).  LIBRARY LEG: %d histories of one libdbus client connection (max_message_unix_fds in {1,2,3,4,16}, negotiated 85%%) reading the same kinds of writes from a scripted raw peer; "
                "observed: messages popped with the identity of their descriptors, dbus_connection_get_is_connected, the pending count, /proc/self/fd "
                "against the pending count after every step and against the baseline after the last unref (%d ill-formed events removed)"
                % (fg.TIMEOUT, fg.TICK_MID, fg.TICK_LONG, len(fg.scenarios()), removed, sorted(NONTRIVIAL), len(lcases), lremoved),
        "samples": samples, "input_distribution": dist, "traces_validated_against_impl": validated + len([r for r in lres if r != "!CRASH"]) + len(aseqs), "steps_compared": steps,
        "disagreements_checked": disagreements, "timing_unusable": tainted, "steps_with_partial_writes_by_the_bus": partial_writes, "oracle_flagged_histories": oracle_flags, "exhaustive": False,
        "explanation": "PROVED (Coq, all histories, about the model coq/Fds/Fds.v): see property_theorems.  EXPLORED ONLY (not provable about C code "
                       "from a model): that the real daemon calls close() exactly once per descriptor on every path and that its descriptor table is "
                       "back at the baseline; this is observed out of process on every generated history through /proc/<pid>/fd after ordering "
                       "barriers (per step: entries - baseline - live clients = descriptors the model says are held; after teardown: 0), together "
                       "with identity (same open file description: st_dev, st_ino, file offset), order and count of the descriptors every raw client "
                       "received, the error replies, and which clients the daemon disconnected; the same for the library (a libdbus client connection "
                       "in the harness process, /proc/self/fd); the property oracle (harness/py/fds_check.py oracle / lib_oracle) "
                       "is evaluated on the observed behaviour for every history",
    })
    rep.assumptions = [
        "model coq/Fds/Fds.v is hand-written after dbus-transport-socket.c do_reading, dbus-sysdeps-unix.c _dbus_read_socket_with_unix_fds, "
        "dbus-message.c loader functions, bus/dispatch.c, bus/connection.c; tied to the code by the correspondence run only",
        "what the validators decide about a message (fixed header ok / complete message valid) is an input of the model (C01, C16 are about those decisions)",
        "kernel behaviour of SCM_RIGHTS on AF_UNIX stream sockets (ancillary data comes with the first read touching the write; read() without a control "
        "buffer discards it; a short control buffer receives what fits and sets MSG_CTRUNC) is modelled, observed on this kernel only",
        "every write is fully processed by the bus before the next one is issued (control-connection round trips); concurrent writers, blocked recipients "
        "(descriptors queued in an outgoing queue), max_incoming_unix_fds / max_outgoing_unix_fds back-pressure, monitors, activation and out-of-memory "
        "paths are outside the model",
        "time: non-tick steps are assumed to take no time; histories with ticks whose non-tick steps took more than a fifth of pending_fd_timeout are re-run, then skipped",
        "library leg: the application is assumed to pop and release every message at once and to drop a connection as soon as it is disconnected "
        "(descriptors an application keeps by holding message references or by dup() through dbus_message_iter_get_basic are the application's)",
    ]
