"""C15 — passed file descriptors arrive intact and are never leaked."""
import json, os, random, sys
import vlib
sys.path.insert(0, os.path.join(vlib.VERIF, "harness", "py"))
import fds_check as fc
import fds_gen as fg

MLS = ("fds",)
HARNESSES = ()
LEVEL = "proof-partial"
THEOREMS = []

NONTRIVIAL = {"delivered-with-fds", "error-NotSupported", "error-AccessDenied", "error-NoDest", "sender-disconnected-by-bus",
              "descriptors-held", "pending-timeout-fired", "driver-reply"}


def gen_cases(tier, rnd):
    cases = list(fg.scenarios()) + fc.load_corpus("C15")
    n_plain, n_timed = (330, 12) if tier == "quick" else (20000, 300)
    cfgs = fg.configs(tier)
    for i in range(n_plain):
        cfg = cfgs[i % len(cfgs)]
        cases.append(("gen%d" % i, cfg, fg.gen_history(rnd, cfg, rnd.randint(5, 14))))
    for i in range(n_timed):
        cfg = fg.TIMED_CFGS[i % len(fg.TIMED_CFGS)]
        cases.append(("timed%d" % i, cfg, fg.gen_history(rnd, cfg, rnd.randint(4, 9))))
    return cases


def run(ctx):
    rep, tier, info = ctx["rep"], ctx["tier"], ctx["info"]
    rnd = random.Random(ctx["seed"])
    model = info["model_fds"]
    if ctx.get("replay"):
        r = json.load(open(ctx["replay"]))["replay"]
        cases = [(r.get("name") or "replay", tuple(r["cfg"]), list(r["events"]))]
    else:
        cases = gen_cases(tier, rnd)
    cases, removed = fc.clean(model, cases)
    seen, uniq = set(), []
    for c in cases:
        key = (tuple(c[1]), tuple(c[2]))
        if key not in seen:
            seen.add(key)
            uniq.append(c)
    cases = uniq
    mtoks, mcr = fc.run_model(model, cases)
    for line, err in mcr:
        rep.violation("extracted model failed on `%s`: %s" % (line[:300], err[-300:]), {"input": line, "names": "model driver"}, found_input=False)
    impl, bad = fc.run_impl(info["daemon"], cases)
    for cfg, rc, err, hists in bad:
        rep.violation("dbus-daemon ended with status %s / sanitizer or assertion output while replaying %d histories: %s" % (rc, len(hists), err[-700:]),
                      {"cfg": list(cfg), "histories": [" ".join(h) for h in hists], "stderr": err[-4000:]})
    known = vlib.load_known("C15")
    dist, nontrivial, steps, tainted, disagreements, validated, oracle_flags = {}, set(), 0, 0, 0, 0, 0
    samples = []
    for i, (name, cfg, ev) in enumerate(cases):
        replay = {"cfg": list(cfg), "events": ev, "name": name,
                  "how": "python3 tools/check.py C15 --replay <this file>  (model alone: echo 'hist %s %s' | build/ml/fds/model)" % (fc.cfg_str(cfg), " ".join(ev))}
        toks, notes = impl[i] if impl[i] else (None, {})
        if toks is None:
            if notes.get("daemon_alive") is False or "Sanitizer" in notes.get("stderr", ""):
                rep.violation("dbus-daemon died while replaying a history: %s" % notes.get("stderr", "")[-600:], dict(replay, stderr=notes.get("stderr")))
            else:
                rep.violation("harness could not replay a history: %s" % notes.get("exception"), dict(replay, names="harness/py/fds_impl.py", notes=notes), found_input=False)
            continue
        if notes.get("tainted"):
            tainted += 1
            continue
        mt = [fc.canon(t) for t in mtoks[i]] + ["end/0/0"]
        it = [fc.canon(t) for t in toks]
        steps += len(ev)
        validated += 1
        cl = fc.classify(ev, mt)
        for c in cl:
            dist[c] = dist.get(c, 0) + 1
        if cl & NONTRIVIAL:
            nontrivial.add((tuple(cfg), tuple(ev)))
        flags = fc.oracle(cfg, ev, it, notes)
        if flags:
            oracle_flags += 1
        if len(samples) < 10 and i % max(1, len(cases) // 10) == 0:
            samples.append({"cfg": list(cfg), "events": " ".join(ev), "impl": " ".join(it), "model": " ".join(mt)})
        if mt != it:
            disagreements += 1
            k = next(j for j in range(max(len(mt), len(it))) if j >= len(it) or j >= len(mt) or mt[j] != it[j])
            evk = ev[k] if k < len(ev) else "(teardown)"
            if flags:
                j, text = flags[0]
                rep.violation("step %d `%s`: %s (daemon `%s`, model expected `%s` at step %d)" % (
                    j, ev[j] if 0 <= j < len(ev) else "(teardown)", text, it[k] if k < len(it) else "?", mt[k] if k < len(mt) else "?", k),
                    dict(replay, impl=it, model=mt, oracle=flags, step=j))
            else:
                rep.violation("implementation and model differ at step %d `%s`: implementation `%s`, model `%s`; the C15 oracle accepts the implementation's behaviour"
                              % (k, evk, it[k] if k < len(it) else "?", mt[k] if k < len(mt) else "?"),
                              dict(replay, impl=it, model=mt, step=k, names="correspondence harness/py/fds_impl.py (dbus-daemon) vs Fds.step (extracted)"),
                              found_input=False)
        elif flags:
            j, text = flags[0]
            hit = next((kf for kf in known if kf.get("oracle_text") and kf["oracle_text"] in text), None)
            if hit:
                rep.known(hit, {"cfg": list(cfg), "events": " ".join(ev), "step": j, "text": text})
            else:
                rep.violation("model and implementation agree but break the specification at step %d: %s" % (j, text),
                              dict(replay, impl=it, model=mt, oracle=flags, step=j))
    rep.coverage.update({
        "evaluations": len(cases), "distinct_nontrivial": len(nontrivial),
        "rule": "histories over 2-5 raw clients (with / without NEGOTIATE_UNIX_FD, with / without a match rule for the test broadcast): whole messages, "
                "two messages in one write, messages split into 2-3 writes at offsets {1,8,15,16,17,20,len/2,len-8,len-1,random} with the descriptors "
                "on the first, the last or spread over the pieces, messages longer than one read (2048), UNIX_FDS announced in {0,1,2,max-1,max,max+1,"
                "policy count limit-1/limit}, attached = announced (55%%) or announced+-1, +2, 0, max, max+1, destinations: negotiated / "
                "non-negotiated / own / dead / never-existing connection, missing name, bus driver, broadcast; policy denial by interface and by "
                "descriptor count; messages invalid in the fixed header (version, byte order, over max_message_size) or only once complete; "
                "disconnects of senders and recipients between the pieces; max_message_unix_fds in {1,2,3,4,16}; pending_fd_timeout %d ms with "
                "ticks of %d/%d ms in the timed group; plus %d hand-written boundary scenarios.  Events the model calls ill-formed (writes on "
                "connections the bus has closed) are removed before the run (%d removed).  non-trivial = the model predicts at least one of %s; "
                "distinct = distinct (configuration, event list)" % (fg.TIMEOUT, fg.TICK_SHORT, fg.TICK_LONG, len(fg.scenarios()), removed, sorted(NONTRIVIAL)),
        "samples": samples, "input_distribution": dist, "traces_validated_against_impl": validated, "steps_compared": steps,
        "disagreements_checked": disagreements, "timing_unusable": tainted, "oracle_flagged_histories": oracle_flags, "exhaustive": False,
        "explanation": "PROVED (Coq, all histories, about the model coq/Fds/Fds.v): see property_theorems.  EXPLORED ONLY (not provable about C code "
                       "from a model): that the real daemon calls close() exactly once per descriptor on every path and that its descriptor table is "
                       "back at the baseline; this is observed out of process on every generated history through /proc/<pid>/fd after ordering "
                       "barriers (per step: entries - baseline - live clients = descriptors the model says are held; after teardown: 0), together "
                       "with identity (same open file description: st_dev, st_ino, file offset), order and count of the descriptors every raw client "
                       "received, the error replies, and which clients the daemon disconnected; the property oracle (harness/py/fds_check.py oracle) "
                       "is evaluated on the daemon's observed behaviour for every history",
    })
    rep.assumptions = [
        "model coq/Fds/Fds.v is hand-written after dbus-transport-socket.c do_reading, dbus-sysdeps-unix.c _dbus_read_socket_with_unix_fds, "
        "dbus-message.c loader functions, bus/dispatch.c, bus/connection.c; tied to the code by the correspondence run only",
        "what the validators decide about a message (fixed header ok / complete message valid) is an input of the model (C01, C16 are about those decisions)",
        "kernel behaviour of SCM_RIGHTS on AF_UNIX stream sockets (ancillary data comes with the first read touching the write; read() without a control "
        "buffer discards it; a short control buffer receives what fits and sets MSG_CTRUNC) is modelled, observed on this kernel only",
        "every write is fully processed by the bus before the next one is issued (control-connection round trips); concurrent writers, blocked recipients "
        "(descriptors queued in an outgoing queue), max_incoming_unix_fds / max_outgoing_unix_fds back-pressure, monitors, activation and out-of-memory "
        "paths are outside the model",
        "time: non-tick steps are assumed to take no time; histories with ticks whose non-tick steps took more than a quarter of pending_fd_timeout are re-run, then skipped",
        "the library side (a libdbus client receiving descriptors) runs the same loader/transport code as the daemon; it is exercised only through the daemon",
    ]
