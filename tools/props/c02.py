"""C02 — built messages serialise to valid wire format and round-trip exactly."""
import os, random, re, sys
import vlib
sys.path.insert(0, os.path.join(vlib.VERIF, "tools"))
import wiregen

HARNESSES = ("wire_h",)
MLS = ("wire", "byteswap", "writer")
THEOREMS = []
if os.path.exists(os.path.join(vlib.COQ, "Props", "C02.v")):
    THEOREMS = re.findall(r"^Theorem\s+(C02_[A-Za-z0-9_]+)", open(os.path.join(vlib.COQ, "Props", "C02.v")).read(), re.M)


def kv(line):
    return dict(x.split("=", 1) for x in line.split(" ") if "=" in x and not x.startswith(("path=", "iface=", "member=", "err=", "dest=", "sender=", "sig=", "type=", "flags=", "serial=", "rs=", "body=")))



def dump_of(line, end):
    return line.split("dump=", 1)[1].split(end)[0]


def special_programs():
    out = []
    hdr = "build 4 0 1 path=2f61,iface=612e62,member=53 "
    # every basic type at its range edges, empty arrays of every element alignment, nested containers, dict entries, variants of containers
    for t, vals in (("y", (0, 255)), ("b", (0, 1)), ("n", (0, 32768, 65535)), ("q", (0, 65535)), ("i", (0, 2 ** 31, 2 ** 32 - 1)), ("u", (0, 2 ** 32 - 1)),
                    ("x", (0, 2 ** 63, 2 ** 64 - 1)), ("t", (0, 2 ** 64 - 1)), ("d", (0, 2 ** 63, 0x7ff8000000000000, 0x7ff0000000000000, 0xfff0000000000000, 1))):
        for v in vals:
            out.append(hdr + "%s%d" % (t, v))
            out.append(hdr + "y1 %s%d" % (t, v))
    for et in ("y", "n", "i", "x", "s", "o", "g", "v", "ai", "(ii)", "{sv}", "(yx)", "as", "a{ys}"):
        out.append(hdr + "A%s ]" % et)
        out.append(hdr + "y1 A%s ]" % et)
        out.append(hdr + "y1 A%s ] y2" % et)
    for n in (0, 1, 3, 4, 5, 7, 8, 9, 255, 256, 1000):
        out.append(hdr + "s" + ("78" * n or "-"))
        out.append(hdr + "y1 s" + ("78" * n or "-") + " y2")
    for n in (0, 1, 254, 255):
        out.append(hdr + "g" + ("69" * n or "-"))
    out.append(hdr + "V(ii) ( i1 i2 ) ;")
    out.append(hdr + "Vai Ai i1 ] ;")
    out.append(hdr + "Va{sv} A{sv} { s61 Vv Vs s62 ; ; } ] ;")
    out.append(hdr + " ".join("Vv" for _ in range(30)) + " Vy y7 ; " + " ".join(";" for _ in range(30)))
    # one-byte signature lengths with the top bit set: variants holding structs of 118..253 members, signature values of 120..255 bytes
    for k in (118, 125, 126, 127, 128, 200, 253):
        ssig = "(" + "y" * k + ")"
        out.append(hdr + "y7 V%s ( %s ) ; y9" % (ssig, " ".join("y%d" % (i % 256) for i in range(k))))
        out.append(hdr + "g" + "79" * (k + 2) + " s6162")
    # very large header fields: the fields after a 33 KB / 70 KB / 300 KB object path sit beyond 2^15 / 2^16 bytes in the header
    for n in (33000, 70000, 300000):
        big = "2f" + "61" * n
        for setters in ("path=%s,iface=612e62,member=53,dest=612e63" % big, "iface=612e62,member=53,path=%s,dest=612e63,sender=3a312e35" % big,
                        "path=2f61,iface=612e62,member=53,path=%s,iface=782e79" % big):
            out.append("build 1 0 1 %s y1 s6162 Ai i1 i2 ]" % setters)
            out.append("build 1 0 1 %s" % setters)
    out.append(hdr + "A(yx) ( y1 x2 ) ( y3 x4 ) ]")
    out.append(hdr + " ".join("i%d" % i for i in range(200)))
    for k in (1, 8, 31, 32):
        out.append(hdr + "A" + "a" * (k - 1) + "i " + " ".join("A" + "a" * (k - 2 - j) + "i" for j in range(k - 1)) + " i7 " + " ".join("]" for _ in range(k)))
        out.append(hdr + " ".join("(" for _ in range(k)) + " i7 " + " ".join(")" for _ in range(k)))
    return out


def run(ctx):
    rep, tier, info = ctx["rep"], ctx["tier"], ctx["info"]
    try:        # the extracted model recurses over byte lists: 300 KB header fields need a deep stack (inherited by the child processes)
        import resource
        resource.setrlimit(resource.RLIMIT_STACK, (resource.RLIM_INFINITY, resource.RLIM_INFINITY))
    except (ImportError, ValueError, OSError):
        pass
    rnd = random.Random(ctx["seed"])
    progs = special_programs() + [wiregen.rand_program(rnd, max_depth=rnd.choice((1, 2, 3, 3, 5))) for _ in range(1500 if tier == "quick" else 60000)]
    bs_cov = {}
    if ctx.get("replay"):
        import json
        rp = json.load(open(ctx["replay"]))["replay"]
        if rp.get("leg") == "writer":
            from props import c02_writer
            c02_writer.leg(ctx, rep, rnd, tier, only=rp.get("tokens") or rp.get("input"))
            progs = []
        elif rp.get("leg") == "byteswap":
            from props import c02_byteswap
            c02_byteswap.leg(ctx, rep, rnd, tier, only=rp.get("message") or rp.get("input", "").split(" ")[-1])
            progs = []
        else:
            progs = [rp["input"]]
    else:
        from props import c02_byteswap
        bs_cov = c02_byteswap.leg(ctx, rep, rnd, tier)
        from props import c02_writer
        bs_cov.update({"writer_" + k: v for k, v in c02_writer.leg(ctx, rep, rnd, tier).items()})
    progs = list(dict.fromkeys(progs))
    impl, icr = vlib.run_lines(info["wire_h"], progs)
    model, mcr = vlib.run_lines(info["model"], progs)
    for line, err in icr:
        rep.violation("implementation crashed / asserted while building a well-typed message: `%s`: %s" % (line[:300], err[-700:]), {"input": line, "stderr": err})
    phase2 = []       # (prog index, kind, line)
    nontrivial = set()
    shapes = {"with_variant": 0, "with_array": 0, "with_dict": 0, "with_struct": 0, "empty_body": 0, "specvalid": 0}
    for idx, (p, i, m) in enumerate(zip(progs, impl, model)):
        if i == "!CRASH":
            continue
        if m.startswith("?") or m == "!CRASH":
            rep.violation("model driver failed on %s: %s" % (p[:200], m), {"input": p, "names": "ml/wire driver build"}, found_input=False)
            continue
        if i.startswith("refused"):
            rep.violation("public construction API refused a well-typed program (%s): %s" % (i, p[:300]), {"input": p, "impl": i, "names": "generator well-typedness vs API"}, found_input=False)
            continue
        ki, km = kv(i), kv(m)
        body = p.split(" ", 5)[5] if len(p.split(" ", 5)) > 5 else ""
        for k, needle in (("with_variant", "V"), ("with_array", "A"), ("with_dict", "{"), ("with_struct", "(")):
            if needle in body:
                shapes[k] += 1
        if not body.strip():
            shapes["empty_body"] += 1
        if len(body) > 3:
            nontrivial.add(p)
        if ki.get("getters") != km.get("getters"):
            rep.violation("header getters on the freshly built message differ from what the setters set: %s\n impl %s\n want %s" % (p[:300], ki.get("getters"), km.get("getters")),
                          {"input": p, "impl": i, "model": m})
        if ki["bytes"] != km["bytes"]:
            phase2.append((idx, "specmis", "spec1 " + ki["bytes"]))
        if dump_of(i, " copyserial=") != dump_of(m, " specvalid="):
            rep.violation("values read back from the built message differ from the program: %s\n impl %s\n want %s" % (p[:200], dump_of(i, " copyserial=")[:300], dump_of(m, " specvalid=")[:300]),
                          {"input": p, "impl": i, "model": m})
        if ki.get("copyserial") != "0":
            rep.violation("dbus_message_copy does not reset the serial to 0: %s" % i[:200], {"input": p, "impl": i})
        if ki.get("copy") != ki["bytes"]:
            rep.violation("dbus_message_copy yields a different message: %s" % p[:200], {"input": p, "impl": i})
        if km["specvalid"] == "1":
            shapes["specvalid"] += 1
            phase2.append((idx, "spec", "spec1 " + ki["bytes"]))
            phase2.append((idx, "reparse", "load d " + ki["bytes"]))
            phase2.append((idx, "remarshal", "load m " + ki["bytes"]))
            phase2.append((idx, "swap", "swap " + km["be"]))
            phase2.append((idx, "remarshal_be", "load m " + km["be"]))      # parsed in the other byte order and serialised again WITHOUT being read
    spec_lines = [(idx, k, l) for idx, k, l in phase2 if l.startswith("spec1")]
    impl_lines = [(idx, k, l) for idx, k, l in phase2 if not l.startswith("spec1")]
    sres, _ = vlib.run_lines(info["model"], [l for _, _, l in spec_lines])
    ires, icr2 = vlib.run_lines(info["wire_h"], [l for _, _, l in impl_lines])
    for line, err in icr2:
        rep.violation("implementation crashed on a message it built itself: `%s`: %s" % (line[:300], err[-700:]), {"input": line, "stderr": err})
    for (idx, kind, l), r in zip(spec_lines, sres):
        p, i, m = progs[idx], impl[idx], model[idx]
        if kind == "spec":
            if not r.startswith("valid") or "reenc=same" not in r or int(r.split("total=")[1].split()[0]) * 2 != len(kv(i)["bytes"]):
                rep.violation("a message built through the public API does not serialise to a valid D-Bus message per the specification: %s -> %s" % (p[:200], kv(i)["bytes"][:300]),
                              {"input": p, "impl": i, "spec": r})
        else:  # bytes differ from the model's encoder: is the implementation's output still the same abstract valid message?
            if r.startswith("valid") and "dump=" in r and r.split("dump=", 1)[1] == dump_of(m, " specvalid="):
                rep.violation("serialisation differs from the specification encoder but decodes to the same message: %s" % p[:200],
                              {"input": p, "impl": i, "model": m, "names": "correspondence wire_h/build vs Spec.Codec.spec_encode_message (Wire.HeaderEdit.build)"}, found_input=False)
            else:
                rep.violation("serialised bytes are not the encoding of the message the program describes: %s\n impl  %s\n model %s" % (p[:200], kv(i)["bytes"][:200], kv(m)["bytes"][:200]),
                              {"input": p, "impl": i, "model": m, "spec": r})
    for (idx, kind, l), r in zip(impl_lines, ires):
        p, i, m = progs[idx], impl[idx], model[idx]
        if r == "!CRASH":
            continue
        want_dump = dump_of(i, " copyserial=")
        want_bytes = kv(i)["bytes"]
        if kind == "reparse":
            d = r.split("msgs=", 1)[1] if "msgs=" in r else r
            if "corrupted=0" not in r or d != want_dump:
                rep.violation("parsing the serialised bytes does not give back the same message: %s\n got  %s\n want %s" % (p[:200], r[:300], want_dump[:300]), {"input": p, "impl_build": i, "impl_reparse": r})
        elif kind == "remarshal":
            d = r.split("msgs=", 1)[1] if "msgs=" in r else r
            if d != want_bytes:
                rep.violation("re-serialising the parsed message is not byte-identical: %s" % p[:200], {"input": p, "impl_build": i, "impl_remarshal": r})
        elif kind == "remarshal_be":
            d = r.split("msgs=", 1)[1] if "msgs=" in r else r
            if "corrupted=0" not in r or d != kv(m)["be"]:
                rep.violation("a message received in the other byte order and serialised again without being read is not byte-identical: %s\n got  %s\n want %s" % (p[:200], d[:300], kv(m)["be"][:300]),
                              {"input": p, "cmd": l, "impl_remarshal": r, "be": kv(m)["be"]})
        elif kind == "swap":
            if not r.startswith("dump="):
                rep.violation("the other-byte-order encoding of a built message is rejected: %s -> %s" % (p[:200], r[:100]), {"input": p, "be": kv(m)["be"], "impl": r})
            else:
                d = r.split("dump=", 1)[1].split(" bytes=")[0]
                b = r.rsplit(" bytes=", 1)[1]
                if d != want_dump:
                    rep.violation("byte-order conversion changed a value: %s\n got  %s\n want %s" % (p[:200], d[:300], want_dump[:300]), {"input": p, "be": kv(m)["be"], "impl": r})
                elif b != want_bytes:
                    rep.violation("message converted from the other byte order re-serialises differently: %s" % p[:200], {"input": p, "be": kv(m)["be"], "impl": r})
    # the other entry points of the quantifier: dbus_message_iter_append_fixed_array (token F<c>) and the varargs
    # dbus_message_append_args / dbus_message_get_args (command buildargs) must build the same message as append_basic / open_container
    FIX = set("ybnqiuxtd")
    variants = []       # (prog index, kind, line)
    for idx, p in enumerate(progs):
        parts = p.split(" ")
        if len(parts) < 6 or impl[idx] == "!CRASH" or not impl[idx].startswith("getters="):
            continue
        toks = [t for t in parts[5:] if t]
        if any(t[0] == "A" and len(t) == 2 and t[1] in FIX for t in toks):
            variants.append((idx, "fixed_array", " ".join(parts[:5] + [("F" + t[1:]) if (t[0] == "A" and len(t) == 2 and t[1] in FIX) else t for t in toks])))
        ok, depth, i = True, 0, 0
        while i < len(toks) and ok:
            t = toks[i]
            if t[0] in "ybnqiuxtdsog" and len(t) >= 1:
                i += 1
            elif t[0] == "A" and len(t) == 2 and t[1] in (FIX | set("sog")):
                i += 1
                while i < len(toks) and toks[i] != "]":
                    ok = ok and toks[i][0] == t[1]
                    i += 1
                i += 1
            else:
                ok = False
        if ok and toks:
            variants.append((idx, "append_args", "buildargs " + " ".join(parts[1:])))
    vres, vcr = vlib.run_lines(info["wire_h"], [l for _, _, l in variants])
    for line, err in vcr:
        rep.violation("implementation crashed / asserted while building a well-typed message through append_fixed_array / append_args: `%s`: %s" % (line[:300], err[-700:]), {"input": line, "stderr": err})
    nvar = {"fixed_array": 0, "append_args": 0, "get_args_readback": 0}
    for (idx, kind, l), r in zip(variants, vres):
        if r == "!CRASH":
            continue
        nvar[kind] += 1
        i = impl[idx]
        if not r.startswith("getters="):
            rep.violation("the %s entry point refuses a well-typed program that append_basic/open_container accept (%s): %s" % (kind, r[:60], l[:300]), {"input": l, "impl": r, "reference": i})
            continue
        if kv(r)["bytes"] != kv(i)["bytes"]:
            rep.violation("the %s entry point builds a different message than append_basic/open_container for the same values: %s\n %s\n %s" % (kind, l[:300], kv(r)["bytes"][:300], kv(i)["bytes"][:300]),
                          {"input": l, "impl": r, "reference": i, "reference_input": progs[idx]})
        if " getargs=" in r:
            got = r.split(" getargs=", 1)[1].split(" copyserial=")[0]
            body = dump_of(i, " copyserial=").split("body=[", 1)[1] if "body=[" in dump_of(i, " copyserial=") else ""
            if got != "-":
                nvar["get_args_readback"] += 1
                if not (body.startswith(got + " ") or body == got + "]"):
                    rep.violation("dbus_message_get_args reads `%s` for the first argument, the message holds `%s`: %s" % (got[:200], body[:200], l[:300]), {"input": l, "impl": r, "reference": i})
    rep.coverage.update({
        "entry_point_variants": nvar,
        "evaluations": len(progs) + len(phase2) + len(variants) + bs_cov.get("byteswap_cases", 0) + bs_cov.get("writer_programs", 0), "distinct_nontrivial": len(nontrivial), "programs": len(progs),
        "rule": "well-typed construction programs: random type trees (depth <= 5) with range-edge values, NaN/inf/-0 doubles compared bitwise, empty arrays of every element alignment, "
                "strings crossing every padding boundary, variants of containers, dict entries, nesting up to 32, 200 arguments; header fields through the setters in random order "
                "with replacement/deletion; each program: bytes vs spec encoder, spec validity, reparse dump, re-marshal, other-byte-order encoding through the iterator, copy. "
                "non-trivial = non-empty body; distinct = distinct program text",
        "samples": progs[:3] + progs[len(progs) // 2:len(progs) // 2 + 3],
        "input_distribution": dict(shapes, **{k: v for k, v in bs_cov.items()}), "traces_validated_against_impl": len(progs), "disagreements_checked": len(rep.violations),
    })
    rep.assumptions = ["'well-typed' = programs the generator builds from a type tree (single complete contained types, non-empty structs, dict entries only in arrays, valid names); API misuse is outside the property",
                       "arrays up to a few KB; the 2^26/2^27 limits are not materialised on the construction side"]
