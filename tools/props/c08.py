"""C08 -- a peer counts as authenticated only after a valid SASL exchange.

Leg 1 (in-process): harness/c/auth_h.c drives a real DBusAuth server object; the extracted Coq model
(coq/Auth/Server.v) is run on the same concrete bytes with the environment the implementation saw
(random challenges, keyring contents); outputs after every step, end state, identity and unused bytes are diffed.
Leg 2 (daemon): raw sockets against the running dbus-daemon (transport admission, no message before BEGIN).
The extracted specification (coq/Spec/AuthSpec.v) is evaluated on every case as the oracle."""
import glob, hashlib, itertools, json, os, random, re, shutil, subprocess, sys, time
import vlib

HARNESSES = ("auth_h",)
MLS = ("auth",)
THEOREMS = []

PUID = os.getuid()
DEFAULT_CTX = b"org_freedesktop_general"
GUID = b"feedfacefeedfacefeedfacefeedface"


def hx(b):
    return bytes(b).hex() if len(b) else "-"


def unhx(s):
    return b"" if s in ("-", "") else bytes.fromhex(s)


def passwd_users():
    out = {}
    try:
        for l in open("/etc/passwd"):
            f = l.split(":")
            if len(f) > 2 and f[0] and f[0] not in out:
                out[f[0]] = int(f[2])
    except OSError:
        pass
    return out


USERS = passwd_users()


# ---------------------------------------------------------------------------
# cases
# ---------------------------------------------------------------------------
def mk_case(steps, uid=0, pid=4242, gids=None, mechs="*", fdp=1, ctx=None, keys=(), kdir="ok", tag=""):
    return {"uid": uid, "pid": pid, "gids": gids, "mechs": mechs, "fdp": fdp, "ctx": ctx, "keys": list(keys), "kdir": kdir,
            "steps": list(steps), "tag": tag}


def step_str(s):
    if s[0] == "F":
        return "F" + hx(s[1])
    if s[0] == "S":
        return "S*" if s[1] is None else "S%d" % s[1]
    if s[0] == "R":
        return "R%s:%s:%s:%s" % (hx(s[1]), hx(s[2]), s[3], s[4] if s[4] else "-")
    raise ValueError(s)


def env_str(c):
    return "uid=%s pid=%s gids=%s mechs=%s fdp=%d" % (
        "-" if c["uid"] is None else c["uid"], "-" if c["pid"] is None else c["pid"],
        "-" if not c["gids"] else ".".join(str(g) for g in c["gids"]), c["mechs"], c["fdp"])


def eff_ctx(c):
    """context the server ends up with: _dbus_auth_set_context overwrites only a prefix of the default one"""
    return DEFAULT_CTX if c["ctx"] is None else c["ctx"] + DEFAULT_CTX[len(c["ctx"]):]


def impl_line(c):
    keys = "/".join("%d:%d:%s" % k for k in c["keys"]) or "-"
    return "auth %s ctx=%s keys=%s kdir=%s steps=%s" % (env_str(c), "-" if c["ctx"] is None else hx(c["ctx"]), keys, c["kdir"], ",".join(step_str(s) for s in c["steps"]))


def context_valid(ctx):
    """_dbus_keyring_validate_context (environment oracle for e_keyring_ok)"""
    return len(ctx) > 0 and all(0 < b < 128 for b in ctx) and not any(ch in ctx for ch in b"/\\. \t\n\r")


def key_loaded(age):
    """_dbus_keyring_reload: keys older than EXPIRE_KEYS_TIMEOUT (7 min) or more than 5 min in the future are dropped"""
    return -300 <= age <= 420


def parse_impl(res):
    """-> dict(steps=[(rc, outhex)], fed=[hex of R lines], end=dict) or None if malformed"""
    toks = res.split()
    out = {"steps": [], "fed": [], "end": None, "raw": res}
    i = 0
    while i < len(toks):
        t = toks[i]
        if t == "end":
            e = {"rc": toks[i + 1] if i + 1 < len(toks) else "?"}
            for kv in toks[i + 2:]:
                if "=" in kv:
                    k, v = kv.split("=", 1)
                    e[k] = v
            out["end"] = e
            break
        if t.startswith("@"):
            out["fed"].append(t[1:])
        elif len(t) >= 2 and t[1] == ":":
            out["steps"].append((t[0], t[2:]))
        else:
            out["steps"].append(("?", t))
        i += 1
    return out


def produced_output(c, p):
    """all bytes the implementation ever appended to its outgoing buffer, in order"""
    prev = b""
    total = b""
    k = 0
    for s in c["steps"]:
        if k >= len(p["steps"]):
            break
        now = unhx(p["steps"][k][1])
        k += 1
        if s[0] == "S":
            n = len(prev) if s[1] is None else min(len(prev), s[1])
            prev = prev[n:]
        total += now[len(prev):]
        prev = now
    return total


def challenges(total):
    """(id, challenge hex text) of every non-empty DATA line the server sent that looks like a cookie challenge"""
    out = []
    for line in total.split(b"\r\n"):
        if line.startswith(b"DATA ") and len(line) > 5:
            try:
                d = bytes.fromhex(line[5:].decode())
            except ValueError:
                continue
            f = d.split(b" ")
            if len(f) == 3 and f[1].isdigit():
                out.append((int(f[1]), f[2].decode("latin-1"), f[0]))
    return out


def model_line(c, p, asserts):
    ctx = eff_ctx(c)
    steps, fed = [], list(p["fed"])
    for s in c["steps"]:
        if s[0] == "R":
            steps.append("F" + (fed.pop(0) if fed else ""))
        else:
            steps.append(step_str(s))
    ch = challenges(produced_output(c, p))
    kok = context_valid(ctx)
    cookies = {}
    if c["kdir"] != "none" and kok:
        for (i, age, sec) in c["keys"]:
            if key_loaded(age) and i not in cookies:
                cookies[i] = sec
    kf = (p["end"] or {}).get("keyfile", "-")
    if kf != "-":
        for ent in kf.split("/"):
            f = ent.split(":")
            if len(f) == 3 and int(f[0]) not in cookies and key_loaded(int(f[1])):
                cookies[int(f[0])] = f[2]
    best = [] if (c["kdir"] == "bad" or not kok) else [str(i) for (i, _, _) in ch]
    users = "/".join("%s:%d" % (n.encode().hex(), u) for n, u in sorted(USERS.items())) or "-"
    return ("authm %s ctx=%s puid=%d users=%s kok=%d best=%s chals=%s cookies=%s asserts=%d steps=%s" % (
        env_str(c), hx(ctx), PUID, users, 1 if kok else 0, "/".join(best) or "-", "/".join(h for (_, h, _) in ch) or "-",
        "/".join("%d:%s" % kv for kv in sorted(cookies.items())) or "-", asserts, ",".join(steps))), ch, cookies


# ---------------------------------------------------------------------------
# generators
# ---------------------------------------------------------------------------
def L(s):
    return s if isinstance(s, bytes) else s.encode("latin-1")


def h(s):
    return L(s).hex().encode()


def per_line(lines, drain=True):
    st = []
    for l in lines:
        if isinstance(l, tuple):
            st.append(l)
        else:
            st.append(("F", L(l) + b"\r\n"))
        if drain:
            st.append(("S", None))
    return st


R_OK = ("R", b" ", b"cc", "ok", None)
FRESH = [(7, 10, "00112233445566778899aabbccddeeff")]
ENVS = [
    dict(uid=0, mechs="*", fdp=1, keys=FRESH),
    dict(uid=1000, mechs="*", fdp=0, keys=FRESH),
    dict(uid=None, mechs="*", fdp=1, keys=FRESH, pid=None),
    dict(uid=0, mechs="EXTERNAL", fdp=1, gids=[5, 6]),
    dict(uid=0, mechs="ANONYMOUS.DBUS_COOKIE_SHA1", fdp=0, keys=FRESH),
]


def alphabet(uid):
    u = h(str(0 if uid is None else uid))
    other = h("1000" if uid != 1000 else "0")
    return [b"AUTH", b"AUTH EXTERNAL", b"AUTH EXTERNAL " + u, b"AUTH EXTERNAL " + other, b"AUTH ANONYMOUS",
            b"AUTH DBUS_COOKIE_SHA1 " + h(str(PUID)), b"AUTH BOGUS", b"DATA", b"DATA " + u, b"DATA zz", b"CANCEL", b"ERROR",
            b"BEGIN", b"NEGOTIATE_UNIX_FD", b"JUNK", R_OK]


def gen_exhaustive(tier):
    cases = []
    maxlen = 3 if tier == "quick" else 4
    for ei, env in enumerate(ENVS):
        al = alphabet(env.get("uid"))
        for n in range(1, maxlen + 1):
            if tier == "quick" and n == 3 and ei >= 3:
                continue
            for seq in itertools.product(al, repeat=n):
                # nothing is processed after BEGIN; skip sequences that only differ after the first BEGIN
                if b"BEGIN" in seq[:-1]:
                    continue
                cases.append(mk_case(per_line(seq), tag="exh", **env))
    return cases


UIDSTRS = [b"0", b"00", b"010", b"0x0", b"0X0", b" 0", b"+0", b"-0", b"-1", b"18446744073709551615", b"18446744073709551616",
           b"4294967296", b"0x", b"0b0", b"1e3", b"0 ", b"\t0", b"\n0", b"0\x00", b"", b"0x10", b"16", b"020", b"1000", b"01750",
           b"0x3e8", b"0x3E8", b"-18446744073709550616", b"1000 ", b"root", b"+", b"-", b"0x-1", b" +1000", b"\x0b\x0c\r1000",
           b"99999999999999999999999999", b"-99999999999999999999999999", b"08", b"0778", b"0xg", b"1000\xc3\xa9", b"\xff"]


def gen_identity(rnd, tier):
    cases = []
    for uid in (0, 1000, 16, 8, None):
        for s in UIDSTRS:
            cases.append(mk_case(per_line([b"AUTH EXTERNAL " + h(s), b"BEGIN"]), uid=uid, tag="uidstr"))
            cases.append(mk_case(per_line([b"AUTH EXTERNAL", b"DATA " + h(s), b"BEGIN"]), uid=uid, tag="uidstr"))
    for s in UIDSTRS + [b"root", b"daemon", b"nosuchuser_c08", b"Root"]:
        cases.append(mk_case(per_line([b"AUTH DBUS_COOKIE_SHA1 " + h(s), R_OK, b"BEGIN"]), keys=FRESH, tag="cookieuser"))
        cases.append(mk_case(per_line([b"AUTH DBUS_COOKIE_SHA1", b"DATA " + h(s), R_OK, b"BEGIN"]), keys=FRESH, tag="cookieuser"))
    # odd-length / mixed-case / malformed hex arguments
    for arg in (b"3", b"303", b"3 ", b"30 ", b"3g", b"g", b"3\x00", b"0x30", b"30 30", b"3030", b"3A", b"3a", b"3a3", b"aB"):
        for pre in ([], [b"AUTH EXTERNAL"]):
            cmd = b"DATA " if pre else b"AUTH EXTERNAL "
            for uid in (0, 10):
                cases.append(mk_case(per_line(pre + [cmd + arg, b"BEGIN"]), uid=uid, tag="hexarg"))
    # ANONYMOUS trace strings
    for t in (b"", b"a", b"a@b", b"\xc3\xa9", b"\xc3", b"\xff", b"\xed\xa0\x80", b"\x00", b"a\x00b", b"\xf4\x8f\xbf\xbf", b"\xf4\x90\x80\x80"):
        cases.append(mk_case(per_line([b"AUTH ANONYMOUS " + h(t), b"BEGIN"]), tag="anon"))
        cases.append(mk_case(per_line([b"AUTH ANONYMOUS " + h(t), b"BEGIN"]), mechs="EXTERNAL", tag="anon"))
    return cases


COOKIE_MODES = ["ok", "flip", "upper", "trunc", "empty", "schal0"]


def gen_cookie(rnd, tier):
    cases = []
    me = h(str(PUID))
    keysets = {
        "fresh": FRESH,
        "none": [],
        "stale": [(3, 330, "aa" * 16)],                      # too old for new challenges, still loaded -> server adds a key
        "expired": [(4, 500, "bb" * 16)],                    # dropped on load
        "future": [(5, -400, "cc" * 16)],                    # too far in the future: dropped
        "two": [(8, 350, "dd" * 16), (9, 20, "ee" * 16)],
        "dupid": [(9, 20, "ee" * 16), (9, 25, "ff" * 16)],
    }
    for kname, keys in keysets.items():
        for kdir in ("ok", "bad", "none"):
            for mode in COOKIE_MODES:
                for sep in (b" ", b"\t", b"  ", b""):
                    if tier == "quick" and kdir != "ok" and (mode not in ("ok", "flip") or sep != b" "):
                        continue
                    cases.append(mk_case(per_line([b"AUTH DBUS_COOKIE_SHA1 " + me, ("R", sep, b"clientchal", mode, None), b"BEGIN"]),
                                         keys=keys, kdir=kdir, tag="cookie-" + kname))
            # wrong cookie: a different key's secret, an expired one, another context's
            for ck in ("aa" * 16, "bb" * 16, "00112233445566778899aabbccddeefe", "00"):
                cases.append(mk_case(per_line([b"AUTH DBUS_COOKIE_SHA1 " + me, ("R", b" ", b"x", "ok", ck), b"BEGIN"]),
                                     keys=keys, kdir=kdir, tag="cookie-wrongsecret"))
    # context handling
    for ctx in (b"myctx", b"a/b", b"a.b", b"a b", b"", b"x" * 23, b"\xc3\xa9"):
        if ctx == b"":
            continue
        cases.append(mk_case(per_line([b"AUTH DBUS_COOKIE_SHA1 " + me, R_OK, b"BEGIN"]), ctx=ctx, keys=FRESH, tag="cookie-ctx"))
    # client challenge shapes, retries after a rejection, OK then CANCEL then another mechanism
    for ccs in (b"", b"a", b"a b", b"\x00", b"\xff" * 5, b"c" * 300):
        cases.append(mk_case(per_line([b"AUTH DBUS_COOKIE_SHA1 " + me, ("R", b" ", ccs, "ok", None), b"BEGIN"]), keys=FRESH, tag="cookie-cc"))
    seqs = [
        [b"AUTH DBUS_COOKIE_SHA1 " + me, ("R", b" ", b"c", "flip", None), b"AUTH DBUS_COOKIE_SHA1 " + me, R_OK, b"BEGIN"],
        [b"AUTH DBUS_COOKIE_SHA1 " + me, R_OK, b"CANCEL", b"AUTH ANONYMOUS", b"BEGIN"],
        [b"AUTH DBUS_COOKIE_SHA1 " + me, R_OK, b"ERROR", b"AUTH EXTERNAL " + h("0"), b"BEGIN"],
        [b"AUTH EXTERNAL " + h("0"), b"CANCEL", b"AUTH ANONYMOUS", b"BEGIN"],
        [b"AUTH EXTERNAL " + h("0"), b"CANCEL", b"AUTH DBUS_COOKIE_SHA1 " + me, R_OK, b"BEGIN"],
        [b"AUTH EXTERNAL " + h("0"), b"ERROR", b"BEGIN"],
        [b"AUTH ANONYMOUS", b"CANCEL", b"AUTH EXTERNAL " + h("0"), b"BEGIN"],
        [b"AUTH DBUS_COOKIE_SHA1 " + me, b"CANCEL", R_OK, b"BEGIN"],
        [b"AUTH DBUS_COOKIE_SHA1 " + me, b"DATA zz", R_OK, b"BEGIN"],
        [b"AUTH DBUS_COOKIE_SHA1 " + me, R_OK, R_OK, b"BEGIN"],
        [b"AUTH DBUS_COOKIE_SHA1 " + me, b"AUTH EXTERNAL " + h("0"), R_OK, b"BEGIN"],
        [b"AUTH DBUS_COOKIE_SHA1 zz", b"DATA " + me, R_OK, b"BEGIN"],
    ]
    for s in seqs:
        for uid in (0, 1000, None):
            cases.append(mk_case(per_line(s), uid=uid, keys=FRESH, tag="cookie-seq"))
    return cases


def gen_boundary(rnd, tier):
    cases = []
    ok = b"AUTH EXTERNAL 30\r\n"
    # incoming buffer cap: a line without terminator around 16 KiB, in one or several reads
    for n in (16383, 16384, 16385, 16386, 20000):
        for chunk in (n, 2048, 4096):
            data = b"A" * n
            st = [("F", data[i:i + chunk]) for i in range(0, n, chunk)] + [("F", b"\r\n"), ("S", None), ("F", ok), ("S", None), ("F", b"BEGIN\r\n")]
            cases.append(mk_case(st, tag="inbuf"))
        # complete lines inside an oversized read
        cases.append(mk_case([("F", ok + b"B" * n + b"\r\nBEGIN\r\n")], tag="inbuf"))
        cases.append(mk_case([("F", ok), ("S", None), ("F", b"B" * n), ("F", b"\r\nBEGIN\r\n")], tag="inbuf"))
        cases.append(mk_case([("F", ok), ("S", None), ("F", b"BEGIN\r\n" + b"m" * n)], tag="inbuf"))
    # exactly MAX_BUFFER including the terminator and the following commands
    for n in (16382, 16383, 16384):
        cases.append(mk_case([("F", b"X" * (n - 2) + b"\r\n" + ok + b"BEGIN\r\n")], tag="inbuf"))
        cases.append(mk_case([("F", ok + b"BEGIN\r\n" + b"X" * n)], tag="inbuf"))
    # outgoing cap: many answers without the peer reading them
    for nl in (600, 654, 655, 656, 657, 658, 700):
        cases.append(mk_case([("F", b"X\r\n" * nl + ok + b"BEGIN\r\n")], tag="outbuf"))
        cases.append(mk_case([("F", b"X\r\n" * nl), ("F", ok + b"BEGIN\r\n")], tag="outbuf"))
        cases.append(mk_case([("F", b"X\r\n" * nl), ("S", 100), ("F", ok + b"BEGIN\r\n")], tag="outbuf"))
        cases.append(mk_case([("F", ok + b"X\r\n" * nl + b"BEGIN\r\n")], tag="outbuf"))
    # rejection counter
    rej = [b"AUTH", b"AUTH BOGUS", b"ERROR", b"AUTH EXTERNAL " + h("77"), b"AUTH EXTERNAL 30\r\nCANCEL", b"AUTH ANONYMOUS\r\nERROR"]
    for n in (4, 5, 6, 7, 8):
        for r in rej:
            cases.append(mk_case(per_line([r] * n + [b"AUTH EXTERNAL 30", b"BEGIN"]), tag="rejcount"))
            cases.append(mk_case([("F", (L(r) + b"\r\n") * n + ok + b"BEGIN\r\nrest")], tag="rejcount"))
        mix = [rej[rnd.randrange(len(rej))] for _ in range(n)]
        cases.append(mk_case(per_line(mix + [b"AUTH EXTERNAL 30", b"BEGIN"]), tag="rejcount"))
    # errors do not count
    cases.append(mk_case(per_line([b"FOO"] * 20 + [b"AUTH EXTERNAL zz"] * 20 + [b"AUTH EXTERNAL 30", b"BEGIN"]), tag="rejcount"))
    # bytes around BEGIN
    for tail in (b"", b"l", b"\x00", b"l\x01\x00\x01" + b"\x00" * 12, b"\r\n", b"BEGIN\r\n", b"AUTH\r\n"):
        for begin in (b"BEGIN", b"BEGIN ", b"BEGIN x y", b"BEGIN\t", b"BEGINX", b"begin", b" BEGIN", b"BEGIN\r", b"BEGI"):
            cases.append(mk_case([("F", ok + begin + b"\r\n" + tail)], tag="begin"))
            cases.append(mk_case([("F", ok), ("S", None), ("F", begin + b"\r\n"), ("F", tail)], tag="begin"))
    # message bytes before BEGIN
    hello = b"l\x01\x00\x01\x00\x00\x00\x00\x01\x00\x00\x00\x10\x00\x00\x00"
    for pre in (hello, hello + b"\r\n", b"\x00", b"\x00AUTH EXTERNAL 30"):
        cases.append(mk_case([("F", pre), ("F", ok), ("S", None), ("F", b"BEGIN\r\n")], tag="prebegin"))
        cases.append(mk_case([("F", ok), ("S", None), ("F", pre), ("F", b"BEGIN\r\n")], tag="prebegin"))
    return cases


CRASHY = [b"AUTH \n", b"AUTH \r", b"AUTH EXTERNAL \n30", b"AUTH EXTERNAL\t\r", b"DATA \n", b" \n", b"\t\r", b"X  \n", b"AUTH  \nEXTERNAL",
          b"BEGIN \n", b"CANCEL \r", b"AUTH \n\n", b"AUTH\n", b"AUTH\r", b"AUTH \x0b", b"AUTH EXTERNAL 30\n", b"AUTH\n EXTERNAL"]


def gen_crashy(rnd, tier):
    cases = []
    for l in CRASHY:
        cases.append(mk_case(per_line([l, b"AUTH EXTERNAL 30", b"BEGIN"]), tag="blankcrlf"))
        cases.append(mk_case(per_line([b"AUTH EXTERNAL", l, b"BEGIN"]), tag="blankcrlf"))
        cases.append(mk_case(per_line([b"AUTH EXTERNAL 30", l, b"BEGIN"]), tag="blankcrlf"))
    me = h(str(PUID))
    for sep in (b" \n", b" \r", b"\t\n", b"\n", b" \x0b", b"\n "):
        cases.append(mk_case(per_line([b"AUTH DBUS_COOKIE_SHA1 " + me, ("R", sep, b"cc", "ok", None), b"BEGIN"]), keys=FRESH, tag="blankcrlf"))
    return cases


RICH = [b"AUTH", b"AUTH ", b"AUTH  ", b"AUTH EXTERNAL", b"AUTH EXTERNAL ", b"AUTH EXTERNAL 30", b"AUTH  EXTERNAL  30", b"AUTH\tEXTERNAL\t30",
        b"AUTH EXTERNAL 31303030", b"AUTH EXTERNAL 3", b"AUTH EXTERNAL zz", b"AUTH EXTERNAL 30 ", b"AUTH EXTERNAL 30 30", b"AUTH external 30",
        b"auth EXTERNAL 30", b"AUTH ANONYMOUS", b"AUTH ANONYMOUS 61", b"AUTH ANONYMOUS ff", b"AUTH DBUS_COOKIE_SHA1", b"AUTH BOGUS", b"AUTH BOGUS 30",
        b"AUTH EXTERNALX", b"AUTH EXTERNA", b"DATA", b"DATA ", b"DATA 30", b"DATA 31303030", b"DATA zz", b"DATA 3", b"DATA 30 ", b"CANCEL", b"CANCEL x",
        b"ERROR", b"ERROR \"oops\"", b"BEGIN", b"NEGOTIATE_UNIX_FD", b"NEGOTIATE_UNIX_FD x", b"OK", b"OK 1234", b"REJECTED EXTERNAL", b"AGREE_UNIX_FD",
        b"", b" ", b"\t", b" AUTH", b"FOO", b"AUTHX", b"AUT", b"\xff", b"AUTH \xc3\xa9", b"AUTH\x00", b"A\x00", b"DATA\x7f", b"\x7f", b"\x01"]


def gen_random(rnd, tier):
    cases = []
    n = 2500 if tier == "quick" else 120000
    me = h(str(PUID))
    mechsets = ["*", "*", "*", "EXTERNAL", "ANONYMOUS", "DBUS_COOKIE_SHA1", "EXTERNAL.ANONYMOUS", "-", "BOGUS", "EXTERNAL.BOGUS", "DBUS_COOKIE_SHA1.EXTERNAL"]
    for _ in range(n):
        uid = rnd.choice((0, 0, 0, 1000, None))
        al = RICH + [b"AUTH DBUS_COOKIE_SHA1 " + me, b"AUTH DBUS_COOKIE_SHA1 " + h("root"), b"AUTH EXTERNAL " + h(str(uid or 0)),
                     b"DATA " + h(str(uid or 0)), b"DATA " + me, b"BEGIN", b"BEGIN", b"CANCEL", b"ERROR"]
        k = rnd.choice((1, 2, 3, 4, 5, 6, 8, 12, 20))
        seq = []
        for _ in range(k):
            r = rnd.random()
            if r < 0.12:
                seq.append(("R", rnd.choice((b" ", b" ", b"\t", b"  ", b"")), rnd.choice((b"cc", b"a b", b"")), rnd.choice(COOKIE_MODES[:3] + ["ok", "ok"]),
                            rnd.choice((None, None, None, "aa" * 16))))
            else:
                seq.append(rnd.choice(al))
        env = dict(uid=uid, pid=rnd.choice((None, 4242)), gids=rnd.choice((None, None, [1, 2])), mechs=rnd.choice(mechsets), fdp=rnd.choice((0, 1)),
                   ctx=rnd.choice((None, None, None, b"ctx2")), keys=rnd.choice((FRESH, FRESH, [], [(3, 330, "aa" * 16)], [(4, 500, "bb" * 16)])),
                   kdir=rnd.choice(("ok", "ok", "ok", "ok", "bad", "none")))
        style = rnd.random()
        if style < 0.4 or any(isinstance(x, tuple) for x in seq):
            steps = per_line(seq, drain=rnd.random() < 0.8)
        else:
            data = b"".join(L(x) + b"\r\n" for x in seq) + rnd.choice((b"", b"", b"tail", b"\x00l", b"BEG"))
            steps = []
            if style < 0.55:
                steps = [("F", data)]
            elif style < 0.7:
                steps = [("F", data[i:i + 1]) for i in range(len(data))]
            else:
                i = 0
                while i < len(data):
                    j = min(len(data), i + rnd.choice((1, 2, 3, 5, 8, 13, 40)))
                    steps.append(("F", data[i:j]))
                    if rnd.random() < 0.3:
                        steps.append(("S", rnd.choice((None, None, 1, 7, 30))))
                    i = j
        cases.append(mk_case(steps, tag="random", **env))
    return cases


def gen_chunkings(rnd, tier):
    """every way of cutting short scripts into two reads (the CRLF may straddle the cut)"""
    cases = []
    scripts = [b"AUTH EXTERNAL 30\r\nBEGIN\r\nxy", b"AUTH EXTERNAL\r\nDATA 30\r\nBEGIN\r\n", b"AUTH ANONYMOUS\r\nNEGOTIATE_UNIX_FD\r\nBEGIN\r\n\r\n",
               b"AUTH\r\nAUTH EXTERNAL 31\r\nAUTH EXTERNAL 30\r\nCANCEL\r\nBEGIN\r\n", b"\r\n\r\r\n\n\r\nBEGIN\r\n"]
    for s in scripts:
        for i in range(len(s) + 1):
            cases.append(mk_case([("F", s[:i]), ("F", s[i:])], tag="cut2"))
            cases.append(mk_case([("F", s[:i]), ("S", None), ("F", s[i:])], tag="cut2"))
        if tier != "quick":
            for i in range(len(s) + 1):
                for j in range(i, len(s) + 1):
                    cases.append(mk_case([("F", s[:i]), ("F", s[i:j]), ("F", s[j:])], tag="cut3"))
    return cases


def may_abort(c):
    """conservative syntactic test for the inputs that can trip the assertion in _dbus_string_skip_blank"""
    data = b"".join(s[1] for s in c["steps"] if s[0] == "F")
    if re.search(rb"[ \t][\r\n]", data.replace(b"\r\n", b"\x00\x00")) or re.search(rb"[ \t]\r\r\n", data):
        return True
    for s in c["steps"]:
        if s[0] == "R" and re.search(rb"[\r\n]", s[1] + s[2]):
            return True
    return False


# ---------------------------------------------------------------------------
# running
# ---------------------------------------------------------------------------
def cleanup_tmp():
    for d in glob.glob("/tmp/verif_c08_*"):
        m = re.match(r"/tmp/verif_c08_(\d+)_", d)
        if not m:
            continue
        try:
            os.kill(int(m.group(1)), 0)
        except OSError:
            shutil.rmtree(d, ignore_errors=True)


def run_single(exe, line):
    """one process for one case; returns (stdout text, returncode, stderr tail)"""
    e = dict(os.environ)
    e["ASAN_OPTIONS"] = "detect_leaks=0:abort_on_error=0:exitcode=99:allocator_may_return_null=1"
    e["UBSAN_OPTIONS"] = "print_stacktrace=1:halt_on_error=1"
    e["VERIF_FLUSH"] = "1"
    r = subprocess.run([exe], input=line + "\n", capture_output=True, text=True, env=e, timeout=120)
    return r.stdout, r.returncode, r.stderr[-3000:]


def build_asserts(info):
    try:
        cfg = open(os.path.join(vlib.DBUS_BUILD, "config.h")).read()
        return 0 if re.search(r"^#define DBUS_DISABLE_ASSERT\b", cfg, re.M) else 1
    except OSError:
        return 1


def common_part(res):
    """the part of a result line both sides print: step tokens and end rc/id/unused/fdneg"""
    p = parse_impl(res)
    e = p["end"] or {}
    return p["steps"], (e.get("rc"), e.get("id"), e.get("unused"), e.get("fdneg"))


def run(ctx):
    rep, tier, info = ctx["rep"], ctx["tier"], ctx["info"]
    rnd = random.Random(ctx["seed"])
    asserts = build_asserts(info)
    cases = []
    for f in sorted(glob.glob(os.path.join(vlib.VERIF, "corpus", "C08", "*.json"))):
        for c in json.load(open(f)):
            c["steps"] = [tuple(unhx(x) if isinstance(x, str) and i in (1, 2) and s[0] in "FR" else x for i, x in enumerate(s)) for s in c["steps"]]
            c["ctx"] = None if c.get("ctx") is None else unhx(c["ctx"])
            c["keys"] = [tuple(k) for k in c.get("keys", [])]
            cases.append(c)
    cases += gen_identity(rnd, tier) + gen_cookie(rnd, tier) + gen_boundary(rnd, tier) + gen_crashy(rnd, tier) + gen_chunkings(rnd, tier)
    cases += gen_exhaustive(tier) + gen_random(rnd, tier)
    batch = [c for c in cases if not may_abort(c)]
    single = [c for c in cases if may_abort(c)]
    if tier == "quick":
        single = single[:400]
    t0 = time.time()
    impl, icr = vlib.run_lines(info["auth_h"], [impl_line(c) for c in batch])
    for line, err in icr:
        rep.violation("implementation crashed / sanitizer report on input `%s`: %s" % (line[:300], err[-700:]), {"input": line, "stderr": err})
    mlines = []
    parsed = []
    for c, r in zip(batch, impl):
        p = parse_impl(r) if r != "!CRASH" else None
        parsed.append(p)
        mlines.append(model_line(c, p, asserts)[0] if p and p["end"] else "")
    model, mcr = vlib.run_lines(info["model_auth"], mlines)
    for line, err in mcr:
        rep.violation("extracted model failed on `%s`: %s" % (line[:300], err[-300:]), {"input": line, "names": "model driver"}, found_input=False)
    dist, nontrivial, ndis = {}, set(), 0
    for c, r, p, ml, m in zip(batch, impl, parsed, mlines, model):
        if p is None or not p["end"] or not ml:
            continue
        dist[c["tag"]] = dist.get(c["tag"], 0) + 1
        if m.startswith("?") or m == "!CRASH":
            rep.violation("model driver failed: %s on %s" % (m, ml[:200]), {"model_input": ml, "names": "model driver"}, found_input=False)
            continue
        if common_part(r) != common_part(m):
            ndis += 1
            rep.violation("implementation and model disagree on %s: impl `%s` model `%s`" % (impl_line(c)[:300], r[:300], m[:300]),
                          {"impl_input": impl_line(c), "model_input": ml, "impl": r, "model": m, "names": "correspondence auth_h vs Auth.Server.step"},
                          found_input=False)
        if p["end"]["rc"] == "A":
            nontrivial.add(impl_line(c))
    log_t = time.time() - t0
    cleanup_tmp()
    rep.coverage.update({"evaluations": len(cases), "distinct_nontrivial": len(nontrivial), "input_distribution": dist,
                         "traces_validated_against_impl": len(batch), "disagreements_checked": ndis, "leg1_s": round(log_t, 1)})
